package ref

import (
	"errors"
	"fmt"
	"strings"
)

// Doc is the internal document model: a JSON object. Sections publicKey, service and alsoKnownAs are ordered sets.
type Doc = map[string]interface{}

// ErrUnsupported is returned for patches the model does not cover (the caller must skip the comparison).
var ErrUnsupported = errors.New("model: unsupported patch")

// CopyTree deep-copies a JSON tree.
func CopyTree(v interface{}) interface{} {
	switch t := v.(type) {
	case map[string]interface{}:
		m := make(map[string]interface{}, len(t))
		for k, x := range t {
			m[k] = CopyTree(x)
		}
		return m
	case []interface{}:
		a := make([]interface{}, len(t))
		for i := range t {
			a[i] = CopyTree(t[i])
		}
		return a
	}
	return v
}

func idOf(v interface{}) (string, bool) {
	m, ok := v.(map[string]interface{})
	if !ok {
		return "", false
	}
	s, _ := m["id"].(string)
	return s, true
}

func section(d Doc, name string) []interface{} {
	a, _ := d[name].([]interface{})
	return a
}

func addByID(existing []interface{}, add []interface{}) []interface{} {
	out := append([]interface{}{}, existing...)
	present := map[string]bool{}
	for _, e := range existing {
		if id, ok := idOf(e); ok {
			present[id] = true
		}
	}
	for _, a := range add {
		id, ok := idOf(a)
		if !ok {
			continue
		}
		if present[id] {
			for i := range out {
				if oid, _ := idOf(out[i]); oid == id {
					out[i] = a
				}
			}
		} else {
			out = append(out, a)
		}
	}
	return out
}

func removeByID(existing []interface{}, ids []interface{}) []interface{} {
	rm := map[string]bool{}
	for _, i := range ids {
		if s, ok := i.(string); ok {
			rm[s] = true
		}
	}
	var out []interface{}
	for _, e := range existing {
		if id, _ := idOf(e); !rm[id] {
			out = append(out, e)
		}
	}
	return out
}

// ApplyPatch applies one Sidetree patch (generic JSON object) to a copy of d.
// Returns ErrUnsupported for constructs the model deliberately does not cover.
func ApplyPatch(d Doc, p map[string]interface{}) (Doc, error) {
	d = CopyTree(d).(Doc)
	action, _ := p["action"].(string)
	switch action {
	case "add-public-keys":
		add, _ := p["publicKeys"].([]interface{})
		d["publicKey"] = addByID(section(d, "publicKey"), add)
	case "remove-public-keys":
		ids, _ := p["ids"].([]interface{})
		d["publicKey"] = removeByID(section(d, "publicKey"), ids)
	case "add-services":
		add, _ := p["services"].([]interface{})
		d["service"] = addByID(section(d, "service"), add)
	case "remove-services":
		ids, _ := p["ids"].([]interface{})
		d["service"] = removeByID(section(d, "service"), ids)
	case "add-also-known-as":
		uris, _ := p["uris"].([]interface{})
		cur := section(d, "alsoKnownAs")
		have := map[string]bool{}
		for _, u := range cur {
			if s, ok := u.(string); ok {
				have[s] = true
			}
		}
		for _, u := range uris {
			if s, ok := u.(string); ok && !have[s] {
				cur = append(cur, s)
			}
		}
		d["alsoKnownAs"] = cur
	case "remove-also-known-as":
		uris, _ := p["uris"].([]interface{})
		rm := map[string]bool{}
		for _, u := range uris {
			if s, ok := u.(string); ok {
				rm[s] = true
			}
		}
		var out []interface{}
		for _, u := range section(d, "alsoKnownAs") {
			if s, _ := u.(string); !rm[s] {
				out = append(out, u)
			}
		}
		d["alsoKnownAs"] = out
	case "replace":
		doc, _ := p["document"].(map[string]interface{})
		nd := Doc{}
		if v, ok := doc["publicKeys"]; ok {
			nd["publicKey"] = v
		}
		if v, ok := doc["services"]; ok {
			nd["service"] = v
		}
		return nd, nil
	case "ietf-json-patch":
		ops, _ := p["patches"].([]interface{})
		for _, o := range ops {
			om, ok := o.(map[string]interface{})
			if !ok {
				return nil, ErrUnsupported
			}
			kind, _ := om["op"].(string)
			path, _ := om["path"].(string)
			// members of the document and members of object-valued members (depth <= 2), no arrays, no escapes
			locate := func(ptr string) (map[string]interface{}, string, error) {
				if !strings.HasPrefix(ptr, "/") || strings.Contains(ptr, "~") {
					return nil, "", ErrUnsupported
				}
				toks := strings.Split(ptr[1:], "/")
				switch len(toks) {
				case 1:
					return d, toks[0], nil
				case 2:
					parent, exists := d[toks[0]]
					if !exists {
						return nil, "", fmt.Errorf("missing parent %s", toks[0])
					}
					pm, ok := parent.(map[string]interface{})
					if !ok {
						return nil, "", ErrUnsupported
					}
					return pm, toks[1], nil
				}
				return nil, "", ErrUnsupported
			}
			parent, name, err := locate(path)
			if err != nil {
				return nil, err
			}
			switch kind {
			case "add":
				v, ok := om["value"]
				if !ok {
					return nil, ErrUnsupported
				}
				parent[name] = CopyTree(v)
			case "replace":
				v, ok := om["value"]
				if !ok {
					return nil, ErrUnsupported
				}
				if _, exists := parent[name]; !exists {
					return nil, fmt.Errorf("replace: missing %s", name)
				}
				parent[name] = CopyTree(v)
			case "remove":
				if _, exists := parent[name]; !exists {
					return nil, fmt.Errorf("remove: missing %s", name)
				}
				delete(parent, name)
			case "copy":
				// RFC 6902: the value at "from" is copied - source and copy are independent values afterwards
				from, _ := om["from"].(string)
				if from == path || strings.HasPrefix(path, from+"/") {
					return nil, ErrUnsupported
				}
				fp, fn, err := locate(from)
				if err != nil {
					return nil, err
				}
				v, exists := fp[fn]
				if !exists {
					return nil, fmt.Errorf("copy: missing %s", from)
				}
				parent[name] = CopyTree(v)
			default:
				return nil, ErrUnsupported
			}
		}
	default:
		return nil, fmt.Errorf("unknown action %q", action)
	}
	return d, nil
}

// ApplyPatches applies all patches or fails as a whole.
func ApplyPatches(d Doc, patches []interface{}) (Doc, error) {
	cur := CopyTree(d).(Doc)
	for _, p := range patches {
		pm, ok := p.(map[string]interface{})
		if !ok {
			return nil, ErrUnsupported
		}
		var err error
		cur, err = ApplyPatch(cur, pm)
		if err != nil {
			return nil, err
		}
	}
	return cur, nil
}

// NormalizeDoc drops empty / null ordered-set sections so that null, absent and [] compare equal.
func NormalizeDoc(d map[string]interface{}) map[string]interface{} {
	if d == nil {
		return map[string]interface{}{}
	}
	out := CopyTree(d).(map[string]interface{})
	for _, s := range []string{"publicKey", "service", "alsoKnownAs"} {
		v, ok := out[s]
		if !ok {
			continue
		}
		if v == nil {
			delete(out, s)
			continue
		}
		if a, isArr := v.([]interface{}); isArr && len(a) == 0 {
			delete(out, s)
		}
	}
	return out
}

// DocKey is a canonical string of the normalized document (for equality).
func DocKey(d map[string]interface{}) string {
	return string(MustJCS(NormalizeDoc(d)))
}
