package ref

import (
	"crypto/ecdsa"
	"crypto/ed25519"
	"crypto/elliptic"
	"crypto/sha256"
	"crypto/sha512"
	"encoding/binary"
	"fmt"
	"hash"
	"math/big"

	"github.com/btcsuite/btcd/btcec"
)

// KeyTypes lists the five supported key types.
var KeyTypes = []string{"Ed25519", "P-256", "P-384", "P-521", "secp256k1"}

// Key is a deterministic key pair with its public JWK.
type Key struct {
	Type  string // one of KeyTypes
	Name  string
	curve elliptic.Curve
	d     *big.Int // EC private scalar
	X, Y  *big.Int
	edPrv ed25519.PrivateKey
	EdPub ed25519.PublicKey
	Nonce string // optional nonce member of the JWK
	// XSpelling / YSpelling, when set, replace the canonical base64url text of the coordinates in the JWK (another spelling of
	// the same bytes); reveal value, commitment and signed data are then derived from the JWK as spelled
	XSpelling, YSpelling string
}

func curveFor(typ string) elliptic.Curve {
	switch typ {
	case "P-256":
		return elliptic.P256()
	case "P-384":
		return elliptic.P384()
	case "P-521":
		return elliptic.P521()
	case "secp256k1":
		return btcec.S256()
	}
	return nil
}

// Curve returns the elliptic curve (nil for Ed25519).
func (k *Key) Curve() elliptic.Curve { return k.curve }

// Alg returns the JWS algorithm name for the key type.
func (k *Key) Alg() string { return AlgFor(k.Type) }

// AlgFor maps key type to JWS alg.
func AlgFor(typ string) string {
	switch typ {
	case "Ed25519":
		return "EdDSA"
	case "P-256":
		return "ES256"
	case "P-384":
		return "ES384"
	case "P-521":
		return "ES512"
	case "secp256k1":
		return "ES256K"
	}
	return ""
}

func hasherFor(typ string) hash.Hash {
	switch typ {
	case "P-384":
		return sha512.New384()
	case "P-521":
		return sha512.New()
	}
	return sha256.New()
}

// CoordSize is the byte length of one coordinate / signature half.
func (k *Key) CoordSize() int {
	if k.curve == nil {
		return 32
	}
	return (k.curve.Params().BitSize + 7) / 8
}

func expand(seed []byte, n int) []byte {
	var out []byte
	var ctr uint32
	for len(out) < n {
		var c [4]byte
		binary.BigEndian.PutUint32(c[:], ctr)
		h := sha512.Sum512(append(append([]byte{}, seed...), c[:]...))
		out = append(out, h[:]...)
		ctr++
	}
	return out[:n]
}

// NewKey derives a key pair deterministically from a seed.
func NewKey(typ, name string, seed []byte) *Key {
	k := &Key{Type: typ, Name: name}
	if typ == "Ed25519" {
		k.edPrv = ed25519.NewKeyFromSeed(expand(seed, 32))
		k.EdPub = k.edPrv.Public().(ed25519.PublicKey)
		return k
	}
	c := curveFor(typ)
	if c == nil {
		panic("unknown key type " + typ)
	}
	k.curve = c
	n := c.Params().N
	d := new(big.Int).SetBytes(expand(seed, (n.BitLen()+7)/8+8))
	d.Mod(d, new(big.Int).Sub(n, big.NewInt(1)))
	d.Add(d, big.NewInt(1))
	k.d = d
	k.X, k.Y = c.ScalarBaseMult(d.Bytes())
	return k
}

func fixed(b *big.Int, size int) []byte {
	out := make([]byte, size)
	bb := b.Bytes()
	copy(out[size-len(bb):], bb)
	return out
}

// JWK returns the public key as a JSON object in the shape the library's model uses
// (kty, crv, x, y — y is the empty string for OKP keys — and nonce when set).
func (k *Key) JWK() map[string]interface{} {
	m := map[string]interface{}{}
	if k.Type == "Ed25519" {
		m["kty"], m["crv"], m["x"], m["y"] = "OKP", "Ed25519", B64(k.EdPub), ""
	} else {
		m["kty"], m["crv"] = "EC", k.Type
		m["x"], m["y"] = B64(fixed(k.X, k.CoordSize())), B64(fixed(k.Y, k.CoordSize()))
	}
	if k.XSpelling != "" {
		m["x"] = k.XSpelling
	}
	if k.YSpelling != "" {
		m["y"] = k.YSpelling
	}
	if k.Nonce != "" {
		m["nonce"] = k.Nonce
	}
	return m
}

// AltSpelling returns another base64url text that lenient decoders map to the same bytes (the unused low bits of the last
// character set), or "" when the text has no unused bits.
func AltSpelling(b64 string) string {
	const alphabet = "ABCDEFGHIJKLMNOPQRSTUVWXYZabcdefghijklmnopqrstuvwxyz0123456789-_"
	spare := map[int]int{2: 4, 3: 2}[len(b64)%4] // unused bits in the last character
	if spare == 0 || len(b64) == 0 {
		return ""
	}
	for i := 0; i < 64; i++ {
		if alphabet[i] == b64[len(b64)-1] {
			return b64[:len(b64)-1] + string(alphabet[i|1])
		}
	}
	return ""
}

// CanonicalJWK is the JCS form of the JWK.
func (k *Key) CanonicalJWK() []byte { return MustJCS(k.JWK()) }

// Reveal returns the reveal value for the key under the multihash code.
func (k *Key) Reveal(code uint64) string { return EncMultihash(code, k.CanonicalJWK()) }

// Commitment returns the commitment for the key under the multihash code.
func (k *Key) Commitment(code uint64) string {
	d, err := Digest(code, k.CanonicalJWK())
	if err != nil {
		panic(err)
	}
	return EncMultihash(code, d)
}

// CommitmentFromReveal computes the commitment from an encoded reveal value.
func CommitmentFromReveal(reveal string) (string, error) {
	code, digest, err := DecodeMultihash(reveal)
	if err != nil {
		return "", err
	}
	mh, err := Multihash(code, digest)
	if err != nil {
		return "", err
	}
	return B64(mh), nil
}

// Sign produces a raw JWS signature (r||s fixed width, or Ed25519) over msg, deterministically.
func (k *Key) Sign(msg []byte) []byte {
	if k.Type == "Ed25519" {
		return ed25519.Sign(k.edPrv, msg)
	}
	h := hasherFor(k.Type)
	h.Write(msg)
	z := new(big.Int).SetBytes(h.Sum(nil))
	r, s := k.signDigest(z, msg)
	sz := k.CoordSize()
	return append(fixed(r, sz), fixed(s, sz)...)
}

func (k *Key) signDigest(z *big.Int, msg []byte) (*big.Int, *big.Int) {
	n := k.curve.Params().N
	for ctr := 0; ; ctr++ {
		seed := append(append([]byte(fmt.Sprintf("nonce%d|", ctr)), k.d.Bytes()...), msg...)
		kk := new(big.Int).SetBytes(expand(seed, (n.BitLen()+7)/8+8))
		kk.Mod(kk, new(big.Int).Sub(n, big.NewInt(1)))
		kk.Add(kk, big.NewInt(1))
		rx, _ := k.curve.ScalarBaseMult(kk.Bytes())
		r := new(big.Int).Mod(rx, n)
		if r.Sign() == 0 {
			continue
		}
		kinv := new(big.Int).ModInverse(kk, n)
		s := new(big.Int).Mul(r, k.d)
		s.Add(s, z)
		s.Mul(s, kinv)
		s.Mod(s, n)
		if s.Sign() == 0 {
			continue
		}
		return r, s
	}
}

// Order returns the group order of the key's curve.
func (k *Key) Order() *big.Int { return k.curve.Params().N }

// CompactJWS builds header.payload.signature with a compact, sorted protected header.
func CompactJWS(k *Key, header map[string]interface{}, payload []byte) string {
	h := MustJCS(header)
	input := B64(h) + "." + B64(payload)
	return input + "." + B64(k.Sign([]byte(input)))
}

// Header returns {alg[,kid]} for the key.
func (k *Key) Header(kid string) map[string]interface{} {
	h := map[string]interface{}{"alg": k.Alg()}
	if kid != "" {
		h["kid"] = kid
	}
	return h
}

// ECDSAPrivate exposes the key as a Go ecdsa private key (nil for Ed25519).
func (k *Key) ECDSAPrivate() *ecdsa.PrivateKey {
	if k.curve == nil {
		return nil
	}
	return &ecdsa.PrivateKey{PublicKey: ecdsa.PublicKey{Curve: k.curve, X: k.X, Y: k.Y}, D: k.d}
}

// EdPrivate exposes the Ed25519 private key (nil for EC keys).
func (k *Key) EdPrivate() ed25519.PrivateKey { return k.edPrv }
