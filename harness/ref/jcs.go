// Package ref holds independent reference implementations used as oracles.
// Nothing in this package imports code from the repository under test.
package ref

import (
	"bytes"
	"crypto/sha256"
	"crypto/sha512"
	"encoding/base64"
	"encoding/json"
	"errors"
	"fmt"
	"math"
	"sort"
	"strconv"
	"strings"
	"unicode/utf16"
)

// ---------- base64url ----------

// B64 encodes raw-url base64.
func B64(b []byte) string { return base64.RawURLEncoding.EncodeToString(b) }

// UnB64 decodes raw-url base64.
func UnB64(s string) ([]byte, error) { return base64.RawURLEncoding.DecodeString(s) }

// ---------- multihash ----------

const (
	SHA256 = 0x12
	SHA512 = 0x13
)

func uvarint(x uint64) []byte {
	var out []byte
	for x >= 0x80 {
		out = append(out, byte(x)|0x80)
		x >>= 7
	}
	return append(out, byte(x))
}

// Digest returns the raw hash for the multihash code.
func Digest(code uint64, data []byte) ([]byte, error) {
	switch code {
	case SHA256:
		h := sha256.Sum256(data)
		return h[:], nil
	case SHA512:
		h := sha512.Sum512(data)
		return h[:], nil
	}
	return nil, fmt.Errorf("unsupported multihash code %d", code)
}

// Multihash returns code||len||digest.
func Multihash(code uint64, data []byte) ([]byte, error) {
	d, err := Digest(code, data)
	if err != nil {
		return nil, err
	}
	return WrapDigest(code, d), nil
}

// WrapDigest wraps a digest in the multihash framing.
func WrapDigest(code uint64, digest []byte) []byte {
	out := append([]byte{}, uvarint(code)...)
	out = append(out, uvarint(uint64(len(digest)))...)
	return append(out, digest...)
}

// EncMultihash = base64url(multihash(data)).
func EncMultihash(code uint64, data []byte) string {
	mh, err := Multihash(code, data)
	if err != nil {
		panic(err)
	}
	return B64(mh)
}

// DecodeMultihash decodes an encoded multihash: returns code and digest; error if malformed.
func DecodeMultihash(enc string) (uint64, []byte, error) {
	b, err := UnB64(enc)
	if err != nil {
		return 0, nil, err
	}
	code, n := readUvarint(b)
	if n <= 0 {
		return 0, nil, errors.New("bad varint code")
	}
	b = b[n:]
	l, n := readUvarint(b)
	if n <= 0 {
		return 0, nil, errors.New("bad varint len")
	}
	b = b[n:]
	if uint64(len(b)) != l {
		return 0, nil, errors.New("inconsistent length")
	}
	return code, b, nil
}

func readUvarint(b []byte) (uint64, int) {
	var x uint64
	var s uint
	for i, c := range b {
		if i == 9 {
			return 0, -1
		}
		if c < 0x80 {
			if i > 0 && c == 0 {
				return 0, -1 // non minimal
			}
			return x | uint64(c)<<s, i + 1
		}
		x |= uint64(c&0x7f) << s
		s += 7
	}
	return 0, 0
}

// ---------- JCS (RFC 8785) over a value tree ----------
// value tree: nil, bool, float64, string, []interface{}, map[string]interface{}, *OMap

// OMap is an object with ordered members (used by generators for re-serialization).
type OMap struct {
	Keys []string
	Vals []interface{}
}

// Plain converts a tree containing *OMap into plain maps.
func Plain(v interface{}) interface{} {
	switch t := v.(type) {
	case *OMap:
		m := make(map[string]interface{}, len(t.Keys))
		for i, k := range t.Keys {
			m[k] = Plain(t.Vals[i])
		}
		return m
	case []interface{}:
		out := make([]interface{}, len(t))
		for i := range t {
			out[i] = Plain(t[i])
		}
		return out
	case map[string]interface{}:
		m := make(map[string]interface{}, len(t))
		for k, x := range t {
			m[k] = Plain(x)
		}
		return m
	}
	return v
}

func utf16Less(a, b string) bool {
	ua, ub := utf16.Encode([]rune(a)), utf16.Encode([]rune(b))
	for i := 0; i < len(ua) && i < len(ub); i++ {
		if ua[i] != ub[i] {
			return ua[i] < ub[i]
		}
	}
	return len(ua) < len(ub)
}

// JCSString serializes a string per RFC 8785.
func JCSString(s string) string {
	var sb strings.Builder
	sb.WriteByte('"')
	for _, r := range s {
		switch r {
		case '"':
			sb.WriteString(`\"`)
		case '\\':
			sb.WriteString(`\\`)
		case '\b':
			sb.WriteString(`\b`)
		case '\f':
			sb.WriteString(`\f`)
		case '\n':
			sb.WriteString(`\n`)
		case '\r':
			sb.WriteString(`\r`)
		case '\t':
			sb.WriteString(`\t`)
		default:
			if r < 0x20 {
				sb.WriteString(fmt.Sprintf(`\u%04x`, r))
			} else {
				sb.WriteRune(r)
			}
		}
	}
	sb.WriteByte('"')
	return sb.String()
}

// JCS serializes the value tree canonically.
func JCS(v interface{}) (string, error) {
	var sb strings.Builder
	if err := jcs(&sb, v); err != nil {
		return "", err
	}
	return sb.String(), nil
}

// MustJCS panics on error.
func MustJCS(v interface{}) []byte {
	s, err := JCS(v)
	if err != nil {
		panic(err)
	}
	return []byte(s)
}

func jcs(sb *strings.Builder, v interface{}) error {
	switch t := v.(type) {
	case nil:
		sb.WriteString("null")
	case bool:
		if t {
			sb.WriteString("true")
		} else {
			sb.WriteString("false")
		}
	case float64:
		s, err := ES6Number(t)
		if err != nil {
			return err
		}
		sb.WriteString(s)
	case int:
		return jcs(sb, float64(t))
	case int64:
		return jcs(sb, float64(t))
	case uint64:
		return jcs(sb, float64(t))
	case json.Number:
		f, err := strconv.ParseFloat(string(t), 64)
		if err != nil {
			return err
		}
		return jcs(sb, f)
	case string:
		sb.WriteString(JCSString(t))
	case []interface{}:
		sb.WriteByte('[')
		for i, x := range t {
			if i > 0 {
				sb.WriteByte(',')
			}
			if err := jcs(sb, x); err != nil {
				return err
			}
		}
		sb.WriteByte(']')
	case []string:
		arr := make([]interface{}, len(t))
		for i := range t {
			arr[i] = t[i]
		}
		return jcs(sb, arr)
	case *OMap:
		return jcs(sb, Plain(t))
	case map[string]interface{}:
		keys := make([]string, 0, len(t))
		for k := range t {
			keys = append(keys, k)
		}
		sort.Slice(keys, func(i, j int) bool { return utf16Less(keys[i], keys[j]) })
		sb.WriteByte('{')
		for i, k := range keys {
			if i > 0 {
				sb.WriteByte(',')
			}
			sb.WriteString(JCSString(k))
			sb.WriteByte(':')
			if err := jcs(sb, t[k]); err != nil {
				return err
			}
		}
		sb.WriteByte('}')
	default:
		return fmt.Errorf("jcs: unsupported type %T", v)
	}
	return nil
}

// ES6Number formats a double per ECMAScript Number::toString (radix 10).
func ES6Number(f float64) (string, error) {
	if math.IsNaN(f) || math.IsInf(f, 0) {
		return "", errors.New("NaN/Inf not allowed")
	}
	if f == 0 {
		return "0", nil
	}
	sign := ""
	if f < 0 {
		sign = "-"
		f = -f
	}
	// shortest round-trip digits: d.ddddde±xx
	e := strconv.FormatFloat(f, 'e', -1, 64)
	mant, expS, _ := strings.Cut(e, "e")
	exp, _ := strconv.Atoi(expS)
	digits := strings.Replace(mant, ".", "", 1)
	k := len(digits)
	n := exp + 1 // value = 0.digits * 10^n  ... ES: digits * 10^(n-k)
	var out string
	switch {
	case k <= n && n <= 21:
		out = digits + strings.Repeat("0", n-k)
	case 0 < n && n <= 21:
		out = digits[:n] + "." + digits[n:]
	case -6 < n && n <= 0:
		out = "0." + strings.Repeat("0", -n) + digits
	default:
		es := strconv.Itoa(n - 1)
		if n-1 > 0 {
			es = "+" + es
		}
		if k == 1 {
			out = digits + "e" + es
		} else {
			out = digits[:1] + "." + digits[1:] + "e" + es
		}
	}
	return sign + out, nil
}

// ParseJSONStrict parses JSON into a plain tree, rejecting duplicate keys, and requiring valid UTF-8 handling as Go does.
// Used only on outputs of the code under test (round-trip check), never to derive expected values from inputs.
func ParseJSONStrict(data []byte) (interface{}, error) {
	dec := json.NewDecoder(bytes.NewReader(data))
	v, err := parseVal(dec)
	if err != nil {
		return nil, err
	}
	if _, err := dec.Token(); err == nil {
		return nil, errors.New("trailing content")
	}
	return v, nil
}

func parseVal(dec *json.Decoder) (interface{}, error) {
	tok, err := dec.Token()
	if err != nil {
		return nil, err
	}
	switch t := tok.(type) {
	case json.Delim:
		switch t {
		case '{':
			m := map[string]interface{}{}
			for dec.More() {
				kt, err := dec.Token()
				if err != nil {
					return nil, err
				}
				k := kt.(string)
				if _, dup := m[k]; dup {
					return nil, fmt.Errorf("duplicate key %q", k)
				}
				v, err := parseVal(dec)
				if err != nil {
					return nil, err
				}
				m[k] = v
			}
			_, err := dec.Token()
			return m, err
		case '[':
			arr := []interface{}{}
			for dec.More() {
				v, err := parseVal(dec)
				if err != nil {
					return nil, err
				}
				arr = append(arr, v)
			}
			_, err := dec.Token()
			return arr, err
		}
		return nil, fmt.Errorf("unexpected delim %v", t)
	default:
		return tok, nil
	}
}

// ---------- base58 (bitcoin alphabet) ----------

const b58Alphabet = "123456789ABCDEFGHJKLMNPQRSTUVWXYZabcdefghijkmnopqrstuvwxyz"

// Base58 encodes bytes with the bitcoin alphabet.
func Base58(in []byte) string {
	zeros := 0
	for zeros < len(in) && in[zeros] == 0 {
		zeros++
	}
	num := append([]byte{}, in...)
	var out []byte
	start := zeros
	for start < len(num) {
		rem := 0
		for i := start; i < len(num); i++ {
			acc := rem*256 + int(num[i])
			num[i] = byte(acc / 58)
			rem = acc % 58
		}
		out = append(out, b58Alphabet[rem])
		for start < len(num) && num[start] == 0 {
			start++
		}
	}
	for i := 0; i < zeros; i++ {
		out = append(out, '1')
	}
	for i, j := 0, len(out)-1; i < j; i, j = i+1, j-1 {
		out[i], out[j] = out[j], out[i]
	}
	return string(out)
}

// MustJCSString is MustJCS as string.
func MustJCSString(v interface{}) string { return string(MustJCS(v)) }
