package ref

// Hand-assembled Sidetree operation requests (no repository code involved).

// Delta builds a delta object.
func Delta(updateCommitment string, patches []interface{}) map[string]interface{} {
	return map[string]interface{}{"updateCommitment": updateCommitment, "patches": patches}
}

// HashModel = base64url(multihash(JCS(model))).
func HashModel(code uint64, model interface{}) string {
	return EncMultihash(code, MustJCS(model))
}

// CreateSpec describes a create request.
type CreateSpec struct {
	Code               uint64
	RecoveryCommitment string
	Delta              map[string]interface{}
	DeltaHashOverride  string // if set, used instead of the real delta hash
	AnchorOrigin       interface{}
	Type               string
}

// SuffixData builds the suffix data object of the create.
func (c *CreateSpec) SuffixData() map[string]interface{} {
	sd := map[string]interface{}{"recoveryCommitment": c.RecoveryCommitment}
	if c.DeltaHashOverride != "" {
		sd["deltaHash"] = c.DeltaHashOverride
	} else {
		sd["deltaHash"] = HashModel(c.Code, c.Delta)
	}
	if c.AnchorOrigin != nil {
		sd["anchorOrigin"] = c.AnchorOrigin
	}
	if c.Type != "" {
		sd["type"] = c.Type
	}
	return sd
}

// Suffix is the DID unique suffix.
func (c *CreateSpec) Suffix() string { return HashModel(c.Code, c.SuffixData()) }

// Request returns the request object.
func (c *CreateSpec) Request() map[string]interface{} {
	return map[string]interface{}{"type": "create", "suffixData": c.SuffixData(), "delta": c.Delta}
}

// SignedSpec describes update / recover / deactivate requests.
type SignedSpec struct {
	Op         string // update | recover | deactivate
	Code       uint64
	DeltaCode  uint64 // multihash algorithm of the signed delta hash (default Code)
	RevealCode uint64 // multihash algorithm of the reveal value (default Code)
	Suffix     string
	RevealKey  *Key // key whose reveal value goes to the top level
	SignedKey  *Key // key placed inside the signed data (normally = RevealKey)
	SigningKey *Key // key that actually signs (normally = RevealKey)
	Delta      map[string]interface{}
	// DeltaHashOverride replaces the signed delta hash
	DeltaHashOverride  string
	RecoveryCommitment string // recover only
	AnchorOrigin       interface{}
	AnchorFrom         int64
	AnchorUntil        int64
	SignedSuffix       string // deactivate: suffix inside signed data (default Suffix)
	Kid                string
	// post-processing knobs
	TamperSignature bool                                 // flip one bit in the signature
	AlterPayload    func(payload map[string]interface{}) // applied AFTER signing, payload re-encoded
	OmitDelta       bool
	NullDelta       bool
	// DeltaInRequest, when set, is placed in the request instead of Delta (the signed hash still covers Delta)
	DeltaInRequest map[string]interface{}
}

// SignedPayload builds the signed data model.
func (s *SignedSpec) SignedPayload() map[string]interface{} {
	sk := s.SignedKey
	if sk == nil {
		sk = s.RevealKey
	}
	p := map[string]interface{}{}
	switch s.Op {
	case "update":
		p["updateKey"] = sk.JWK()
		p["deltaHash"] = s.deltaHash()
	case "recover":
		p["recoveryKey"] = sk.JWK()
		p["deltaHash"] = s.deltaHash()
		p["recoveryCommitment"] = s.RecoveryCommitment
		if s.AnchorOrigin != nil {
			p["anchorOrigin"] = s.AnchorOrigin
		}
	case "deactivate":
		p["recoveryKey"] = sk.JWK()
		suffix := s.SignedSuffix
		if suffix == "" {
			suffix = s.Suffix
		}
		p["didSuffix"] = suffix
	}
	if s.AnchorFrom != 0 {
		p["anchorFrom"] = float64(s.AnchorFrom)
	}
	if s.AnchorUntil != 0 {
		p["anchorUntil"] = float64(s.AnchorUntil)
	}
	return p
}

func (s *SignedSpec) deltaHash() string {
	if s.DeltaHashOverride != "" {
		return s.DeltaHashOverride
	}
	if s.DeltaCode != 0 {
		return HashModel(s.DeltaCode, s.Delta)
	}
	return HashModel(s.Code, s.Delta)
}

// Request returns the request object.
func (s *SignedSpec) Request() map[string]interface{} {
	signer := s.SigningKey
	if signer == nil {
		signer = s.RevealKey
	}
	payload := s.SignedPayload()
	jws := CompactJWS(signer, signer.Header(s.Kid), MustJCS(payload))
	if s.TamperSignature || s.AlterPayload != nil {
		h, _, sig := splitJWS(jws)
		pl := MustJCS(payload)
		if s.AlterPayload != nil {
			s.AlterPayload(payload)
			pl = MustJCS(payload)
		}
		if s.TamperSignature {
			raw, _ := UnB64(sig)
			raw[len(raw)/3] ^= 0x04
			sig = B64(raw)
		}
		jws = h + "." + B64(pl) + "." + sig
	}
	req := map[string]interface{}{
		"type":        s.Op,
		"didSuffix":   s.Suffix,
		"revealValue": s.RevealKey.Reveal(s.revealCode()),
		"signedData":  jws,
	}
	if s.Op != "deactivate" && !s.OmitDelta {
		if s.NullDelta {
			req["delta"] = nil
		} else if s.DeltaInRequest != nil {
			req["delta"] = s.DeltaInRequest
		} else {
			req["delta"] = s.Delta
		}
	}
	return req
}

func splitJWS(j string) (string, string, string) {
	var parts []string
	start := 0
	for i := 0; i < len(j); i++ {
		if j[i] == '.' {
			parts = append(parts, j[start:i])
			start = i + 1
		}
	}
	parts = append(parts, j[start:])
	for len(parts) < 3 {
		parts = append(parts, "")
	}
	return parts[0], parts[1], parts[2]
}

// SplitJWS exposes the three compact parts.
func SplitJWS(j string) (string, string, string) { return splitJWS(j) }

func (s *SignedSpec) revealCode() uint64 {
	if s.RevealCode != 0 {
		return s.RevealCode
	}
	return s.Code
}
