package ref

import (
	"errors"
	"time"
)

// Independent projection: internal document + resolution state -> external DID document and metadata.

// KeyContexts maps verification method types to their JSON-LD context (specification table, frozen).
var KeyContexts = map[string]string{
	"Bls12381G2Key2020":                 "https://w3id.org/security/suites/bls12381-2020/v1",
	"JsonWebKey2020":                    "https://w3id.org/security/suites/jws-2020/v1",
	"EcdsaSecp256k1VerificationKey2019": "https://w3id.org/security/suites/secp256k1-2019/v1",
	"Ed25519VerificationKey2018":        "https://w3id.org/security/suites/ed25519-2018/v1",
	"Ed25519VerificationKey2020":        "https://w3id.org/security/suites/ed25519-2020/v1",
	"X25519KeyAgreementKey2019":         "https://w3id.org/security/suites/x25519-2019/v1",
}

var purposeSection = map[string]string{
	"authentication": "authentication", "assertionMethod": "assertionMethod", "keyAgreement": "keyAgreement",
	"capabilityDelegation": "capabilityDelegation", "capabilityInvocation": "capabilityInvocation",
}

// ProjOpts are the transformer options.
type ProjOpts struct {
	Base      bool
	MethodCtx []string
}

// Projected is the expected external document split into the order-insensitive context set and the rest.
type Projected struct {
	Doc      map[string]interface{} // without @context
	Contexts []interface{}          // expected members of @context (any order)
}

// ProjectDoc computes the expected external DID document.
func ProjectDoc(internal map[string]interface{}, did string, o ProjOpts) (*Projected, error) {
	objID := func(id string) string {
		if o.Base {
			return "#" + id
		}
		return did + "#" + id
	}
	out := map[string]interface{}{"id": did}
	ctx := []interface{}{"https://www.w3.org/ns/did/v1"}
	for _, m := range o.MethodCtx {
		ctx = append(ctx, m)
	}
	if o.Base {
		ctx = append(ctx, map[string]interface{}{"@base": did})
	}
	if aka, ok := internal["alsoKnownAs"].([]interface{}); ok {
		var uris []interface{}
		for _, u := range aka {
			if s, isS := u.(string); isS {
				uris = append(uris, s)
			}
		}
		if len(uris) > 0 {
			out["alsoKnownAs"] = uris
		}
	}
	keys, _ := internal["publicKey"].([]interface{})
	var vms []interface{}
	sections := map[string][]interface{}{}
	seenCtx := map[string]bool{}
	for _, e := range keys {
		k, ok := e.(map[string]interface{})
		if !ok {
			continue
		}
		id, _ := k["id"].(string)
		typ, _ := k["type"].(string)
		vm := map[string]interface{}{"id": objID(id), "type": typ, "controller": did}
		if jwk, ok := k["publicKeyJwk"].(map[string]interface{}); ok {
			switch typ {
			case "Ed25519VerificationKey2018", "Ed25519VerificationKey2020":
				x, _ := jwk["x"].(string)
				raw, err := UnB64(x)
				if err != nil || len(raw) != 32 {
					return nil, errors.New("model: Ed25519 JWK without a 32-byte x")
				}
				if typ == "Ed25519VerificationKey2018" {
					vm["publicKeyBase58"] = Base58(raw)
				} else {
					vm["publicKeyMultibase"] = "z" + Base58(raw)
				}
			default:
				vm["publicKeyJwk"] = jwk
			}
		} else if b58, _ := k["publicKeyBase58"].(string); b58 != "" {
			vm["publicKeyBase58"] = b58
		} else if mb, _ := k["publicKeyMultibase"].(string); mb != "" {
			vm["publicKeyMultibase"] = mb
		} else {
			vm["publicKeyJwk"] = nil
		}
		c, known := KeyContexts[typ]
		if !known {
			return nil, errors.New("model: unknown key type " + typ)
		}
		if !seenCtx[c] {
			seenCtx[c] = true
			ctx = append(ctx, c)
		}
		vms = append(vms, vm)
		if ps, ok := k["purposes"].([]interface{}); ok {
			for _, p := range ps {
				if s, isS := p.(string); isS {
					if sec, ok := purposeSection[s]; ok {
						sections[sec] = append(sections[sec], objID(id))
					}
				}
			}
		}
	}
	if len(vms) > 0 {
		out["verificationMethod"] = vms
	}
	for sec, ids := range sections {
		if len(ids) > 0 {
			out[sec] = ids
		}
	}
	svcs, _ := internal["service"].([]interface{})
	var outS []interface{}
	for _, e := range svcs {
		s, ok := e.(map[string]interface{})
		if !ok {
			continue
		}
		id, _ := s["id"].(string)
		typ, _ := s["type"].(string)
		ns := map[string]interface{}{}
		for k, v := range s {
			ns[k] = v
		}
		ns["id"], ns["type"], ns["serviceEndpoint"] = objID(id), typ, s["serviceEndpoint"]
		outS = append(outS, ns)
	}
	if len(outS) > 0 {
		out["service"] = outS
	}
	return &Projected{Doc: out, Contexts: ctx}, nil
}

// MetaIn is the resolution state handed to the metadata projection.
type MetaIn struct {
	UpdateCommitment, RecoveryCommitment string
	AnchorOrigin                         interface{}
	Deactivated, Published               bool
	VersionID                            string
	CreatedTime, UpdatedTime             uint64
	CanonicalID                          interface{} // from transformation info (nil = absent)
	EquivalentID                         interface{}
}

// ProjectMeta computes the expected document metadata (without operation lists).
func ProjectMeta(m MetaIn) map[string]interface{} {
	method := map[string]interface{}{"published": m.Published}
	if m.RecoveryCommitment != "" {
		method["recoveryCommitment"] = m.RecoveryCommitment
	}
	if m.UpdateCommitment != "" {
		method["updateCommitment"] = m.UpdateCommitment
	}
	if m.AnchorOrigin != nil {
		method["anchorOrigin"] = m.AnchorOrigin
	}
	md := map[string]interface{}{"method": method}
	if m.Deactivated {
		md["deactivated"] = true
	}
	if m.CanonicalID != nil {
		md["canonicalId"] = m.CanonicalID
	}
	if m.EquivalentID != nil {
		md["equivalentId"] = m.EquivalentID
	}
	if m.Published {
		md["created"] = time.Unix(int64(m.CreatedTime), 0).UTC().Format(time.RFC3339)
	}
	if m.VersionID != "" {
		md["versionId"] = m.VersionID
		if m.UpdatedTime > 0 {
			md["updated"] = time.Unix(int64(m.UpdatedTime), 0).UTC().Format(time.RFC3339)
		}
	}
	return md
}
