package ref

import (
	"errors"
	"sort"
)

// Delta status values.
const (
	DeltaOK       = "ok"
	DeltaMismatch = "mismatch" // delta does not match its (signed) hash
	DeltaInvalid  = "invalid"  // delta fails validation (e.g. disabled patch action)
	DeltaFails    = "fails"    // valid delta whose patches fail to apply
)

// Op is the generator's knowledge about one anchored operation (descriptor), plus the concrete request.
type Op struct {
	Label   string
	Type    string // create | update | recover | deactivate
	Request []byte

	// Parses: the request is parseable in batch mode (well-formed, reveal value present...). Creates: suffix data valid.
	Parses bool
	// Consumes: commitment derived from the op's top-level reveal value (non-create).
	Consumes string
	// Authorised: reveal value = hash of the key in the signed data, signature genuine for that key over the
	// signed data as transmitted, (deactivate) signed suffix matches.
	Authorised bool
	// NextRecovery: recover: next recovery commitment. NextUpdate: create/recover/update: update commitment in delta.
	NextRecovery string
	NextUpdate   string
	// CreateRecovery: recovery commitment in suffix data (create).
	CreateRecovery string
	DeltaStatus    string
	Patches        []interface{} // the delta's patches (applied with the document model when DeltaStatus==ok)
	From, Until    int64
	AnchorOrigin   interface{}

	// anchoring
	Time, Number uint64
	Ref          string // canonical reference; "" = unpublished
	Version      uint64 // protocol version (genesis time)
	MaxDelta     int64  // MaxOperationTimeDelta of the version the op is applied under
}

// Published reports whether the op is anchored.
func (o *Op) Published() bool { return o.Ref != "" }

// State is the resolved state.
type State struct {
	Doc                Doc
	UpdateCommitment   string
	RecoveryCommitment string
	Deactivated        bool
	LastTime           uint64
	LastNumber         uint64
	VersionID          string
	CanonicalRef       string
	CreatedTime        uint64
	UpdatedTime        uint64
	AnchorOrigin       interface{}
	Applied            []string // labels of ops that took effect (in order)
}

// ErrNotFound means no (valid) create.
var ErrNotFound = errors.New("model: create operation not found")

// ErrBadVersion means unknown version id / time before first op.
var ErrBadVersion = errors.New("model: invalid version id or time")

// InWindow implements the anchoring window rule.
func InWindow(from, until int64, maxDelta int64, t uint64) bool {
	if from == 0 && until == 0 {
		return true
	}
	if from > int64(t) {
		return false
	}
	eff := until
	if from != 0 && until == 0 {
		eff = from + maxDelta
	}
	return eff >= int64(t)
}

// Order sorts: published by (time, number), then unpublished by (time, number).
func Order(ops []*Op) []*Op {
	out := append([]*Op{}, ops...)
	sort.SliceStable(out, func(i, j int) bool {
		a, b := out[i], out[j]
		if a.Published() != b.Published() {
			return a.Published()
		}
		if a.Time != b.Time {
			return a.Time < b.Time
		}
		return a.Number < b.Number
	})
	return out
}

// ResolveOpts selects a historical version.
type ResolveOpts struct {
	VersionID   string
	VersionTime uint64
	HasTime     bool
}

// Resolve runs the reference state machine.
func Resolve(all []*Op, opt ResolveOpts) (*State, error) {
	ops := Order(all)
	if opt.VersionID != "" {
		idx := -1
		for i, o := range ops {
			if o.Ref == opt.VersionID {
				idx = i
				break
			}
		}
		if idx < 0 {
			return nil, ErrBadVersion
		}
		ops = ops[:idx+1]
	} else if opt.HasTime {
		var f []*Op
		for _, o := range ops {
			if o.Time <= opt.VersionTime {
				f = append(f, o)
			}
		}
		if len(f) == 0 {
			return nil, ErrBadVersion
		}
		ops = f
	}

	var st *State
	for _, o := range ops {
		if o.Type != "create" || !o.Parses {
			continue
		}
		st = &State{Doc: Doc{}, RecoveryCommitment: o.CreateRecovery, AnchorOrigin: o.AnchorOrigin,
			LastTime: o.Time, LastNumber: o.Number, VersionID: o.Ref, CanonicalRef: o.Ref, CreatedTime: o.Time}
		if o.DeltaStatus == DeltaOK || o.DeltaStatus == DeltaFails {
			st.UpdateCommitment = o.NextUpdate
		}
		if o.DeltaStatus == DeltaOK {
			if d, err := ApplyPatches(Doc{}, o.Patches); err == nil {
				st.Doc = d
			}
		}
		st.Applied = append(st.Applied, o.Label)
		break
	}
	if st == nil {
		return nil, ErrNotFound
	}

	// full operations
	consumed := map[string]bool{}
	for {
		c := st.RecoveryCommitment
		if c == "" {
			break
		}
		var applied *Op
		for _, o := range ops {
			if (o.Type != "recover" && o.Type != "deactivate") || !o.Parses || o.Consumes != c {
				continue
			}
			next := o.NextRecovery
			if o.Type == "deactivate" {
				next = ""
			}
			if next == c || (next != "" && consumed[next]) {
				continue
			}
			if !o.Authorised {
				continue
			}
			if o.Type == "deactivate" && !InWindow(o.From, o.Until, o.MaxDelta, o.Time) {
				continue
			}
			applied = o
			break
		}
		if applied == nil {
			break
		}
		consumed[c] = true
		o := applied
		st.LastTime, st.LastNumber, st.VersionID, st.UpdatedTime = o.Time, o.Number, o.Ref, o.Time
		st.Applied = append(st.Applied, o.Label)
		if o.Type == "deactivate" {
			st.Doc, st.UpdateCommitment, st.RecoveryCommitment, st.Deactivated = Doc{}, "", "", true
			return st, nil
		}
		st.Doc, st.RecoveryCommitment, st.UpdateCommitment = Doc{}, o.NextRecovery, ""
		st.CanonicalRef, st.AnchorOrigin = o.Ref, o.AnchorOrigin
		if o.DeltaStatus == DeltaOK || o.DeltaStatus == DeltaFails {
			st.UpdateCommitment = o.NextUpdate
		}
		if o.DeltaStatus == DeltaOK && InWindow(o.From, o.Until, o.MaxDelta, o.Time) {
			if d, err := ApplyPatches(Doc{}, o.Patches); err == nil {
				st.Doc = d
			}
		}
	}

	// updates strictly after the last create/full operation, or unpublished
	lastT, lastN := st.LastTime, st.LastNumber
	consumed = map[string]bool{}
	for {
		c := st.UpdateCommitment
		if c == "" {
			break
		}
		var applied *Op
		for _, o := range ops {
			if o.Type != "update" || !o.Parses || o.Consumes != c {
				continue
			}
			if o.Published() && !(o.Time > lastT || (o.Time == lastT && o.Number > lastN)) {
				continue
			}
			if o.NextUpdate == c || (o.NextUpdate != "" && consumed[o.NextUpdate]) {
				continue
			}
			if !o.Authorised || o.DeltaStatus == DeltaMismatch || o.DeltaStatus == DeltaInvalid {
				continue
			}
			applied = o
			break
		}
		if applied == nil {
			break
		}
		consumed[c] = true
		o := applied
		st.LastTime, st.LastNumber, st.VersionID, st.UpdatedTime = o.Time, o.Number, o.Ref, o.Time
		st.UpdateCommitment = o.NextUpdate
		st.Applied = append(st.Applied, o.Label)
		if o.DeltaStatus == DeltaOK && InWindow(o.From, o.Until, o.MaxDelta, o.Time) {
			if d, err := ApplyPatches(st.Doc, o.Patches); err == nil {
				st.Doc = d
			}
		}
	}
	return st, nil
}
