package main

// Online checker of the Resolve trace specification T1-T6 (DESIGN Appendix A.1), fed by a recording
// decorator around the REAL operation applier.

import (
	"encoding/json"
	"fmt"

	"github.com/trustbloc/sidetree-core-go/pkg/api/operation"
	"github.com/trustbloc/sidetree-core-go/pkg/api/protocol"

	"verifharness/hx"
	"verifharness/ref"
)

type budgetExceeded struct{ calls, budget int }

// traceApplier wraps the real applier, records apply events and checks T1-T6 online.
type traceApplier struct {
	inner        protocol.OperationApplier
	budget       int
	calls        int
	okCount      int
	created      bool
	deact        bool
	consumedR    map[string]bool
	consumedU    map[string]bool
	fullT, fullN uint64 // coordinates of the last applied create / full operation
	problems     []string
	events       []string
}

func newTraceApplier(inner protocol.OperationApplier, nOps int) *traceApplier {
	return &traceApplier{inner: inner, budget: 2*nOps + 4, consumedR: map[string]bool{}, consumedU: map[string]bool{}}
}

func revealOf(req []byte) string {
	var m struct {
		RevealValue string `json:"revealValue"`
	}
	_ = json.Unmarshal(req, &m)
	return m.RevealValue
}

func (t *traceApplier) Apply(op *operation.AnchoredOperation, rm *protocol.ResolutionModel) (*protocol.ResolutionModel, error) {
	t.calls++
	if t.calls > t.budget {
		panic(budgetExceeded{t.calls, t.budget})
	}
	before := *rm
	res, err := t.inner.Apply(op, rm)
	if err != nil {
		t.events = append(t.events, fmt.Sprintf("%s@(%d,%d):err", op.Type, op.TransactionTime, op.TransactionNumber))
		return res, err
	}
	t.okCount++
	t.events = append(t.events, fmt.Sprintf("%s@(%d,%d):ok", op.Type, op.TransactionTime, op.TransactionNumber))
	bad := func(f string, a ...interface{}) { t.problems = append(t.problems, fmt.Sprintf(f, a...)) }
	if t.deact {
		bad("T4: %s applied after a successful deactivate", op.Type)
	}
	if op.Type == operation.TypeCreate {
		if t.created {
			bad("T1: second create applied")
		}
		t.created = true
		t.fullT, t.fullN = op.TransactionTime, op.TransactionNumber
		return res, err
	}
	if !t.created {
		bad("T1: %s applied before any create", op.Type)
	}
	c, cerr := ref.CommitmentFromReveal(revealOf(op.OperationRequest))
	if cerr != nil {
		bad("T2: applied op has undecodable reveal value")
		return res, err
	}
	switch op.Type {
	case operation.TypeUpdate:
		if c != before.UpdateCommitment {
			bad("T2: update applied whose reveal does not hash to the update commitment in force")
		}
		if t.consumedU[c] {
			bad("T3: update commitment consumed twice")
		}
		t.consumedU[c] = true
		if res.UpdateCommitment == c || t.consumedU[res.UpdateCommitment] {
			bad("T3: update applied whose next commitment was already consumed")
		}
		if op.CanonicalReference != "" && !(op.TransactionTime > t.fullT || (op.TransactionTime == t.fullT && op.TransactionNumber > t.fullN)) {
			bad("T5: update at (%d,%d) applied on top of the create/full operation at (%d,%d)", op.TransactionTime, op.TransactionNumber, t.fullT, t.fullN)
		}
	case operation.TypeRecover, operation.TypeDeactivate:
		if c != before.RecoveryCommitment {
			bad("T2: %s applied whose reveal does not hash to the recovery commitment in force", op.Type)
		}
		if t.consumedR[c] {
			bad("T3: recovery commitment consumed twice")
		}
		t.consumedR[c] = true
		if op.Type == operation.TypeRecover && (res.RecoveryCommitment == c || t.consumedR[res.RecoveryCommitment]) {
			bad("T3: recover applied whose next recovery commitment was already consumed")
		}
		t.fullT, t.fullN = op.TransactionTime, op.TransactionNumber
		if op.Type == operation.TypeDeactivate {
			t.deact = true
		}
	}
	return res, err
}

// tracedResolve resolves with a traced version; returns result, the trace applier and a budget-exceeded flag.
func tracedResolve(p protocol.Protocol, suffix string, ops []*ref.Op, order []int, split ...int) (rm *protocol.ResolutionModel, err error, ta *traceApplier, exceeded bool) {
	v := hx.NewVersion(p, hx.VersionOpts{ParserOpts: hx.StrictResolution()})
	ta = newTraceApplier(v.Applier, len(ops))
	v.Applier = ta
	pc := hx.NewClient(v)
	defer func() {
		if r := recover(); r != nil {
			if _, ok := r.(budgetExceeded); ok {
				exceeded = true
				return
			}
			panic(r)
		}
	}()
	if len(split) == len(ops) && len(ops) > 0 {
		rm, err = SUTResolveSplit(pc, suffix, ops, nil, split)
	} else {
		rm, err = SUTResolve(pc, suffix, ops, order)
	}
	return rm, err, ta, false
}

// tracedResolveUpgrade is tracedResolve with a second protocol version (same parameters) taking over at upgradeAt (0 = none);
// both versions share the trace applier.
func tracedResolveUpgrade(p protocol.Protocol, suffix string, ops []*ref.Op, upgradeAt uint64) (rm *protocol.ResolutionModel, err error, ta *traceApplier, exceeded bool) {
	if upgradeAt == 0 {
		return tracedResolve(p, suffix, ops, nil)
	}
	v0 := hx.NewVersion(p, hx.VersionOpts{ParserOpts: hx.StrictResolution()})
	p1 := p
	p1.GenesisTime = upgradeAt
	v1 := hx.NewVersion(p1, hx.VersionOpts{ParserOpts: hx.StrictResolution()})
	ta = newTraceApplier(v0.Applier, len(ops))
	v0.Applier, v1.Applier = ta, ta
	pc := hx.NewClient(v0, v1)
	defer func() {
		if r := recover(); r != nil {
			if _, ok := r.(budgetExceeded); ok {
				exceeded = true
				return
			}
			panic(r)
		}
	}()
	rm, err = SUTResolve(pc, suffix, ops, nil)
	return rm, err, ta, false
}
