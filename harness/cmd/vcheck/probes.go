package main

// State-leak probes for the crash-isolated workers: after every fourth call a worker repeats a fixed, cheap exchange with the
// library in the same process and compares the outcome with the one it saw first. A library that remembers something
// from an earlier call (a cache keyed too coarsely, a pooled buffer returned dirty, a shared slice) changes the outcome
// of the probe after some input; the worker then reports that input as the witness.

import (
	"encoding/json"
	"fmt"
	"sync"

	"github.com/trustbloc/sidetree-core-go/pkg/api/operation"
	"github.com/trustbloc/sidetree-core-go/pkg/api/txn"
	"github.com/trustbloc/sidetree-core-go/pkg/document"
	"github.com/trustbloc/sidetree-core-go/pkg/jws"
	"github.com/trustbloc/sidetree-core-go/pkg/patch"
	"github.com/trustbloc/sidetree-core-go/pkg/verifhooks"

	"verifharness/hx"
	"verifharness/ref"
)

// probed wraps a worker handler: handler first, then the probe; a probe outcome different from the first one observed in
// this process is reported in place of the handler's reply.
func probed(handler func([]byte) []byte, probe func() string) func([]byte) []byte {
	var once sync.Once
	first := ""
	n := 0
	return func(p []byte) []byte {
		once.Do(func() { first = probe() })
		reply := handler(p)
		n++
		if n%4 != 1 {
			return reply // probing after every fourth call keeps the cost low; what leaks stays leaked until the next probe
		}
		if now := probe(); now != first {
			return []byte(fmt.Sprintf("PANIC:state leaked between calls: after this input (or one of the three calls before it) a fixed probe exchange gives %q, before it gave %q", trunc600(now), trunc600(first)))
		}
		return reply
	}
}

func safely(f func() string) (out string) {
	defer func() {
		if r := recover(); r != nil {
			out = fmt.Sprintf("panic: %v", r)
		}
	}()
	return f()
}

// ---- fixtures (deterministic)

type probeFixture struct {
	create, update, selfCommit []byte
	jwsGood                    string
	jwkGood, jwkOther          *jws.JWK
	anchor                     string
	cas                        *hx.MemCAS
}

var (
	fixtureOnce sync.Once
	fixture     probeFixture
)

func getFixture() *probeFixture {
	fixtureOnce.Do(func() {
		r := hx.NewRng(20260925, "probe-fixture")
		d, cr, err := NewCDid(r.Split("did"), ref.SHA256, []string{"P-256"}, 300, false, []interface{}{patchAddKeys(genKeyEntry(r, "pk1")), patchAddServices(genService(r, "ps1"))}, nil, "probe-origin", "")
		if err != nil {
			panic(err)
		}
		d.Suffix = suffixOf(cr.Req, ref.SHA256)
		up, err := d.Update([]interface{}{patchAddServices(genService(r, "ps2"))}, 0, 0)
		if err != nil {
			panic(err)
		}
		fixture.create, fixture.update = cr.Req, up.Req
		u := &Universe{Code: ref.SHA256, Suffix: d.Suffix, Proto: hx.BaseProtocol(), MaxDelta: 300}
		k := ref.NewKey("Ed25519", "probe", []byte("probe-key-seed-probe-key-seed-00"))
		o := ref.NewKey("Ed25519", "probe-other", []byte("probe-key-seed-probe-key-seed-01"))
		fixture.selfCommit = u.MkSigned("self", "update", k, "", k.Commitment(ref.SHA256), []interface{}{patchAddServices(svcEntry("s", "t", "https://s.example"))}, SignedOpts{}).Request
		fixture.jwsGood = ref.CompactJWS(k, k.Header(""), []byte(`{"probe":true}`))
		kj, oj := jwkStrings(k), jwkStrings(o)
		fixture.jwkGood = &jws.JWK{Kty: kj["kty"], Crv: kj["crv"], X: kj["x"], Y: kj["y"]}
		fixture.jwkOther = &jws.JWK{Kty: oj["kty"], Crv: oj["crv"], X: oj["x"], Y: oj["y"]}
		// a small anchored batch (create + update of two DIDs)
		fixture.cas = hx.NewMemCAS()
		v := hx.NewVersion(c14Proto(), hx.VersionOpts{CAS: fixture.cas})
		d2, cr2, _ := NewCDid(r.Split("did2"), ref.SHA256, []string{"P-256"}, 300, false, []interface{}{patchAddKeys(genKeyEntry(r, "pk2"))}, nil, "probe-origin", "")
		d2.Suffix = suffixOf(cr2.Req, ref.SHA256)
		info, err := v.Handler.PrepareTxnFiles([]*operation.QueuedOperation{
			{Type: operation.TypeCreate, OperationRequest: cr2.Req, UniqueSuffix: d2.Suffix, Namespace: hx.Namespace},
			{Type: operation.TypeUpdate, OperationRequest: up.Req, UniqueSuffix: d.Suffix, Namespace: hx.Namespace},
		})
		if err != nil {
			panic(err)
		}
		fixture.anchor = info.AnchorString
	})
	return &fixture
}

func errTag(err error) string {
	if err == nil {
		return "ok"
	}
	return "err"
}

func parseProbe() string {
	return safely(func() string {
		f := getFixture()
		v := hx.NewVersion(hx.BaseProtocol(), hx.VersionOpts{})
		_, e1 := v.Parser.Parse(hx.Namespace, f.create)
		_, e2 := v.Parser.Parse(hx.Namespace, f.update)
		_, e3 := v.Parser.Parse(hx.Namespace, f.selfCommit)
		rv, e4 := v.Parser.GetRevealValue(f.update)
		cm, e5 := v.Parser.GetCommitment(f.update)
		return fmt.Sprint(errTag(e1), errTag(e2), errTag(e3), rv, errTag(e4), cm, errTag(e5))
	})
}

func jwsProbe() string {
	return safely(func() string {
		f := getFixture()
		_, e1 := verifhooks.VerifyJWS(f.jwsGood, f.jwkGood)
		_, e2 := verifhooks.VerifyJWS(f.jwsGood, f.jwkOther)
		_, e3 := verifhooks.VerifyJWS(f.jwsGood[:len(f.jwsGood)-2]+"AA", f.jwkGood)
		return fmt.Sprint(errTag(e1), errTag(e2), errTag(e3))
	})
}

func providerProbe() string {
	return safely(func() string {
		f := getFixture()
		v := hx.NewVersion(c14Proto(), hx.VersionOpts{CAS: f.cas})
		ops, err := v.Provider.GetTxnOperations(&txn.SidetreeTxn{AnchorString: f.anchor, Namespace: hx.Namespace, TransactionTime: 7, TransactionNumber: 1})
		out := errTag(err)
		for _, o := range ops {
			out += "|" + string(o.Type) + ":" + o.UniqueSuffix + ":" + ref.EncMultihash(ref.SHA256, o.OperationRequest)
		}
		return out
	})
}

func composeProbe() string {
	return safely(func() string {
		doc, _ := document.FromBytes([]byte(`{"publicKey":[{"id":"a","type":"JsonWebKey2020","publicKeyJwk":{"kty":"EC","crv":"P-256","x":"x","y":"y"}}],"service":[{"id":"s","type":"t","serviceEndpoint":"https://e.example"}],"m":{"k":[1,2]}}`))
		var ps []patch.Patch
		_ = json.Unmarshal([]byte(`[{"action":"ietf-json-patch","patches":[{"op":"copy","from":"/m","path":"/n"},{"op":"replace","path":"/n/k/0","value":9}]},{"action":"remove-services","ids":["s"]},{"action":"add-also-known-as","uris":["https://a.example"]}]`), &ps)
		v := hx.NewVersion(hx.BaseProtocol(), hx.VersionOpts{})
		res, err := v.Composer.ApplyPatches(doc, ps)
		b, _ := json.Marshal(res)
		_, err2 := v.Composer.ApplyPatches(doc, append(append([]patch.Patch{}, ps...), ps[1]))
		return errTag(err) + string(b) + errTag(err2)
	})
}
