package main

import (
	"fmt"
	"strings"

	"github.com/trustbloc/sidetree-core-go/pkg/api/operation"
	"github.com/trustbloc/sidetree-core-go/pkg/api/protocol"
	"github.com/trustbloc/sidetree-core-go/pkg/versions/1_0/operationparser"

	"verifharness/hx"
	"verifharness/ref"
)

func init() { register("C12", "exploration", checkC12) }

func checkC12(c *hx.Ctx) {
	c.Rule("(a) intake: update and recover requests for every pairing of revealed key K_i and next commitment c_h(K_j) (4 keys x 4 keys x reveal hash {sha2-256, sha2-512} x commitment hash {sha2-256, sha2-512} x protocols allowing [256], [512], [256,512], [512,256]) and creates/recovers with equal/unequal update and recovery commitments - exhaustive; keys carrying nonces: the same key material seen under one nonce, then revealed and re-committed under another nonce in the same process; accepted iff the next commitment is not a commitment of the revealed key (under any enabled algorithm) and update != recovery commitment; every decision is asked for again from the same parser (a second submission, and after the parser has served the resolution-side entry points for the same bytes) and must not change; every request intake must refuse is also handed to the batch writer's REAL operation handler (the last gate before anchoring), which must not write batch files for it; the same requests with an anchoring window that has not opened yet (parser with a server-time validator) stay refused; (b) resolution: commitment cycles of length 1-5 (every rotation, every anchoring order of up to 5 operations, for the update and the recovery chain) (also with a legitimate later competitor of the cycle-closing operation, with a protocol upgrade in the middle of the chain, and recovery cycles built from / closed by recovers that carry no delta, and rings whose last operation commits to another base64url spelling of the first, consumed commitment - a dead end, not a way back) under the online trace checker T3 (no commitment consumed twice, no successor already consumed) with step budget, compared with the reference model; cycles resolved on ONE processor that serves other resolutions at the same time (nested before every operation application, and from goroutines); non-trivial = pairing i==j or a history containing a full cycle")
	c.Set("exhaustive", true)
	rng := c.Rng("keys")
	typeSets := [][]string{{"P-256", "Ed25519", "secp256k1", "P-384"}}
	if c.Thorough() {
		typeSets = append(typeSets, []string{"P-521", "P-256", "Ed25519", "secp256k1"}, []string{"Ed25519", "Ed25519", "P-384", "P-521"})
	}
	algSets := [][]uint{{ref.SHA256}, {ref.SHA512}, {ref.SHA256, ref.SHA512}, {ref.SHA512, ref.SHA256}}
	for _, ts := range typeSets {
		var keys []*ref.Key
		for i, t := range ts {
			keys = append(keys, ref.NewKey(t, fmt.Sprintf("K%d", i+1), rng.Bytes(32)))
		}
		type job struct {
			algs           []uint
			op             string
			i, j           int
			hReveal, hNext uint64
		}
		var jobs []job
		for _, algs := range algSets {
			for _, op := range []string{"update", "recover"} {
				for i := range keys {
					for j := range keys {
						for _, hr := range algs {
							for _, hn := range algs {
								jobs = append(jobs, job{algs, op, i, j, uint64(hr), uint64(hn)})
							}
						}
					}
				}
			}
		}
		hx.Parallel(len(jobs), 16, func(n int) {
			j := jobs[n]
			p := hx.BaseProtocol()
			p.MultihashAlgorithms = j.algs
			v := hx.NewVersion(p, hx.VersionOpts{})
			u := &Universe{Code: j.hReveal, Suffix: "EiDsuffixsuffixsuffixsuffixsuffixsuffixsuffixsu", Proto: p, MaxDelta: 300}
			k2 := []interface{}{patchAddServices(svcEntry("s", "t", "https://s.example"))}
			other := keys[(j.i+1)%len(keys)]
			var op *ref.Op
			next := keys[j.j].Commitment(j.hNext)
			if j.op == "update" {
				op = u.MkSigned("upd", "update", keys[j.i], "", next, k2, SignedOpts{})
			} else {
				// update commitment of the recover: some other key, never equal to the next recovery commitment
				uc := other.Commitment(j.hNext)
				if uc == next {
					uc = keys[(j.i+2)%len(keys)].Commitment(j.hNext)
				}
				op = u.MkSigned("rec", "recover", keys[j.i], next, uc, k2, SignedOpts{})
			}
			c.Eval()
			_, err := v.Parser.Parse(hx.Namespace, op.Request)
			if why := intakeDecisionChanges(v, op.Request, err); why != "" {
				c.Violation("C12 "+why+": "+fmt.Sprintf("%s reveals %s next commitment = c_%#x(%s) protocol algs %v", j.op, keys[j.i].Name, j.hNext, keys[j.j].Name, j.algs), map[string]interface{}{"request": string(op.Request), "protocol": p})
				return
			}
			mustReject := j.i == j.j
			desc := fmt.Sprintf("%s reveals %s(%s, reveal hash %#x) next commitment = c_%#x(%s) protocol algs %v", j.op, keys[j.i].Name, keys[j.i].Type, j.hReveal, j.hNext, keys[j.j].Name, j.algs)
			if mustReject && err == nil {
				c.Violation("C12 intake accepted a request that re-commits to the key it reveals: "+desc, map[string]interface{}{"request": string(op.Request), "protocol": p})
				return
			}
			if !mustReject && err != nil {
				c.Violation("C12 intake rejected a request whose next commitment belongs to a different key: "+desc+": "+err.Error(), map[string]interface{}{"request": string(op.Request), "protocol": p})
				return
			}
			if mustReject {
				// the last gate before anchoring: the batch writer's operation handler refuses to write batch files for it
				// the same request declaring an anchoring window that has not opened yet, judged by a parser with a server-time
				// validator: refused whatever the reason given
				vEarly := hx.NewVersion(p, hx.VersionOpts{ParserOpts: []operationparser.Option{operationparser.WithAnchorTimeValidator(&virtualClock{now: 100})}})
				var early *ref.Op
				if j.op == "update" {
					early = u.MkSigned("upd-early", "update", keys[j.i], "", next, k2, SignedOpts{From: 1000})
				} else {
					early = u.MkSigned("rec-early", "recover", keys[j.i], next, other.Commitment(j.hNext), k2, SignedOpts{From: 1000})
				}
				if _, eerr := vEarly.Parser.Parse(hx.Namespace, early.Request); eerr == nil {
					c.Violation("C12 intake accepted a request that re-commits to the key it reveals when its anchoring window has not opened yet: "+desc, map[string]interface{}{"request": string(early.Request), "protocol": p})
					return
				}
				c.Count("self_commit_with_window_not_yet_open_rejected")
				if !writerGateRefuses(p, j.op, u.Suffix, op.Request) {
					c.Violation("C12 the batch writer's operation handler wrote batch files for a request that re-commits to the key it reveals: "+desc, map[string]interface{}{"request": string(op.Request), "protocol": p})
					return
				}
				c.Count("self_commit_refused_by_writer_gate")
				c.Count("self_commit_rejected:" + j.op)
				c.Distinct(desc)
			} else {
				c.Count("other_commit_accepted:" + j.op)
			}
			if n == 1 {
				c.Sample(3, map[string]interface{}{"pairing": desc, "rejected": err != nil})
			}
		})
		// create / recover with equal update and recovery commitments
		for _, algs := range algSets {
			for i := range keys {
				for j := range keys {
					p := hx.BaseProtocol()
					p.MultihashAlgorithms = algs
					code := uint64(algs[0])
					v := hx.NewVersion(p, hx.VersionOpts{})
					k2 := []interface{}{patchAddServices(svcEntry("s", "t", "https://s.example"))}
					cs := &ref.CreateSpec{Code: code, RecoveryCommitment: keys[i].Commitment(code), Delta: ref.Delta(keys[j].Commitment(code), k2)}
					c.Eval()
					_, err := v.Parser.Parse(hx.Namespace, ref.MustJCS(cs.Request()))
					if why := intakeDecisionChanges(v, ref.MustJCS(cs.Request()), err); why != "" {
						c.Violation(fmt.Sprintf("C12 %s: create with recovery commitment c(%s) and update commitment c(%s)", why, keys[i].Name, keys[j].Name), map[string]interface{}{"request": string(ref.MustJCS(cs.Request())), "protocol": p})
					}
					if (i == j) != (err != nil) {
						c.Violation(fmt.Sprintf("C12 create with recovery commitment c(%s) and update commitment c(%s): accepted=%v", keys[i].Name, keys[j].Name, err == nil),
							map[string]interface{}{"request": string(ref.MustJCS(cs.Request())), "protocol": p, "error": fmt.Sprint(err)})
					}
					// recover by a third key with next recovery = c(Ki), update = c(Kj)
					signer := ref.NewKey("P-256", "S", []byte(fmt.Sprint("signer", i, j)))
					u := &Universe{Code: code, Suffix: cs.Suffix(), Proto: p, MaxDelta: 300}
					rec := u.MkSigned("rec", "recover", signer, keys[i].Commitment(code), keys[j].Commitment(code), k2, SignedOpts{})
					c.Eval()
					_, err = v.Parser.Parse(hx.Namespace, rec.Request)
					if why := intakeDecisionChanges(v, rec.Request, err); why != "" {
						c.Violation(fmt.Sprintf("C12 %s: recover with next recovery commitment c(%s) and update commitment c(%s)", why, keys[i].Name, keys[j].Name), map[string]interface{}{"request": string(rec.Request), "protocol": p})
					}
					if (i == j) != (err != nil) {
						c.Violation(fmt.Sprintf("C12 recover with next recovery commitment c(%s) and update commitment c(%s): accepted=%v", keys[i].Name, keys[j].Name, err == nil),
							map[string]interface{}{"request": string(rec.Request), "protocol": p, "error": fmt.Sprint(err)})
					}
					if i == j {
						if !writerGateRefuses(p, "create", cs.Suffix(), ref.MustJCS(cs.Request())) || !writerGateRefuses(p, "recover", cs.Suffix(), rec.Request) {
							c.Violation(fmt.Sprintf("C12 the batch writer's operation handler wrote batch files for a create / recover whose update and recovery commitments are both c(%s)", keys[i].Name),
								map[string]interface{}{"create": string(ref.MustJCS(cs.Request())), "recover": string(rec.Request), "protocol": p})
						}
						c.Count("equal_commitments_rejected")
						c.Distinct(fmt.Sprintf("equal|%v|%s|%s", algs, keys[i].Name, keys[i].Type))
					}
				}
			}
		}
	}
	// ---- (a2) keys with nonces (NonceSize 16): the commitment covers the nonce. In ONE process a valid request revealing
	// (K, nonce1) is parsed first, then a request revealing (K, nonce2) that re-commits to (K, nonce2): nothing computed
	// for the first may stand in for the second
	{
		nr := c.Rng("nonces")
		for _, kt := range ref.KeyTypes {
			for rep := 0; rep < c.N(2, 10); rep++ {
				p := hx.BaseProtocol()
				p.NonceSize = 16
				v := hx.NewVersion(p, hx.VersionOpts{})
				code := uint64(ref.SHA256)
				seed := nr.Bytes(32)
				k1, k2, other := ref.NewKey(kt, "K", seed), ref.NewKey(kt, "K", seed), ref.NewKey(kt, "O", nr.Bytes(32))
				k1.Nonce, k2.Nonce, other.Nonce = ref.B64(nr.Bytes(16)), ref.B64(nr.Bytes(16)), ref.B64(nr.Bytes(16))
				u := &Universe{Code: code, Suffix: "EiDsuffixsuffixsuffixsuffixsuffixsuffixsuffixsu", Proto: p, MaxDelta: 300}
				k2p := []interface{}{patchAddServices(svcEntry("s", "t", "https://s.example"))}
				for _, opk := range []string{"update", "recover"} {
					mk := func(reveal *ref.Key, next string) *ref.Op {
						if opk == "update" {
							return u.MkSigned("upd", "update", reveal, "", next, k2p, SignedOpts{})
						}
						return u.MkSigned("rec", "recover", reveal, next, other.Commitment(code), k2p, SignedOpts{})
					}
					first := mk(k1, ref.NewKey(kt, "N", nr.Bytes(32)).Commitment(code))
					self2 := mk(k2, k2.Commitment(code))
					self1 := mk(k1, k1.Commitment(code))
					c.Eval()
					_, e1 := v.Parser.Parse(hx.Namespace, first.Request)
					_, e2 := v.Parser.Parse(hx.Namespace, self2.Request)
					_, e3 := v.Parser.Parse(hx.Namespace, self1.Request)
					desc := fmt.Sprintf("%s, key type %s, same key material under two nonces", opk, kt)
					if e1 != nil {
						c.Violation("C12 intake rejected a valid request revealing a key with nonce: "+desc+": "+e1.Error(), map[string]interface{}{"request": string(first.Request), "protocol": p})
						return
					}
					if e2 == nil || e3 == nil {
						c.Violation(fmt.Sprintf("C12 intake accepted a request that re-commits to the key (with nonce) it reveals, after the same key material had been seen under another nonce: %s (second nonce accepted=%v, first nonce accepted=%v)", desc, e2 == nil, e3 == nil),
							map[string]interface{}{"first_request": string(first.Request), "self_committing_request": string(self2.Request), "protocol": p})
						return
					}
					c.Count("self_commit_with_nonce_rejected:" + opk)
					c.Distinct("nonce|" + desc + fmt.Sprint(rep))
				}
			}
		}
	}
	// ---- (a3) a revealed key whose coordinate is written in another base64url spelling of the same bytes: "the key it reveals"
	// is the JWK as written (that is what reveal value and commitment are computed over), so re-committing to it is refused
	{
		ar := c.Rng("spelling")
		for _, kt := range []string{"Ed25519", "P-256", "secp256k1"} {
			for rep := 0; rep < c.N(2, 8); rep++ {
				p := hx.BaseProtocol()
				v := hx.NewVersion(p, hx.VersionOpts{})
				code := uint64(ref.SHA256)
				k := ref.NewKey(kt, "K", ar.Bytes(32))
				x, _ := k.JWK()["x"].(string)
				alt := ref.AltSpelling(x)
				if alt == "" || alt == x {
					continue
				}
				ka := *k
				ka.XSpelling = alt
				other := ref.NewKey(kt, "O", ar.Bytes(32))
				u := &Universe{Code: code, Suffix: "EiDsuffixsuffixsuffixsuffixsuffixsuffixsuffixsu", Proto: p, MaxDelta: 300}
				k2p := []interface{}{patchAddServices(svcEntry("s", "t", "https://s.example"))}
				for _, opk := range []string{"update", "recover"} {
					var self, fine *ref.Op
					if opk == "update" {
						self = u.MkSigned("upd", "update", &ka, "", ka.Commitment(code), k2p, SignedOpts{})
						fine = u.MkSigned("upd", "update", &ka, "", other.Commitment(code), k2p, SignedOpts{})
					} else {
						self = u.MkSigned("rec", "recover", &ka, ka.Commitment(code), other.Commitment(code), k2p, SignedOpts{})
						fine = u.MkSigned("rec", "recover", &ka, other.Commitment(code), k.Commitment(code), k2p, SignedOpts{})
					}
					c.Eval()
					_, eFine := v.Parser.Parse(hx.Namespace, fine.Request)
					_, eSelf := v.Parser.Parse(hx.Namespace, self.Request)
					if eFine != nil {
						c.Count("alternative_spelling_refused_altogether:" + opk)
						continue // the library refuses such a key as such: nothing to show
					}
					if eSelf == nil {
						c.Violation(fmt.Sprintf("C12 intake accepted a %s that re-commits to the key it reveals (key type %s, x coordinate written as %q instead of %q)", opk, kt, alt, x),
							map[string]interface{}{"request": string(self.Request), "protocol": p})
						return
					}
					c.Count("self_commit_with_alternative_spelling_rejected:" + opk)
					c.Distinct(fmt.Sprintf("spelling|%s|%s|%d", opk, kt, rep))
				}
			}
		}
	}
	// ---- (b) cycles in resolution
	p := hx.BaseProtocol()
	perms := map[int][][]int{}
	for n := 1; n <= 5; n++ {
		perms[n] = permutations(n)
	}
	type cyc struct {
		u      *Universe
		prefix []*ref.Op // legitimate operations before the cycle (in chain order)
		ops    []*ref.Op // cycle ops in chain order (last closes the cycle)
		k      int
		kind   string
		alt    *ref.Op   // a legitimate competitor of the operation that closes the cycle (same revealed key, fresh successor)
		opsND  []*ref.Op // recovery chains: the same cycle built from recovers that carry no delta (legal once anchored)
		alias  []*ref.Op // k>=2: the same ring, but the last operation commits to ANOTHER base64url spelling of the first key's commitment
	}
	var cycles []cyc
	cr := c.Rng("cycles")
	for rep := 0; rep < c.N(1, 3); rep++ {
		types := []string{"Ed25519", "P-256"}
		if rep > 0 {
			types = ref.KeyTypes
		}
		for _, kind := range []string{"update", "recover"} {
			for pre := 0; pre <= 2; pre++ {
				for k := 1; k <= 5; k++ {
					if pre > 0 && k > 3 {
						continue
					}
					u := NewUniverse(cr.Split(fmt.Sprint(rep, kind, k, pre)), ref.SHA256, p, types)
					u.Ops["C"] = u.MkCreate("C", ref.DeltaOK)
					start := u.U[0]
					if kind == "recover" {
						start = u.R[0]
					}
					newKey := func(n string) *ref.Key { return ref.NewKey(hx.Pick(cr, types), n, cr.Bytes(32)) }
					mk := func(lbl string, from, to *ref.Key, i int) *ref.Op {
						patches := []interface{}{patchAddServices(svcEntry(fmt.Sprintf("c%s%d", lbl[:1], i), "cyc", fmt.Sprintf("https://cycle.example/%d", i)))}
						if kind == "update" {
							return u.MkSigned(lbl, "update", from, "", to.Commitment(u.Code), patches, SignedOpts{})
						}
						return u.MkSigned(lbl, "recover", from, to.Commitment(u.Code), newKey("uk").Commitment(u.Code), patches, SignedOpts{})
					}
					// legitimate prefix: start -> p1 -> p2 ...
					var prefix []*ref.Op
					cur := start
					for i := 0; i < pre; i++ {
						nk := newKey(fmt.Sprintf("pre%d", i))
						prefix = append(prefix, mk(fmt.Sprintf("pre:%d", i), cur, nk, 100+i))
						cur = nk
					}
					// ring of k keys starting at the key in force after the prefix
					ring := []*ref.Key{cur}
					for i := 1; i < k; i++ {
						ring = append(ring, newKey(fmt.Sprintf("ring%d", i)))
					}
					var ops []*ref.Op
					for i := 0; i < k; i++ {
						ops = append(ops, mk(fmt.Sprintf("%s:%d->%d", kind[:3], i, (i+1)%k), ring[i], ring[(i+1)%k], i))
					}
					// a cycle may also close on a key of the prefix (a middle commitment of the chain)
					if pre > 0 && kind == "update" {
						ops = append(ops, u.MkSigned("upd:back-to-start", "update", ring[k-1], "", start.Commitment(u.Code), nil, SignedOpts{DeltaStatus: ref.DeltaFails}))
					}
					alt := mk(kind[:3]+":alt-to-fresh", ring[k-1], newKey("fresh"), 77)
					var opsND []*ref.Op
					if kind == "recover" {
						for i := 0; i < k; i++ {
							opsND = append(opsND, u.MkSigned(fmt.Sprintf("rec-no-delta:%d->%d", i, (i+1)%k), "recover", ring[i], ring[(i+1)%k].Commitment(u.Code), newKey("uk").Commitment(u.Code), nil, SignedOpts{OmitDelta: true}))
						}
					}
					// seeded C12-19: a next commitment that is a non-canonical base64url spelling (unused low bits of the last character
					// set) of an already consumed commitment. Commitments are compared as written, so this is a dead end, not a way back:
					// the operation applies and nothing can follow it - in particular not a second use of the first key.
					var alias []*ref.Op
					if k >= 2 {
						alias = append(alias, ops[:k-1]...)
						back := ref.AltSpelling(ring[0].Commitment(u.Code))
						if back != "" && back != ring[0].Commitment(u.Code) {
							patches := []interface{}{patchAddServices(svcEntry("calias", "cyc", "https://cycle.example/alias"))}
							if kind == "update" {
								alias = append(alias, u.MkSigned("upd:alias-of-first", "update", ring[k-1], "", back, patches, SignedOpts{}))
							} else {
								alias = append(alias, u.MkSigned("rec:alias-of-first", "recover", ring[k-1], back, newKey("uk").Commitment(u.Code), patches, SignedOpts{}))
							}
						} else {
							alias = nil
						}
					}
					cycles = append(cycles, cyc{u, prefix, ops, k, kind, alt, opsND, alias})
				}
			}
		}
	}
	for _, cy := range cycles {
		cy := cy
		orders := perms[len(cy.ops)]
		if len(cy.ops) > 5 {
			orders = perms[5]
		}
		hx.Parallel(len(orders), 16, func(oi int) {
			ord := orders[oi]
			// variants: 0 plain; 1 every op replayed later; 2/3 the last one / two operations of the anchoring order are unpublished
			// 8: the ring closed through another spelling of the first commitment, every operation replayed later
			for variant := 0; variant < 9; variant++ {
				if c.Violations() > 8 {
					return
				}
				if (variant == 6 || variant == 7) && cy.kind != "recover" {
					continue
				}
				if (variant == 2 || variant == 3) && cy.kind == "recover" {
					continue // unpublished full operations followed by published updates are outside the statements (Appendix B)
				}
				src := cy.ops
				if variant == 8 {
					if cy.alias == nil {
						continue
					}
					src = cy.alias
				}
				H := []*ref.Op{Place(cy.u.Ops["C"], 1000, 9, "refC", p.GenesisTime)}
				for i, o := range cy.prefix {
					H = append(H, Place(o, uint64(1002+2*i), 1, fmt.Sprintf("pre%d", i), p.GenesisTime))
				}
				for pos, idx := range ord {
					if idx >= len(src) {
						continue
					}
					refID := fmt.Sprintf("ref%d", pos)
					t := uint64(1010 + 10*pos)
					if (variant == 2 || variant == 3) && pos >= len(ord)-(variant-1) {
						refID, t = "", uint64(5000+pos) // unpublished
					}
					o := src[idx]
					// 6: every recover of the cycle carries no delta; 7: only the one that closes the cycle
					if variant == 6 || (variant == 7 && idx == cy.k-1) {
						o = cy.opsND[idx]
					}
					H = append(H, Place(o, t, uint64(len(ord)-pos), refID, p.GenesisTime))
				}
				if variant == 4 {
					// a legitimate competitor of the cycle-closing operation, anchored after it: it wins, the closing one never applies
					H = append(H, Place(cy.alt, 1300, 0, "refAlt", p.GenesisTime))
				}
				upgradeAt := uint64(0)
				if variant == 5 {
					// a protocol upgrade (same parameters) in the middle of the chain: what was consumed before it stays consumed
					upgradeAt = 1015
					for _, o := range H {
						if o.Time >= upgradeAt && o.Published() {
							o.Version = upgradeAt
						}
					}
				}
				if variant == 1 || variant == 8 {
					for pos, idx := range ord {
						if idx < len(src) {
							H = append(H, Place(src[idx], uint64(1100+10*pos), uint64(pos), fmt.Sprintf("rep%d", pos), p.GenesisTime))
						}
					}
				}
				c.Eval()
				st, merr := ref.Resolve(H, ref.ResolveOpts{})
				rm, err, ta, exceeded := tracedResolveUpgrade(p, cy.u.Suffix, H, upgradeAt)
				replay := map[string]interface{}{"suffix": cy.u.Suffix, "history": replayOps(H), "cycle_length": cy.k, "chain": cy.kind, "prefix": len(cy.prefix), "variant": variant}
				if exceeded {
					c.Violation("C12 step budget exceeded on a cyclic history (commitment revisited / non-termination): "+histString(H), replay)
					return
				}
				if len(ta.problems) > 0 {
					replay["trace"] = ta.events
					c.Violation("C12 trace specification violated on a cyclic history: "+strings.Join(ta.problems, "; ")+": "+histString(H), replay)
					return
				}
				if want, got := stKey(st, merr), rmKey(rm, err); want != got {
					replay["model"], replay["library"] = want, got
					c.Violation(fmt.Sprintf("C12 cyclic history resolves differently from the reference model: [%s]\n   model:   %s\n   library: %s", histString(H), want, got), replay)
					return
				}
				// the op closing the cycle must never be applied: at most k-1 of the cycle ops (k=1: none) on top of the prefix
				allowed := cy.k - 1
				if variant == 4 || variant == 8 {
					allowed++ // the legitimate competitor / the operation that commits to a dead end
				}
				if merr == nil && len(st.Applied)-1-len(cy.prefix) > allowed {
					c.Violation("C12 reference model applied a full cycle (model defect)", replay)
					return
				}
				c.Count(fmt.Sprintf("cycle_len_%d_%s", cy.k, cy.kind))
				if len(cy.prefix) > 0 {
					c.Count("cycles_after_a_legitimate_prefix")
				}
				if variant == 2 || variant == 3 {
					c.Count("cycles_closed_by_unpublished_operations")
				}
				if variant == 4 {
					c.Count("cycles_with_a_legitimate_competitor_of_the_closing_operation")
				}
				if variant == 5 {
					c.Count("cycles_spanning_a_protocol_upgrade")
				}
				if variant == 8 {
					c.Count("rings_closed_through_another_spelling_of_a_consumed_commitment")
				}
				if variant == 6 || variant == 7 {
					c.Count("recovery_cycles_closed_by_recovers_without_delta")
				}
				c.CountN("applied_cycle_ops", len(st.Applied)-1)
				c.Distinct(histString(H))
			}
		})
		c.Sample(6, map[string]interface{}{"cycle": labelsOf(cy.ops), "prefix": labelsOf(cy.prefix), "length": cy.k, "orders": len(orders)})
	}
	c12SharedProcessor(c)
	c.Floor("cycles_resolved_with_nested_resolutions_on_the_same_processor", 30)
	c.Floor("cycles_after_a_legitimate_prefix", 50)
	c.Floor("cycles_closed_by_unpublished_operations", 50)
	c.Floor("cycles_with_a_legitimate_competitor_of_the_closing_operation", 50)
	c.Floor("cycles_spanning_a_protocol_upgrade", 50)
	c.Floor("rings_closed_through_another_spelling_of_a_consumed_commitment", 50)
	c.Floor("self_commit_refused_by_writer_gate", 30)
	c.Floor("recovery_cycles_closed_by_recovers_without_delta", 50)
	c.Floor("self_commit_rejected:update", 16)
	c.Floor("self_commit_with_nonce_rejected:update", 5)
	c.Floor("self_commit_with_alternative_spelling_rejected:update", 3)
	c.Floor("self_commit_with_nonce_rejected:recover", 5)
	c.Floor("self_commit_rejected:recover", 16)
	c.Floor("other_commit_accepted:update", 16)
	c.Floor("equal_commitments_rejected", 4)
	c.Floor("cycle_len_2_update", 2)
	c.Floor("cycle_len_5_recover", 100)
}

// writerGateRefuses hands one queued request to the real operation handler (what the batch writer does when it cuts a batch)
// and reports whether the handler refused to produce batch files for it.
func writerGateRefuses(p protocol.Protocol, typ, suffix string, req []byte) bool {
	v := hx.NewVersion(p, hx.VersionOpts{CAS: hx.NewMemCAS()})
	info, err := v.Handler.PrepareTxnFiles([]*operation.QueuedOperation{{Type: operation.Type(typ), OperationRequest: req, UniqueSuffix: suffix, Namespace: hx.Namespace}})
	return err != nil || info == nil || info.AnchorString == ""
}

// intakeDecisionChanges asks the same parser again - once more as it is, and after it has served the resolution-side entry points
// (reveal value, commitment, batch-mode parsing) for the same bytes - and reports if intake decides differently than the first time.
func intakeDecisionChanges(v *hx.Version, req []byte, first error) string {
	if _, again := v.Parser.Parse(hx.Namespace, req); (again == nil) != (first == nil) {
		return fmt.Sprintf("intake decided differently when the same request was submitted a second time (first: accepted=%v, second: accepted=%v)", first == nil, again == nil)
	}
	_, _ = v.Parser.GetRevealValue(req)
	_, _ = v.Parser.GetCommitment(req)
	_, _ = v.Parser.ParseOperation(hx.Namespace, req, true)
	if _, after := v.Parser.Parse(hx.Namespace, req); (after == nil) != (first == nil) {
		return fmt.Sprintf("intake decided differently after the same parser had served reveal value / commitment / batch-mode parsing for the request (before: accepted=%v, after: accepted=%v)", first == nil, after == nil)
	}
	return ""
}
