package main

import (
	"fmt"
	"strings"

	"verifharness/hx"
	"verifharness/ref"
)

func init() { register("C03", "exploration", checkC03) }

// histCase is one concrete history (ops with coordinates) plus a store order.
type histCase struct {
	ops   []*ref.Op
	order []int
}

// placeSeq anchors labels in sequence: time strictly increasing with index, numbers adversarial (decreasing).
func placeSeq(u *Universe, labels []string, numMode int) []*ref.Op {
	ops := make([]*ref.Op, len(labels))
	n := len(labels)
	for i, l := range labels {
		var num uint64
		switch numMode {
		case 0:
			num = uint64(n - i) // number order opposite to time order
		case 1:
			num = uint64(i)
		default:
			num = uint64((i*7 + 3) % (n + 5))
		}
		ops[i] = Place(u.Ops[l], uint64(1000+10*i), num, fmt.Sprintf("ref%d", i), u.Proto.GenesisTime)
	}
	return ops
}

func compareWithModel(c *hx.Ctx, u *Universe, ops []*ref.Op, order []int, tag string, split ...int) {
	c.Eval()
	st, merr := ref.Resolve(ops, ref.ResolveOpts{})
	rm, err, ta, exceeded := tracedResolve(u.Proto, u.Suffix, ops, order, split...)
	hs := histString(ops)
	replay := map[string]interface{}{"suffix": u.Suffix, "history": replayOps(ops), "store_order": order, "tag": tag, "additional_operations_split": split}
	if exceeded {
		c.Violation("C03 step budget exceeded (non-termination / commitment revisited): "+hs, replay)
		return
	}
	want, got := stKey(st, merr), rmKey(rm, err)
	if want != got {
		replay["model"], replay["library"] = want, got
		if ta != nil {
			replay["apply_trace"] = ta.events
		}
		c.Violation(fmt.Sprintf("C03 resolved state differs from reference state machine: history [%s]\n   model:   %s\n   library: %s", hs, want, got), replay)
		return
	}
	if ta != nil && len(ta.problems) > 0 {
		replay["apply_trace"] = ta.events
		c.Violation(fmt.Sprintf("C03 trace specification violated: %s: history [%s]", strings.Join(ta.problems, "; "), hs), replay)
		return
	}
	if ta != nil {
		c.CountN("apply_calls", ta.calls)
		c.CountN("apply_ok", ta.okCount)
	}
	if merr == nil {
		applied := map[string]bool{}
		for _, l := range st.Applied {
			applied[l] = true
			c.Count("applied:" + l)
		}
		for _, o := range ops {
			if !applied[o.Label] {
				c.Count("ignored:" + o.Label)
			}
		}
		if len(st.Applied) >= 2 {
			c.Distinct(hs)
		}
		c.Set("last_state_example", want)
	} else {
		c.Count("model_error_histories")
	}
}

func checkC03(c *hx.Ctx) {
	c.Rule("history = create followed by every sequence (with repetition) of the 53-label operation alphabet (valid, forked, failing-delta incl. patches the JSON patch library panics on, out-of-window, bad-signature, wrong key kind, replayed, cyclic) up to the tier's length, anchored at increasing times with adversarial transaction numbers, plus two-DID histories of client-built operations anchored round by round through the real batch files, plus random long histories (half of them also with a random part of the operations supplied through WithAdditionalOperations); a history is non-trivial when the reference model applies at least two operations; distinct = distinct (history,coordinates) strings")
	c.Assume("the reference state machine in harness/ref/sidetree.go encodes the property statements C01-C06/C12", "Go crypto and btcec are trusted")
	rng := c.Rng("universe")
	p := hx.BaseProtocol()
	// ---- state must not leak from one DID to another: run first, in one goroutine, before anything else has touched the
	// process. DID A gets an update on top of an empty document (after a recover / create whose delta fails to apply); DIDs B,
	// C, D are then resolved to states whose document is empty (deactivated, failed recover, mismatching create).
	{
		lr := rng.Split("leak")
		for round := 0; round < 3; round++ {
			var us []*Universe
			for k := 0; k < 4; k++ {
				u := NewUniverse(lr.Split(fmt.Sprint(round, k)), ref.SHA256, p, []string{"P-256", "Ed25519"})
				u.BuildAlphabet(1015, 1025)
				us = append(us, u)
			}
			first := [][]string{{"C", "rF", "u10"}, {"C", "rF", "u12Rep"}, {"C", "rJP", "u10"}}[round]
			compareWithModel(c, us[0], placeSeq(us[0], first, 1), nil, "leak-writer")
			for k, seq := range [][]string{{"C", "d0"}, {"C", "rF"}, {"Cdup"}} {
				compareWithModel(c, us[k+1], placeSeq(us[k+1], seq, 1), nil, "leak-reader")
			}
			compareWithModel(c, us[0], placeSeq(us[0], []string{"C", "d0"}, 1), nil, "leak-reader")
			c.Count("state_leak_probes")
		}
		if c.Violations() > 0 {
			return
		}
	}
	nUni := c.N(2, 4)
	maxLen := c.N(2, 3)
	_ = maxLen
	for ui := 0; ui < nUni; ui++ {
		types := ref.KeyTypes
		if ui == 0 {
			types = []string{"P-256", "Ed25519"}
		}
		u := NewUniverse(rng.Split(fmt.Sprint("u", ui)), ref.SHA256, p, types)
		u.BuildAlphabet(1015, 1025)
		var labels []string
		for _, l := range u.Labels {
			if l != "C" {
				labels = append(labels, l)
			}
		}
		// enumerate sequences
		var cases [][]string
		var rec func(prefix []string, depth int)
		rec = func(prefix []string, depth int) {
			cases = append(cases, append([]string{}, prefix...))
			if depth == 0 {
				return
			}
			for _, l := range labels {
				rec(append(prefix, l), depth-1)
			}
		}
		ml := maxLen
		if ui == 0 {
			ml = maxLen + 1
		}
		rec([]string{"C"}, ml)
		rec([]string{"Cdup", "C"}, ml-1)
		if c.Thorough() && ui == 0 {
			// a PRNG-chosen slice of length 4
			r4 := rng.Split("len4")
			for i := 0; i < 200000; i++ {
				seq := []string{"C"}
				for k := 0; k < 4; k++ {
					seq = append(seq, hx.Pick(r4, labels))
				}
				cases = append(cases, seq)
			}
		}
		c.CountN("exhaustive_sequences", len(cases))
		hx.Parallel(len(cases), 16, func(i int) {
			ops := placeSeq(u, cases[i], (i+ui)%3)
			// store order: reversed or rotated (the processor must sort)
			order := make([]int, len(ops))
			for k := range order {
				order[k] = (len(ops) - 1 - k + i) % len(ops)
			}
			compareWithModel(c, u, ops, order, "exhaustive")
		})
		if len(cases) > 0 {
			c.Sample(3, map[string]interface{}{"history": histString(placeSeq(u, cases[len(cases)/2], 0)), "key_types": keyTypesOf(u)})
		}
		// random long histories with random times (crossing window and default-delta boundaries)
		nRand := c.N(300, 6000)
		rr := rng.Split(fmt.Sprint("rand", ui))
		seeds := make([]uint64, nRand)
		for i := range seeds {
			seeds[i] = rr.U64()
		}
		hx.Parallel(nRand, 16, func(i int) {
			r := hx.NewRng(seeds[i], "h")
			n := 8 + r.Intn(40)
			ops := []*ref.Op{}
			used := map[[2]uint64]bool{}
			for k := 0; k < n; k++ {
				l := hx.Pick(r, u.Labels)
				if k == 0 {
					l = "C"
				}
				var t, num uint64
				for {
					t, num = uint64(1000+r.Intn(60)), uint64(r.Intn(8))
					if k == 0 {
						t = uint64(1000 + r.Intn(3))
					}
					if !used[[2]uint64{t, num}] {
						used[[2]uint64{t, num}] = true
						break
					}
				}
				ops = append(ops, Place(u.Ops[l], t, num, fmt.Sprintf("ref%d", k), p.GenesisTime))
			}
			compareWithModel(c, u, ops, r.Perm(len(ops)), "random")
			if i%2 == 0 {
				// the same history with part of the operations handed over through WithAdditionalOperations
				// (0 = store, 1 = additional only, 2 = both)
				split := make([]int, len(ops))
				for x := range split {
					split[x] = r.Intn(3)
				}
				compareWithModel(c, u, ops, nil, "random-additional-operations", split...)
				c.Count("additional_operation_histories")
			}
		})
	}
	// histories of two DIDs anchored through the REAL batch files (handler, CAS, provider, transaction processor)
	chainsThroughBatchFiles(c, c.N(60, 1200))
	c03ThroughObserver(c)
	// DIDs whose OWN create carries a delta that matches the signed hash but cannot be used (it breaks a protocol rule, or its
	// patches fail): the DID exists with a recovery commitment, an empty document and NO update commitment - the key the unusable
	// delta names cannot update it, the recovery key can recover or deactivate it
	{
		br := c.Rng("create-with-unusable-delta")
		p := hx.BaseProtocol()
		pc := hx.NewClient(hx.NewVersion(p, hx.VersionOpts{ParserOpts: hx.StrictResolution()}))
		for k := 0; k < c.N(24, 300); k++ {
			u := NewUniverse(br.Split(fmt.Sprint(k)), ref.SHA256, p, []string{hx.Pick(br, ref.KeyTypes), "P-256"})
			status := ref.DeltaInvalid
			bad := []interface{}{invalidPatch}
			if k%2 == 1 {
				status, bad = ref.DeltaFails, []interface{}{failingPatch}
			}
			u.Create.Delta = ref.Delta(u.U[0].Commitment(ref.SHA256), bad)
			u.Suffix = u.Create.Suffix()
			u.BuildAlphabet(1015, 1025)
			u.Ops["C"] = u.MkCreate("C", status)
			for _, labels := range [][]string{{"C", "u01"}, {"C", "u01", "u12"}, {"C", "r01", "u12"}, {"C", "d0", "u01"}, {"C", "u02", "r01"}} {
				var H []*ref.Op
				for i, l := range labels {
					H = append(H, Place(u.Ops[l], uint64(1000+10*i), uint64(i%3), fmt.Sprintf("ref%d", i), 0))
				}
				c.Eval()
				st, merr := ref.Resolve(H, ref.ResolveOpts{})
				rm, err := SUTResolve(pc, u.Suffix, H, nil)
				if want, got := stKey(st, merr), rmKey(rm, err); want != got {
					c.Violation(fmt.Sprintf("C03 resolved state differs from reference state machine (the DID's own create carries a delta that cannot be used: %s): history [%s]\n   model:   %s\n   library: %s", status, histString(H), want, got),
						map[string]interface{}{"suffix": u.Suffix, "history": replayOps(H), "model": want, "library": got})
					return
				}
				c.Count("histories_on_a_create_with_unusable_delta")
			}
		}
		c.Floor("histories_on_a_create_with_unusable_delta", 100)
	}
	c.Floor("histories_through_the_observer", 40)
	c.Floor("observer_nodes_reading_from_alternate_sources", 15)
	c.Floor("notifications_mixing_protocol_versions", 15)
	c.Floor("batch_file_rounds", 100)
	c.Floor("state_leak_probes", 3)
	// floors
	for _, l := range []string{"u01", "u02", "u12", "uF", "uW", "r01", "rB", "rI", "rF", "rW", "r12", "d0", "d1", "uJP", "rJP", "rWd", "dWd", "uPF", "u12PF", "uAka", "u12Rep", "uAkaRep", "rND"} {
		c.Floor("applied:"+l, 1)
	}
	for _, l := range []string{"u10", "u00", "uS", "uT", "uM", "uI", "uX", "uR", "r00", "rS", "dS", "dO", "dW", "dR", "rR", "uND", "rSB", "rTI", "uSF", "Cdup", "u01", "rU", "dU", "uRk", "uTc"} {
		c.Floor("ignored:"+l, 1)
	}
	c.Floor("additional_operation_histories", 100)
	c.Floor("applied:dW", 1)
	c.Floor("applied:Cdup", 1)
}

func keyTypesOf(u *Universe) map[string]string {
	m := map[string]string{}
	for _, k := range append(append(append([]*ref.Key{}, u.R...), u.U...), u.X...) {
		m[k.Name] = k.Type
	}
	return m
}
