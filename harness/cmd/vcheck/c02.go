package main

import (
	"encoding/json"
	"errors"
	"fmt"

	"github.com/trustbloc/sidetree-core-go/pkg/dochandler"
	"github.com/trustbloc/sidetree-core-go/pkg/processor"

	"github.com/trustbloc/sidetree-core-go/pkg/api/protocol"
	"github.com/trustbloc/sidetree-core-go/pkg/document"
	"github.com/trustbloc/sidetree-core-go/pkg/versions/1_0/doctransformer/metadata"

	"verifharness/hx"
	"verifharness/ref"
)

func init() { register("C02", "exploration", checkC02) }

func permutations(n int) [][]int {
	var out [][]int
	var rec func(cur []int, used []bool)
	rec = func(cur []int, used []bool) {
		if len(cur) == n {
			out = append(out, append([]int{}, cur...))
			return
		}
		for i := 0; i < n; i++ {
			if !used[i] {
				used[i] = true
				rec(append(cur, i), used)
				used[i] = false
			}
		}
	}
	rec(nil, make([]bool, n))
	return out
}

// metadataDump renders the document metadata (incl. both operation lists) for a resolution model.
func metadataDump(rm *protocol.ResolutionModel) string {
	if rm == nil {
		return "nil"
	}
	if rm.Doc == nil {
		rm.Doc = document.Document{}
	}
	md, err := metadata.New(metadata.WithIncludePublishedOperations(true), metadata.WithIncludeUnpublishedOperations(true)).
		CreateDocumentMetadata(rm, protocol.TransformationInfo{document.PublishedProperty: len(rm.PublishedOperations) > 0})
	if err != nil {
		return "ERR:" + err.Error()
	}
	b, _ := json.Marshal(md)
	return string(b)
}

func checkC02(c *hx.Ctx) {
	c.Rule("operation sets with competing operations: 2-3 valid updates / recovers consuming the same commitment with different successors, several creates (the duplicate create of half of the DIDs carries a delta larger than the delta limit), replayed operations and unpublished competitors; pairwise distinct (time, number) pairs drawn so that time order and number order disagree; the store returns the published operations in every permutation (n<=6) or in 24 random permutations plus sorted and reversed; oracle: identical resolution result and identical document metadata (both operation lists) for every order, equal to the reference model (earliest (time, number) wins, published before unpublished); plus competitions that straddle a protocol upgrade (version 0 allows sha2-256 only, version 100 sha2-512 and sha2-256): each competitor is judged by the rules of the version it was anchored under, the earliest applicable one wins; competitors anchored in transactions of their own (real batch files) reaching two nodes through the REAL observer, grouped differently into notifications with unreadable transactions in between: both resolve like the model; non-trivial = the set contains at least one fork or duplicate create")
	nCases := c.N(1200, 25000)
	root := c.Rng("cases")
	seeds := make([]uint64, nCases)
	for i := range seeds {
		seeds[i] = root.U64()
	}
	perms := map[int][][]int{}
	for n := 1; n <= 6; n++ {
		perms[n] = permutations(n)
	}
	hx.Parallel(nCases, 16, func(i int) {
		r := hx.NewRng(seeds[i], "c02")
		p := hx.BaseProtocol()
		types := []string{"Ed25519", "P-256"}
		if i%7 == 0 {
			types = ref.KeyTypes
		}
		u := NewUniverse(r.Split("u"), ref.SHA256, p, types)
		u.BuildAlphabet(1, 2)
		// forks: pick a composition
		pools := [][]string{
			{"C", "u01", "u02"},
			{"C", "u01", "u02", "u12"},
			{"C", "Cdup", "u01"},
			{"C", "C", "Cdup", "u02"},
			{"C", "r01", "rB", "u12"},
			{"C", "r01", "rF", "d0"},
			{"C", "d0", "r01", "u01"},
			{"C", "u01", "u01", "u02", "u12"},
			{"C", "r01", "r12", "r10", "u12"},
			{"C", "u01", "uF", "u12", "u20"},
			{"C", "u01", "u02", "r01", "u12", "d1"},
			{"Cdup", "C", "u01", "r01"},
			{"C", "uI", "u01", "u12"},       // an earlier competitor whose delta fails protocol validation does not consume the commitment
			{"C", "uM", "u02", "rI", "r01"}, // mismatching update / invalid recover delta as earlier competitors
		}
		labels := append([]string{}, hx.Pick(r, pools)...)
		for len(labels) < 3+r.Intn(5) {
			labels = append(labels, hx.Pick(r, []string{"u01", "u02", "u12", "u20", "u10", "r01", "rB", "r12", "d0", "d1", "uS", "uF", "Cdup", "rS", "uI", "uM", "rI"}))
		}
		// coordinates: small ranges so that equal times / equal numbers and disagreeing orders are frequent
		used := map[[2]uint64]bool{}
		var ops []*ref.Op
		for k, l := range labels {
			var t, n uint64
			for {
				t, n = uint64(10+r.Intn(4)), uint64(r.Intn(5))
				if !used[[2]uint64{t, n}] {
					used[[2]uint64{t, n}] = true
					break
				}
			}
			ops = append(ops, Place(u.Ops[l], t, n, fmt.Sprintf("ref%d", k), p.GenesisTime))
		}
		// unpublished competitors
		nUnpub := 0
		if r.Chance(1, 3) {
			for k := 0; k < 1+r.Intn(2); k++ {
				l := hx.Pick(r, []string{"u01", "u02", "u12", "r01", "d0", "Cdup", "Cdup", "C"})
				if l == "Cdup" || l == "C" {
					c.Count("sets_with_unpublished_create")
				}
				ops = append(ops, Place(u.Ops[l], uint64(5+k), 0, "", p.GenesisTime)) // earlier "time" than published ones on purpose; distinct per operation
				nUnpub++
			}
		}
		nPub := len(ops) - nUnpub
		var orders [][]int
		if nPub <= 6 {
			orders = perms[nPub]
			if !c.Thorough() && len(orders) > 120 {
				orders = orders[:0]
				for k := 0; k < 60; k++ {
					orders = append(orders, r.Perm(nPub))
				}
			}
		} else {
			id, rev := make([]int, nPub), make([]int, nPub)
			for k := range id {
				id[k], rev[k] = k, nPub-1-k
			}
			orders = append(orders, id, rev)
			for k := 0; k < 24; k++ {
				orders = append(orders, r.Perm(nPub))
			}
		}
		pc := hx.NewClient(hx.NewVersion(p, hx.VersionOpts{ParserOpts: hx.StrictResolution()}))
		st, merr := ref.Resolve(ops, ref.ResolveOpts{})
		want := stKey(st, merr)
		var first, firstMD string
		for oi, ord := range orders {
			c.Eval()
			rm, err := SUTResolve(pc, u.Suffix, ops, ord)
			got := rmKey(rm, err)
			md := ""
			if err == nil {
				md = metadataDump(rm)
			}
			replay := map[string]interface{}{"suffix": u.Suffix, "ops": replayOps(ops), "store_order": ord, "first_order": orders[0]}
			if oi == 0 {
				first, firstMD = got, md
				if got != want {
					replay["model"], replay["library"] = want, got
					c.Violation(fmt.Sprintf("C02 winner is not the earliest anchored applicable operation: ops=[%s] order=%v\n   model:   %s\n   library: %s", histString(ops), ord, want, got), replay)
					return
				}
				continue
			}
			if got != first {
				replay["result_first_order"], replay["result_this_order"] = first, got
				c.Violation(fmt.Sprintf("C02 resolution depends on the store's return order: ops=[%s] orders %v vs %v\n   first: %s\n   this:  %s", histString(ops), orders[0], ord, first, got), replay)
				return
			}
			if md != firstMD {
				replay["metadata_first_order"], replay["metadata_this_order"] = firstMD, md
				c.Violation(fmt.Sprintf("C02 document metadata operation lists depend on the store's return order: ops=[%s] orders %v vs %v", histString(ops), orders[0], ord), replay)
				return
			}
		}
		// the same set with part of the operations supplied through WithAdditionalOperations (some of them twice)
		for k := 0; k < 4; k++ {
			split := make([]int, len(ops))
			moved := 0
			for x := range split {
				split[x] = r.Intn(3)
				if split[x] != 0 {
					moved++
				}
			}
			if ops[0].Type == "create" && r.Bool() {
				split[0] = 0
			}
			c.Eval()
			rm, err := SUTResolveSplit(pc, u.Suffix, ops, nil, split)
			if got := rmKey(rm, err); got != first {
				c.Violation(fmt.Sprintf("C02 resolution differs when part of the operations is supplied as additional operations: ops=[%s] split=%v\n   store only: %s\n   split:      %s", histString(ops), split, first, got),
					map[string]interface{}{"suffix": u.Suffix, "ops": replayOps(ops), "split": split})
				return
			}
			if moved > 0 {
				c.Count("additional_operation_splits")
			}
		}
		// anchored history takes precedence over the unpublished create carried by a long-form DID, also when the anchored
		// history cannot be read (an error is the answer then, not the carried create presented as an unpublished DID)
		if i%4 == 0 {
			var firstCreate *ref.Op
			for _, o := range ref.Order(ops) {
				if o.Type == "create" && o.Published() && o.Label == "C" {
					firstCreate = o
					break
				}
			}
			if firstCreate != nil {
				var init map[string]interface{}
				_ = json.Unmarshal(firstCreate.Request, &init)
				delete(init, "type")
				long := hx.Namespace + ":" + u.Suffix + ":" + ref.B64(ref.MustJCS(init))
				var pub []*ref.Op
				for _, o := range ops {
					if o.Published() {
						pub = append(pub, o)
					}
				}
				lstore := hx.NewOpStore()
				lstore.Set(u.Suffix, ToAnchored(u.Suffix, pub))
				lenient := hx.NewClient(hx.NewVersion(p, hx.VersionOpts{}))
				ldh := dochandler.New(hx.Namespace, nil, lenient, &hx.RecWriter{}, processor.New("verif", lstore, pc), hx.NopMetrics{})
				c.Eval()
				okRes, okErr := ldh.ResolveDocument(long)
				lstore.GetErr = func(string) error { return errors.New("injected store read failure") }
				res, err := ldh.ResolveDocument(long)
				if okErr == nil && okRes != nil && err == nil && res != nil {
					mdOK, _ := roundTrip(okRes.DocumentMetadata).(map[string]interface{})
					md, _ := roundTrip(res.DocumentMetadata).(map[string]interface{})
					mOK, _ := mdOK["method"].(map[string]interface{})
					m, _ := md["method"].(map[string]interface{})
					if mOK["published"] == true && m["published"] != true {
						c.Violation("C02 while the operation store cannot be read, the long-form DID of an anchored DID is answered from its carried (unpublished) create request instead of an error: ops=["+histString(ops)+"]",
							map[string]interface{}{"did": long, "ops": replayOps(ops), "metadata": md})
						return
					}
				}
				c.Count("long_form_of_anchored_did_with_store_fault")
			}
		}
		c.CountN("orders_tried", len(orders))
		if nUnpub > 0 {
			c.Count("sets_with_unpublished_competitor")
		}
		// time order vs number order disagreement present?
		dis := false
		for a := 0; a < nPub && !dis; a++ {
			for b := 0; b < nPub; b++ {
				if ops[a].Time < ops[b].Time && ops[a].Number > ops[b].Number {
					dis = true
					break
				}
			}
		}
		if dis {
			c.Count("sets_with_disagreeing_time_and_number_order")
		}
		c.Distinct(histString(ops))
		if i < 2 {
			c.Sample(2, map[string]interface{}{"ops": histString(ops), "orders": len(orders), "result": first})
		}
	})
	c02TwoVersions(c)
	c02CompetitorOutsideItsWindow(c)
	c.Floor("competitions_with_an_early_competitor_outside_its_window", 30)
	c02ThroughObserver(c)
	c.Floor("competitions_through_the_observer", 30)
	c.Floor("two_version_competitions", 100)
	c.Floor("early_recover_recommitting_to_its_key_under_another_algorithm", 20)
	c.Floor("sets_with_disagreeing_time_and_number_order", 50)
	c.Floor("sets_with_unpublished_competitor", 20)
	c.Floor("additional_operation_splits", 100)
	c.Floor("sets_with_unpublished_create", 20)
	c.Floor("long_form_of_anchored_did_with_store_fault", 50)
}

// c02TwoVersions: competitors for one commitment anchored under different protocol versions whose parser rules differ.
// Version 0 (genesis 0) allows sha2-256 only, version 100 allows sha2-512 and sha2-256. A competitor is applicable
// only under the rules of the version stamped on it, so an early sha2-512 operation stamped with version 0 is
// ignored, and an early invalid version-0 operation must not make the library judge the later version-100 operation by
// version-0 rules.
func c02TwoVersions(c *hx.Ctx) {
	nCases := c.N(300, 6000)
	root := c.Rng("two-versions")
	seeds := make([]uint64, nCases)
	for i := range seeds {
		seeds[i] = root.U64()
	}
	hx.Parallel(nCases, 16, func(i int) {
		r := hx.NewRng(seeds[i], "c02v")
		p0 := hx.BaseProtocol()
		p0.MultihashAlgorithms = []uint{ref.SHA256}
		p1 := p0
		p1.GenesisTime = 100
		p1.MultihashAlgorithms = []uint{ref.SHA512, ref.SHA256}
		pc := hx.NewClient(hx.NewVersion(p0, hx.VersionOpts{ParserOpts: hx.StrictResolution()}), hx.NewVersion(p1, hx.VersionOpts{ParserOpts: hx.StrictResolution()}))
		u := NewUniverse(r.Split("u"), ref.SHA256, p0, []string{hx.Pick(r, ref.KeyTypes), "P-256"})
		cm := func(k *ref.Key, code uint64) string { return k.Commitment(code) }
		svc := func(id string) []interface{} {
			return []interface{}{patchAddServices(svcEntry(id, "web", "https://example.com/"+id))}
		}
		kind := hx.Pick(r, []string{"update", "recover"})
		mk := func(label string, code uint64, o SignedOpts) *ref.Op {
			// an operation that reveals U0/R0 (sha2-256 reveal value, matching the create) and commits / hashes its delta with `code`
			o.DeltaCode = code
			var d *ref.Op
			if kind == "update" {
				d = u.MkSigned(label, "update", u.U[0], "", cm(u.U[1], code), svc(label), o)
			} else {
				d = u.MkSigned(label, "recover", u.R[0], cm(u.R[1], code), cm(u.U[1], code), svc(label), o)
			}
			return d
		}
		create := Place(u.MkCreate("C", ref.DeltaOK), 10, 0, "refC", 0)
		var ops []*ref.Op
		ops = append(ops, create)
		// early competitors anchored under version 0
		nEarly := 1 + r.Intn(2)
		for k := 0; k < nEarly; k++ {
			var e *ref.Op
			switch r.Intn(4) {
			case 0:
				e = mk(fmt.Sprintf("v0-wrongsigner%d", k), ref.SHA256, SignedOpts{SigningKey: u.X[0]})
			case 1:
				e = mk(fmt.Sprintf("v0-tampered%d", k), ref.SHA256, SignedOpts{Tamper: true})
			case 2:
				// sha2-512 is not allowed under version 0: not applicable although genuinely signed
				e = mk(fmt.Sprintf("v0-sha512%d", k), ref.SHA512, SignedOpts{})
				e.Parses, e.Authorised = false, false
			default:
				e = mk(fmt.Sprintf("v0-delta-mismatch%d", k), ref.SHA256, SignedOpts{DeltaStatus: ref.DeltaMismatch})
			}
			ops = append(ops, Place(e, uint64(20+10*k+r.Intn(5)), uint64(r.Intn(4)), fmt.Sprintf("e%d", k), 0))
		}
		// a genuinely signed recover anchored under version 100 before the valid ones that commits again to the recovery key
		// it reveals, spelled with the other hash algorithm: key re-use, never applicable, consumes nothing
		if kind == "recover" && r.Chance(1, 2) {
			e := u.MkSigned("v100-recommits-own-key-sha512", "recover", u.R[0], cm(u.R[0], ref.SHA512), cm(u.U[1], ref.SHA512), svc("own"), SignedOpts{DeltaCode: ref.SHA512})
			if e.Parses {
				c.Violation("C02 harness: key re-use under another algorithm is not modelled as inapplicable", nil)
				return
			}
			ops = append(ops, Place(e, uint64(105+r.Intn(10)), uint64(r.Intn(4)), "own", 100))
			c.Count("early_recover_recommitting_to_its_key_under_another_algorithm")
		}
		// later competitors anchored under version 100, using sha2-512 (allowed there) or sha2-256
		nLate := 1 + r.Intn(2)
		for k := 0; k < nLate; k++ {
			code := uint64(ref.SHA512)
			if r.Chance(1, 3) {
				code = ref.SHA256
			}
			l := mk(fmt.Sprintf("v100-valid%d-sha%d", k, code), code, SignedOpts{})
			ops = append(ops, Place(l, uint64(120+10*k+r.Intn(5)), uint64(r.Intn(4)), fmt.Sprintf("l%d", k), 100))
		}
		for _, o := range ops {
			o.MaxDelta = int64(p0.MaxOperationTimeDelta)
		}
		c.Eval()
		st, merr := ref.Resolve(ops, ref.ResolveOpts{})
		want := stKey(st, merr)
		for k := 0; k < 3; k++ {
			rm, err := SUTResolve(pc, u.Suffix, ops, r.Perm(len(ops)))
			if got := rmKey(rm, err); got != want {
				c.Violation(fmt.Sprintf("C02 competitors anchored under different protocol versions: the earliest applicable operation (judged by the version it was anchored under) did not win: ops=[%s]\n   model:   %s\n   library: %s", histString(ops), want, got),
					map[string]interface{}{"suffix": u.Suffix, "ops": replayOps(ops), "model": want, "library": got})
				return
			}
		}
		if merr == nil && len(st.Applied) >= 2 {
			c.Count("two_version_competitions")
			c.Distinct("2v|" + histString(ops))
		}
	})
}

// c02CompetitorOutsideItsWindow: the earliest operation for a commitment is genuinely signed but anchored outside its anchoring
// window (declared, or the default one of an operation that names anchorFrom only): it is not a valid competitor, the next
// one in anchoring order wins - whatever the store order.
func c02CompetitorOutsideItsWindow(c *hx.Ctx) {
	n := c.N(60, 900)
	root := c.Rng("outside-window")
	seeds := make([]uint64, n)
	for i := range seeds {
		seeds[i] = root.U64()
	}
	hx.Parallel(n, 16, func(i int) {
		r := hx.NewRng(seeds[i], "c02w")
		p := hx.BaseProtocol()
		D := uint64(p.MaxOperationTimeDelta)
		pc := hx.NewClient(hx.NewVersion(p, hx.VersionOpts{ParserOpts: hx.StrictResolution()}))
		u := NewUniverse(r.Split("u"), ref.SHA256, p, []string{hx.Pick(r, ref.KeyTypes), "P-256"})
		u.BuildAlphabet(1000, 1010) // uW / rW / dW: [1000,1010]; uWd / rWd / dWd: anchorFrom 1000 only -> [1000, 1000+D]
		var early, late string
		var tEarly uint64
		switch i % 6 {
		case 0:
			early, late, tEarly = "dWd", "r01", 1000+D+uint64(1+r.Intn(500))
		case 1:
			early, late, tEarly = "uWd", "u02", 1000+D+uint64(1+r.Intn(500))
		case 2:
			early, late, tEarly = "rWd", "rB", 1000+D+uint64(1+r.Intn(500))
		case 3:
			early, late, tEarly = "dW", "r01", 1011+uint64(r.Intn(50))
		case 4:
			early, late, tEarly = "uW", "u02", 999-uint64(r.Intn(50))
		default:
			early, late, tEarly = "dWd", "r01", 999-uint64(r.Intn(50)) // not yet open
		}
		ops := []*ref.Op{Place(u.Ops["C"], 900, uint64(r.Intn(5)), "refC", 0), Place(u.Ops[early], tEarly, uint64(r.Intn(5)), "refE", 0), Place(u.Ops[late], tEarly+uint64(1+r.Intn(300)), uint64(r.Intn(5)), "refL", 0)}
		c.Eval()
		st, merr := ref.Resolve(ops, ref.ResolveOpts{})
		want := stKey(st, merr)
		for k := 0; k < 3; k++ {
			rm, err := SUTResolve(pc, u.Suffix, ops, r.Perm(len(ops)))
			if got := rmKey(rm, err); got != want {
				c.Violation(fmt.Sprintf("C02 the earliest operation for a commitment is anchored outside its anchoring window, so the next one wins - the library decides otherwise: ops=[%s] (MaxOperationTimeDelta %d)\n   model:   %s\n   library: %s", histString(ops), D, want, got),
					map[string]interface{}{"suffix": u.Suffix, "ops": replayOps(ops), "model": want, "library": got})
				return
			}
		}
		c.Count("competitions_with_an_early_competitor_outside_its_window")
		c.Distinct("c02w|" + histString(ops))
	})
}
