package main

import (
	"bytes"
	"encoding/json"
	"fmt"
	"net/http"
	"net/http/httptest"
	"strings"
	"sync"
	"sync/atomic"
	"time"

	"github.com/trustbloc/sidetree-core-go/pkg/api/operation"
	"github.com/trustbloc/sidetree-core-go/pkg/api/protocol"
	"github.com/trustbloc/sidetree-core-go/pkg/api/txn"
	"github.com/trustbloc/sidetree-core-go/pkg/batch"
	"github.com/trustbloc/sidetree-core-go/pkg/batch/cutter"
	"github.com/trustbloc/sidetree-core-go/pkg/batch/opqueue"
	"github.com/trustbloc/sidetree-core-go/pkg/dochandler"
	"github.com/trustbloc/sidetree-core-go/pkg/document"
	"github.com/trustbloc/sidetree-core-go/pkg/observer"
	"github.com/trustbloc/sidetree-core-go/pkg/processor"
	restdoc "github.com/trustbloc/sidetree-core-go/pkg/restapi/dochandler"
	"github.com/trustbloc/sidetree-core-go/pkg/versions/1_0/doctransformer/didtransformer"
	"github.com/trustbloc/sidetree-core-go/pkg/versions/1_0/txnprocessor"
	"github.com/trustbloc/sidetree-core-go/pkg/versions/1_0/txnprovider"

	"verifharness/hx"
	"verifharness/ref"
)

func init() { register("C20", "exploration", checkC20) }

// pipeLedger is the anchoring system: assigns time/number/references and feeds the observer.
type pipeLedger struct {
	mu         sync.Mutex
	now        uint64
	n          uint64
	pending    []txn.SidetreeTxn
	all        []txn.SidetreeTxn
	ch         chan []txn.SidetreeTxn
	step       func() uint64 // time increment per anchored batch
	direct     bool          // concurrent mode: push to the observer immediately
	refsOf     map[string][]*operation.Reference
	failing    func() bool // fault injection: true = this WriteAnchor call fails (called without the ledger lock)
	altSources []string    // stamped on every transaction (nodes that hold the batch files)
	// fault: the operation store fails while a notification is processed (storeFault arms it and says so; afterFailedDelivery
	// disarms it and judges the node before the transactions are delivered again)
	storeFault          func() bool
	afterFailedDelivery func()
	junk                func(next txn.SidetreeTxn) *txn.SidetreeTxn // fault injection: an unprocessable transaction delivered just before `next`
}

func (l *pipeLedger) WriteAnchor(anchor string, _ []*protocol.AnchorDocument, refs []*operation.Reference, ver uint64) error {
	if l.failing != nil && l.failing() {
		return fmt.Errorf("injected anchor write failure")
	}
	l.mu.Lock()
	l.now += l.step()
	l.n++
	t := txn.SidetreeTxn{TransactionTime: l.now, TransactionNumber: l.n % 7, AnchorString: anchor, Namespace: hx.Namespace, ProtocolVersion: ver,
		CanonicalReference: fmt.Sprintf("txn%d", l.n), EquivalentReferences: []string{fmt.Sprintf("eq%d", l.n)}, AlternateSources: l.altSources}
	l.all = append(l.all, t)
	l.refsOf[t.CanonicalReference] = refs
	direct := l.direct
	if !direct {
		l.pending = append(l.pending, t)
	}
	l.mu.Unlock()
	if direct {
		l.ch <- []txn.SidetreeTxn{t}
	}
	return nil
}

func (l *pipeLedger) Read(int) (bool, *txn.SidetreeTxn)                { return false, nil }
func (l *pipeLedger) RegisterForSidetreeTxn() <-chan []txn.SidetreeTxn { return l.ch }
func (l *pipeLedger) Now() uint64                                      { l.mu.Lock(); defer l.mu.Unlock(); return l.now }

// observe delivers everything anchored so far and waits for the observer to finish.
func (l *pipeLedger) observe() {
	l.mu.Lock()
	p := l.pending
	l.pending = nil
	if l.junk != nil && len(p) > 0 {
		// unprocessable neighbours in the same notification: they fail and must not keep the rest from being processed
		var mixed []txn.SidetreeTxn
		for _, t := range p {
			if j := l.junk(t); j != nil {
				mixed = append(mixed, *j)
			}
			mixed = append(mixed, t)
		}
		p = mixed
	}
	l.mu.Unlock()
	if len(p) > 0 {
		if l.storeFault != nil && l.storeFault() {
			// the operation store refuses every write while this notification is processed; the node is then judged, and the
			// ledger delivers the same transactions again (a node that re-reads the ledger)
			l.ch <- p
			l.ch <- nil
			l.afterFailedDelivery()
		}
		l.ch <- p
	}
	l.ch <- nil
}

// timeClient: the protocol version in force is the one whose genesis time <= ledger time.
type timeClient struct {
	vs  []protocol.Version
	now func() uint64
}

func (c *timeClient) Current() (protocol.Version, error) { return c.Get(c.now()) }
func (c *timeClient) Get(t uint64) (protocol.Version, error) {
	for i := len(c.vs) - 1; i >= 0; i-- {
		if t >= c.vs[i].Protocol().GenesisTime {
			return c.vs[i], nil
		}
	}
	return nil, fmt.Errorf("protocol parameters are not defined for anchoring time: %d", t)
}

type pipeCtx struct {
	pc protocol.Client
	l  *pipeLedger
	q  cutter.OperationQueue
}

// faultQueue is the real in-memory queue whose Add can be made to fail once (the batch writer refuses the operation).
type faultQueue struct {
	*opqueue.MemQueue
	mu       sync.Mutex
	failNext bool
	refused  int
}

func (q *faultQueue) Add(data *operation.QueuedOperation, protocolVersion uint64) (uint, error) {
	q.mu.Lock()
	f := q.failNext
	q.failNext = false
	if f {
		q.refused++
	}
	q.mu.Unlock()
	if f {
		return 0, fmt.Errorf("injected queue failure")
	}
	return q.MemQueue.Add(data, protocolVersion)
}

func (c *pipeCtx) Protocol() protocol.Client             { return c.pc }
func (c *pipeCtx) Anchor() batch.AnchorWriter            { return c.l }
func (c *pipeCtx) OperationQueue() cutter.OperationQueue { return c.q }

// pipeDID tracks one DID's client chain and its accepted operations.
type pipeDID struct {
	d        *CDid
	did      string
	accepted []*ref.Op // descriptors of accepted ops (coordinates filled once anchored)
	byReq    map[string]*ref.Op
	createRe *document.ResolutionResult
	longForm string
	created  bool
	createOp *BuiltOp  // the create request (it may be submitted again later)
	again    []*ref.Op // descriptors of repeated submissions of the create request
	// results already handed to a client, with their serialization at that moment: they never change afterwards
	handed []handedResult
}

type handedResult struct {
	what string
	res  *document.ResolutionResult
	snap string
}

type pipeline struct {
	p0, p1   protocol.Protocol
	twoVers  bool
	ledger   *pipeLedger
	store    *hx.OpStore
	unpub    *recUnpub
	useUnpub bool
	dh       *dochandler.DocumentHandler
	w        *batch.Writer
	obs      *observer.Observer
	pc       *timeClient
	q        *opqueue.MemQueue
	fq       *faultQueue
	upd      *restdoc.UpdateHandler
	res      *restdoc.ResolveHandler
	cas      *hx.MemCAS
	aliases  []string
	label    string
	rawTimes bool         // direct submissions name the protocol version by the current ledger time instead of its genesis time
	projOpts ref.ProjOpts // how the DID transformer of this node is configured (method contexts, @base)
}

// pipeFix pins the otherwise PRNG-chosen batch sizes and ledger clock steps (scripted scenarios).
type pipeFix struct {
	max0, max1 uint
	step       func() uint64
	altSource  bool // the observing node holds no batch file itself: everything is read from the alternate source the transactions name
}

// remoteOnlyCAS: writes go to the writer node's CAS; plain reads find nothing (another node's local CAS), reads of
// "remote|<uri>" are served by the writer node.
type remoteOnlyCAS struct{ remote *hx.MemCAS }

func (c *remoteOnlyCAS) Write(content []byte) (string, error) { return c.remote.Write(content) }
func (c *remoteOnlyCAS) Read(addr string) ([]byte, error) {
	if strings.HasPrefix(addr, "remote|") {
		return c.remote.Read(addr[len("remote|"):])
	}
	return nil, fmt.Errorf("not found in the local CAS")
}

func newPipeline(r *hx.Rng, twoVers, useUnpub, concurrent bool, fix ...*pipeFix) (*pipeline, error) {
	pl := &pipeline{twoVers: twoVers, useUnpub: useUnpub}
	pl.p0 = hx.BaseProtocol()
	pl.p0.MaxDeltaSize, pl.p0.MaxOperationSize, pl.p0.MaxOperationCount = 6000, 14000, uint(2+r.Intn(4))
	pl.p0.MaxChunkFileSize, pl.p0.MaxCoreIndexFileSize, pl.p0.MaxProofFileSize, pl.p0.MaxProvisionalIndexFileSize = 2000000, 2000001, 2000002, 2000003
	pl.p1 = pl.p0
	pl.p1.GenesisTime = 500
	pl.p1.Patches = without(hx.AllPatches, "ietf-json-patch")
	pl.p1.MaxOperationTimeDelta = 100
	pl.p1.MaxOperationCount = uint(1 + r.Intn(3))
	if len(fix) > 0 && fix[0] != nil && fix[0].max0 > 0 {
		pl.p0.MaxOperationCount, pl.p1.MaxOperationCount = fix[0].max0, fix[0].max1
	}
	altSource := len(fix) > 0 && fix[0] != nil && fix[0].altSource
	pl.cas = hx.NewMemCAS()
	pl.store = hx.NewOpStore()
	pl.unpub = &recUnpub{}
	stepR := r.Split("ledger")
	var smu sync.Mutex
	pl.ledger = &pipeLedger{now: 10, ch: make(chan []txn.SidetreeTxn), direct: concurrent, refsOf: map[string][]*operation.Reference{}, step: func() uint64 {
		smu.Lock()
		defer smu.Unlock()
		if len(fix) > 0 && fix[0] != nil && fix[0].step != nil {
			return fix[0].step()
		}
		return uint64(1 + stepR.Intn(120))
	}}
	var tpo []txnprocessor.Option
	if useUnpub {
		tpo = append(tpo, txnprocessor.WithUnpublishedOperationStore(pl.unpub, allOpTypes))
	}
	var vcas hx.CAS = pl.cas
	var provOpts []txnprovider.Opt
	if altSource {
		vcas = &remoteOnlyCAS{remote: pl.cas}
		provOpts = []txnprovider.Opt{txnprovider.WithSourceCASURIFormatter(func(uri, source string) (string, error) { return source + "|" + uri, nil })}
		pl.ledger.altSources = []string{"unreachable-node", "remote"}
	}
	// transformer configuration of the node: none, two method contexts, or four method contexts and @base
	var tro []didtransformer.Option
	switch r.Split("transformer").Intn(3) {
	case 1:
		pl.projOpts = ref.ProjOpts{MethodCtx: []string{"https://method.example/ctx/v1", "https://method.example/ctx/v2"}}
	case 2:
		pl.projOpts = ref.ProjOpts{Base: true, MethodCtx: []string{"https://m.example/1", "https://m.example/2", "https://m.example/3", "https://m.example/4"}}
	}
	if len(pl.projOpts.MethodCtx) > 0 {
		tro = append(tro, didtransformer.WithMethodContext(pl.projOpts.MethodCtx), didtransformer.WithBase(pl.projOpts.Base))
	}
	v0 := hx.NewVersion(pl.p0, hx.VersionOpts{CAS: vcas, Store: pl.store, TxnProcOpts: tpo, ProviderOpts: provOpts, TransfOpts: tro})
	vs := []protocol.Version{v0}
	if twoVers {
		vs = append(vs, hx.NewVersion(pl.p1, hx.VersionOpts{CAS: vcas, Store: pl.store, TxnProcOpts: tpo, ProviderOpts: provOpts, TransfOpts: tro}))
	}
	pl.pc = &timeClient{vs: vs, now: pl.ledger.Now}
	var popts []processor.Option
	var dopts []dochandler.Option
	if useUnpub {
		popts = append(popts, processor.WithUnpublishedOperationStore(pl.unpub))
		dopts = append(dopts, dochandler.WithUnpublishedOperationStore(pl.unpub, allOpTypes))
	}
	pl.q = &opqueue.MemQueue{}
	pl.fq = &faultQueue{MemQueue: pl.q}
	w, err := batch.New(hx.Namespace, &pipeCtx{pc: pl.pc, l: pl.ledger, q: pl.fq}, batch.WithBatchTimeout(3*time.Millisecond), batch.WithMonitorInterval(time.Millisecond))
	if err != nil {
		return nil, err
	}
	pl.w = w
	var aliases []string
	if r.Chance(1, 3) {
		aliases = []string{"did:alias", "did:other:alias"}
		pl.aliases = aliases
	}
	if r.Chance(1, 3) {
		pl.label = fmt.Sprintf("lbl%d", r.Intn(90))
		dopts = append(dopts, dochandler.WithLabel(pl.label))
		if r.Bool() {
			dopts = append(dopts, dochandler.WithDomain("https://dom.example"))
		}
	}
	pl.dh = dochandler.New(hx.Namespace, aliases, pl.pc, w, processor.New("verif", pl.store, pl.pc, popts...), hx.NopMetrics{}, dopts...)
	pl.obs = observer.New(&observer.Providers{Ledger: pl.ledger, ProtocolClientProvider: &hx.ClientProvider{C: pl.pc}})
	pl.obs.Start()
	pl.upd = restdoc.NewUpdateHandler(pl.dh, pl.pc, hx.NopMetrics{})
	pl.res = restdoc.NewResolveHandler(pl.dh, hx.NopMetrics{})
	return pl, nil
}

// submit sends a request through the handler (or its REST front end) and returns (result, error).
func (pl *pipeline) submit(req []byte, viaREST bool) (*document.ResolutionResult, error) {
	if !viaREST {
		cur, err := pl.pc.Current()
		if err != nil {
			return nil, err
		}
		vt := cur.Protocol().GenesisTime
		if pl.rawTimes {
			// the caller names the version by a time inside its validity period (the current ledger time) instead of by its
			// genesis time: the same version is meant
			vt = pl.ledger.Now()
		}
		return pl.dh.ProcessOperation(req, vt)
	}
	rw := httptest.NewRecorder()
	pl.upd.Update(rw, httptest.NewRequest(http.MethodPost, "/operations", bytes.NewReader(req)))
	if rw.Code != http.StatusOK {
		return nil, fmt.Errorf("http %d: %s", rw.Code, rw.Body.String())
	}
	var rr document.ResolutionResult
	body := bytes.TrimSpace(rw.Body.Bytes())
	if string(body) == "null" || len(body) == 0 {
		return nil, nil
	}
	if err := json.Unmarshal(body, &rr); err != nil {
		return nil, fmt.Errorf("bad response body: %v", err)
	}
	return &rr, nil
}

// docContent canonicalises a DID document with every occurrence of its own DID string (the document's id) replaced, so that
// documents that differ only in the DID string compare equal.
func docContent(res *document.ResolutionResult, _ string) string {
	if res == nil {
		return "nil"
	}
	t, _ := roundTrip(res.Document).(map[string]interface{})
	id, _ := t["id"].(string)
	if id == "" {
		return string(ref.MustJCS(t))
	}
	return strings.ReplaceAll(string(ref.MustJCS(t)), id, "<DID>")
}

func checkC20(c *hx.Ctx) {
	c.Rule("full pipeline of REAL components: DocumentHandler (partly through the REST update handler) -> batch.Writer (step hook) -> OperationHandler -> in-memory CAS -> ledger -> Observer goroutine -> TxnProcessor -> operation store -> OperationProcessor -> DID transformer. Runs: 2-6 DIDs, 5-40 interleaved client-built operations (create from document or patches, update, recover, deactivate; several operations of one DID inside one batch -> deferral), PRNG-chosen flush (monitor / timeout tick) and observation points, one or two protocol versions (genesis 0 and 500; the second disables ietf-json-patch and has another time delta and batch size) with ledger time crossing the boundary, with and without unpublished-operation store; every second sequential run injects faults: the batch writer's queue refuses a PRNG-chosen submission (the operation must be reported as failed and leave no trace), one CAS write or the anchor write of a batch fails (the batch is rolled back and retried later), the operation store fails while a notification is processed (with an unpublished-operation store every accepted operation stays resolvable until the ledger delivers the transactions again), half of the time with another operation accepted between the cut and the roll-back; at every quiescent point each DID is resolved through ResolveDocument and compared with the reference state machine applied to its ACCEPTED operations in anchoring order under the version in force at acceptance, projected with the independent DID projection; create response, long-form resolution before anchoring and short-form resolution after anchoring must have the same content; at the end a bounded drain must anchor every accepted operation; a concurrent slice (submitters and resolvers in goroutines, writer and observer on tickers) is judged at quiescence; race detector on. non-trivial = run in which >= 3 operations of one DID were applied; distinct = distinct run shapes")
	c.Set("race_detector_enabled", raceEnabled)
	nRuns := c.N(90, 3000)
	root := c.Rng("runs")
	seeds := make([]uint64, nRuns)
	for i := range seeds {
		seeds[i] = root.U64()
	}
	hx.Parallel(nRuns, 8, func(ri int) {
		if c.Violations() > 6 {
			return
		}
		r := hx.NewRng(seeds[ri], "c20")
		twoVers := ri%2 == 1
		useUnpub := ri%3 == 0
		concurrent := ri%10 == 9
		runPipeline(c, r, ri, twoVers, useUnpub, concurrent)
	})
	versionBoundaryScenarios(c)
	c.Floor("version_boundary_scenarios", 8)
	c.Floor("version_boundary_scenarios_with_old_version_operation_behind_new_one", 4)
	c.Floor("runs:two-versions", 10)
	c.Floor("creates_with_suffix_data_type", 20)
	c.Floor("runs:observer_reads_from_alternate_source", 5)
	c.Floor("updates_whose_last_patch_fails", 5)
	c.Floor("runs:version_named_by_ledger_time", 10)
	c.Floor("runs:unpublished-store", 10)
	c.Floor("runs:concurrent", 3)
	c.Floor("resolutions_compared", 300)
	c.Floor("create_triples_compared", 30)
	c.Floor("batches_with_deferral", 5)
	c.Floor("ops_accepted_under_v0_anchored_after_v1_genesis", 1)
	c.Floor("rest_submissions", 20)
	c.Floor("operations_with_window", 20)
	c.Floor("alias_resolutions_compared", 50)
	c.Floor("runs_with_label", 5)
	c.Floor("fault:queue_add_refused", 3)
	c.Floor("fault:queue_add_refused_with_unpublished_store", 2)
	c.Floor("fault:cas_write_failed", 2)
	c.Floor("fault:anchor_write_failed", 2)
	c.Floor("fault:submission_during_failing_batch", 2)
	c.Floor("fault:unprocessable_transaction_in_notification", 5)
}

func runPipeline(c *hx.Ctx, r *hx.Rng, ri int, twoVers, useUnpub, concurrent bool) {
	c.Eval()
	var fix *pipeFix
	if ri%5 == 2 {
		fix = &pipeFix{altSource: true}
		c.Count("runs:observer_reads_from_alternate_source")
	}
	pl, err := newPipeline(r.Split("pl"), twoVers, useUnpub, concurrent, fix)
	if err != nil {
		c.Inconclusive("pipeline: %v", err)
		return
	}
	defer pl.obs.Stop()
	pl.rawTimes = ri%4 >= 2
	if pl.rawTimes {
		c.Count("runs:version_named_by_ledger_time")
	}
	tag := fmt.Sprintf("run %d two-versions=%v unpublished-store=%v concurrent=%v", ri, twoVers, useUnpub, concurrent)
	var trace []string
	var tmu sync.Mutex
	note := func(f string, a ...interface{}) {
		tmu.Lock()
		trace = append(trace, fmt.Sprintf(f, a...))
		tmu.Unlock()
	}
	fail := func(what string, extra map[string]interface{}) {
		if extra == nil {
			extra = map[string]interface{}{}
		}
		tmu.Lock()
		extra["trace"], extra["run"] = append([]string{}, trace...), tag
		tmu.Unlock()
		c.Violation("C20 "+what+" :: "+tag, extra)
	}
	nDIDs := 2 + r.Intn(5)
	dids := make([]*pipeDID, nDIDs)
	faults := !concurrent && (ri%3 == 1 || ri%6 == 3) // with (ri%6 == 3) and without an unpublished-operation store
	versionAt := func() (uint64, int64, []string) {
		cur, _ := pl.pc.Current()
		return cur.Protocol().GenesisTime, int64(cur.Protocol().MaxOperationTimeDelta), cur.Protocol().Patches
	}
	patchesFor := func(rr *hx.Rng, ids *idPool, enabled []string) []interface{} {
		for {
			ps := genPatches(rr, 2, ids)
			ok := true
			for _, p := range ps {
				if !containsS(enabled, p.(map[string]interface{})["action"].(string)) {
					ok = false
				}
			}
			if ok {
				return ps
			}
		}
	}
	var amu sync.Mutex
	// submitOne builds and submits the next operation of a DID; returns false on violation
	submitOne := func(rr *hx.Rng, di int) bool {
		pd := dids[di]
		ver, maxDelta, enabled := versionAt()
		var b *BuiltOp
		var err error
		ids := newIDPool(rr)
		kind := ""
		switch {
		case pd == nil:
			var opaque map[string]interface{}
			var patches []interface{}
			if rr.Bool() && containsS(enabled, "ietf-json-patch") {
				opaque = genDoc(rr)
			} else {
				patches = append(patchesFor(rr, ids, enabled), patchAddKeys(genKeyEntry(rr, "firstKey")))
			}
			var d *CDid
			typ := ""
			if (ri+di)%3 == 2 {
				typ = fmt.Sprintf("t%d", di) // optional suffix-data type: part of the DID suffix
				c.Count("creates_with_suffix_data_type")
			}
			d, b, err = NewCDid(rr.Split("did"), ref.SHA256, []string{ref.KeyTypes[(ri+di)%5], "P-256"}, maxDelta, false, patches, opaque, genOrigin(rr), typ)
			if d != nil && di%2 == 1 {
				d.ReuseSigners = true
			}
			if err != nil {
				fail("client.NewCreateRequest refused valid inputs: "+err.Error(), nil)
				return false
			}
			d.Suffix = suffixOf(b.Req, ref.SHA256)
			pd = &pipeDID{d: d, did: hx.Namespace + ":" + d.Suffix, byReq: map[string]*ref.Op{}}
			var init map[string]interface{}
			_ = json.Unmarshal(b.Req, &init)
			delete(init, "type")
			pd.longForm = pd.did + ":" + ref.B64(ref.MustJCS(init))
			amu.Lock()
			dids[di] = pd
			amu.Unlock()
			pd.createOp = b
			kind = "create"
		case pd.d.Deact:
			return true
		case !concurrent && pd.createOp != nil && len(pd.accepted) >= 2 && len(pd.again) < 2 && rr.Chance(1, 10):
			// the client (or anyone else) submits the DID's create request once more: a later create changes nothing
			b, kind = pd.createOp, "create-again"
			c.Count("create_requests_submitted_again")
		default:
			pd.d.MaxDelta = maxDelta
			// anchoring windows relative to the ledger clock (only without unpublished store, DESIGN 2.3): the operation may be
			// anchored inside or outside its window depending on when its batch is flushed
			var from, until int64
			if !pl.useUnpub && rr.Chance(1, 3) {
				now := int64(pl.ledger.Now())
				switch rr.Intn(4) {
				case 0:
					from, until = now-3, now+int64(rr.Intn(150))
				case 1:
					from = now - int64(rr.Intn(250)) // default until = from + MaxOperationTimeDelta of the accepting version
				case 2:
					from = now + int64(rr.Intn(100)) // possibly still early when anchored
				default:
					until = now + int64(rr.Intn(200))
				}
				if from < 0 {
					from = 1
				}
				c.Count("operations_with_window")
			}
			switch x := rr.Intn(10); {
			case x < 6:
				ups := patchesFor(rr, ids, enabled)
				if containsS(enabled, "ietf-json-patch") && rr.Chance(1, 6) {
					// the last patch cannot be applied: the update consumes its commitment and leaves the document as it was,
					// including what its earlier patches would have done
					ups = append(ups, patchJSON(map[string]interface{}{"op": "remove", "path": "/memberThatDoesNotExist"}))
					c.Count("updates_whose_last_patch_fails")
				} else if rr.Chance(1, 6) {
					// a replace patch after patches that put an alias into the document: the document is reset to exactly the
					// keys and services the replace patch names
					ups = append(ups, map[string]interface{}{"action": "add-also-known-as", "uris": []interface{}{"https://alias.example/" + genID(rr, "")}},
						patchReplace([]interface{}{genKeyEntry(rr, "rk")}, []interface{}{genService(rr, "rs")}))
					c.Count("updates_with_a_replace_patch_after_other_patches")
				}
				b, err = pd.d.Update(ups, from, until)
				kind = "update"
			case x < 9:
				b, err = pd.d.Recover(append(patchesFor(rr, ids, enabled), patchAddKeys(genKeyEntry(rr, "recKey"))), nil, genOrigin(rr), from, until)
				kind = "recover"
			default:
				b, err = pd.d.Deactivate(from, until)
				kind = "deactivate"
			}
			if err != nil {
				fail("client builder refused valid inputs: "+err.Error(), nil)
				return false
			}
		}
		viaREST := rr.Chance(1, 4)
		if viaREST {
			c.Count("rest_submissions")
		}
		// long-form resolution before the create is submitted/anchored
		var longRes *document.ResolutionResult
		if kind == "create" {
			lr, lerr := pl.dh.ResolveDocument(pd.longForm)
			if lerr != nil {
				fail("long-form DID of a valid create does not resolve before anchoring: "+lerr.Error(), map[string]interface{}{"did": pd.longForm})
				return false
			}
			longRes = lr
		}
		injected := faults && rr.Chance(1, 7)
		if injected {
			pl.fq.mu.Lock()
			pl.fq.failNext = true
			pl.fq.mu.Unlock()
		}
		unpubBefore := pl.unpub.Len()
		res, serr := pl.submit(b.Req, viaREST)
		note("submit %s did%d under v%d via-rest=%v queue-refuses=%v -> err=%v", kind, di, ver, viaREST, injected, serr)
		if injected {
			pl.fq.mu.Lock()
			reached := !pl.fq.failNext
			pl.fq.failNext = false
			pl.fq.mu.Unlock()
			if reached {
				c.Count("fault:queue_add_refused")
				if pl.useUnpub {
					c.Count("fault:queue_add_refused_with_unpublished_store")
				}
				if serr == nil {
					fail(fmt.Sprintf("ProcessOperation reported success for a %s although the batch writer refused the operation", kind), map[string]interface{}{"request": string(b.Req)})
					return false
				}
				if n := pl.unpub.Len(); n != unpubBefore {
					fail(fmt.Sprintf("a %s refused by the batch writer stays in the unpublished-operation store (%d -> %d entries)", kind, unpubBefore, n), map[string]interface{}{"request": string(b.Req)})
					return false
				}
				if kind == "create" {
					amu.Lock()
					dids[di] = nil
					amu.Unlock()
					return true
				}
			}
		}
		if serr != nil {
			c.Count("intake_rejected:" + kind)
			// a refused operation is not part of the DID's accepted history; the client chain must not advance: rebuild keys
			if kind == "create" {
				amu.Lock()
				dids[di] = nil
				amu.Unlock()
				fail("a valid create was refused at intake: "+serr.Error(), map[string]interface{}{"request": string(b.Req)})
				return false
			}
			if kind == "create-again" {
				return true // whether a node takes a repeated create is its own business
			}
			// non-create refused (e.g. DID not yet resolvable without unpublished store): undo the client-side key rotation
			pd.d.CurU, pd.d.CurR, pd.d.Deact = b.PrevU, b.PrevR, false
			return true
		}
		c.Count("intake_accepted:" + kind)
		desc := *b.Desc
		desc.Version, desc.MaxDelta = ver, maxDelta
		desc.Label = fmt.Sprintf("did%d:%s", di, desc.Label)
		desc.Time, desc.Ref = 1<<40+uint64(len(pd.accepted)), "" // unpublished until anchored
		amu.Lock()
		pd.accepted = append(pd.accepted, &desc)
		if kind == "create-again" {
			pd.again = append(pd.again, &desc)
		} else {
			pd.byReq[canonReq(b.Req)] = &desc
		}
		amu.Unlock()
		if kind == "create" {
			pd.createRe = res
			if res == nil {
				fail("create returned no resolution result", nil)
				return false
			}
			amu.Lock()
			pd.handed = append(pd.handed, handedResult{"create response", res, string(ref.MustJCS(roundTrip(res)))}, handedResult{"long-form resolution before anchoring", longRes, string(ref.MustJCS(roundTrip(longRes)))})
			amu.Unlock()
			if a, bb := docContent(res, pd.did), docContent(longRes, pd.longForm); a != bb {
				fail("create response and long-form resolution before anchoring differ in content\n   create:    "+trunc600(a)+"\n   long-form: "+trunc600(bb), map[string]interface{}{"did": pd.did})
				return false
			}
		}
		return true
	}
	// anchoredSync: copy ledger coordinates into the descriptors
	syncAnchored := func() {
		pl.ledger.mu.Lock()
		all := append([]txn.SidetreeTxn{}, pl.ledger.all...)
		pl.ledger.mu.Unlock()
		for _, t := range all {
			v, _ := pl.pc.Get(t.ProtocolVersion)
			ops, err := v.OperationProvider().GetTxnOperations(&t)
			if err != nil {
				continue
			}
			for _, o := range ops {
				for _, pd := range dids {
					if pd == nil || pd.d.Suffix != o.UniqueSuffix {
						continue
					}
					if d := pd.byReq[canonReq(o.OperationRequest)]; d != nil && d.Ref != "" && d.Ref != t.CanonicalReference {
						// the same request anchored again in another transaction: a repeated submission
						for _, a := range pd.again {
							if a.Ref == t.CanonicalReference {
								break
							}
							if a.Ref == "" {
								a.Time, a.Number, a.Ref = t.TransactionTime, t.TransactionNumber, t.CanonicalReference
								break
							}
						}
					}
					if d := pd.byReq[canonReq(o.OperationRequest)]; d != nil && d.Ref == "" {
						d.Time, d.Number, d.Ref = t.TransactionTime, t.TransactionNumber, t.CanonicalReference
						if !concurrent && d.Version != t.ProtocolVersion {
							fail(fmt.Sprintf("operation %s was accepted under protocol version %d but batched and anchored in a transaction stamped with version %d", d.Label, d.Version, t.ProtocolVersion), nil)
						}
						if d.Version == 0 && t.TransactionTime >= 500 && pl.twoVers {
							c.Count("ops_accepted_under_v0_anchored_after_v1_genesis")
						}
					}
				}
			}
		}
	}
	// compareAll: every DID against the model (quiescent point)
	light := false // set while the node is judged between a failed and the repeated delivery of a notification: content only
	compareAll := func(final bool) bool {
		if !light {
			// (between a failed and the repeated delivery the transactions are on the ledger but not in the store: their
			// operations are still what they were before - accepted, unpublished)
			syncAnchored()
		}
		for di, pd := range dids {
			if pd == nil {
				continue
			}
			var visible []*ref.Op
			pendingUnpub := 0
			for _, d := range pd.accepted {
				if d.Ref != "" {
					visible = append(visible, d)
				} else if pl.useUnpub {
					visible = append(visible, d)
					pendingUnpub++
				}
			}
			if final && !pl.useUnpub && len(visible) != len(pd.accepted) {
				fail(fmt.Sprintf("did%d: %d of %d accepted operations were never anchored after the bounded drain", di, len(pd.accepted)-len(visible), len(pd.accepted)), nil)
				return false
			}
			st, merr := ref.Resolve(visible, ref.ResolveOpts{})
			res, err := pl.dh.ResolveDocument(pd.did)
			c.Count("resolutions_compared")
			// whatever was handed out earlier (create response, long-form result, earlier resolutions of any DID) is still what it was
			for _, h := range pd.handed {
				if now := string(ref.MustJCS(roundTrip(h.res))); now != h.snap {
					fail(fmt.Sprintf("did%d: a result handed out earlier (%s) changed after later transformations\n   then: %s\n   now:  %s", di, h.what, trunc600(h.snap), trunc600(now)), map[string]interface{}{"did": pd.did})
					return false
				}
				c.Count("handed_out_results_rechecked")
			}
			if err == nil && res != nil && len(pd.handed) < 12 {
				pd.handed = append(pd.handed, handedResult{"resolution at an earlier quiescent point", res, string(ref.MustJCS(roundTrip(res)))})
			}
			extra := map[string]interface{}{"did": pd.did, "history": replayOps(visible)}
			if (merr == nil) != (err == nil) {
				fail(fmt.Sprintf("did%d: ResolveDocument err=%v, reference model err=%v (history %s)", di, err, merr, histString(visible)), extra)
				return false
			}
			if err != nil {
				continue
			}
			want, perr := ref.ProjectDoc(ref.NormalizeDoc(st.Doc), pd.did, pl.projOpts)
			if perr != nil {
				continue
			}
			got, _ := roundTrip(res.Document).(map[string]interface{})
			delete(got, "@context")
			if a, b := string(ref.MustJCS(got)), string(ref.MustJCS(roundTrip(want.Doc))); a != b {
				extra["model_state"] = stKey(st, nil)
				fail(fmt.Sprintf("did%d resolves to a document that differs from the reference state (history %s)\n   resolved: %s\n   expected: %s", di, histString(visible), trunc600(a), trunc600(b)), extra)
				return false
			}
			for _, al := range pl.aliases {
				ares, aerr := pl.dh.ResolveDocument(al + ":" + pd.d.Suffix)
				if aerr != nil {
					fail(fmt.Sprintf("did%d does not resolve through the namespace alias %s: %v", di, al, aerr), extra)
					return false
				}
				if a, b := docContent(ares, ""), docContent(res, ""); a != b {
					fail(fmt.Sprintf("did%d resolved through the alias %s differs in content from the resolution through the namespace\n   alias:     %s\n   namespace: %s", di, al, trunc600(a), trunc600(b)), extra)
					return false
				}
				c.Count("alias_resolutions_compared")
			}
			md, _ := roundTrip(res.DocumentMetadata).(map[string]interface{})
			method, _ := md["method"].(map[string]interface{})
			uc, _ := method["updateCommitment"].(string)
			rc, _ := method["recoveryCommitment"].(string)
			deact, _ := md["deactivated"].(bool)
			if uc != st.UpdateCommitment || rc != st.RecoveryCommitment || deact != st.Deactivated {
				fail(fmt.Sprintf("did%d resolves with commitments/deactivation (%s, %s, %v), reference state has (%s, %s, %v) (history %s)", di, uc, rc, deact, st.UpdateCommitment, st.RecoveryCommitment, st.Deactivated, histString(visible)), extra)
				return false
			}
			if pendingUnpub == 0 && !light {
				// full metadata comparison
				canonical := hx.Namespace + ":" + st.CanonicalRef + ":" + pd.d.Suffix
				eqRef := strings.Replace(st.CanonicalRef, "txn", "eq", 1)
				mi := ref.MetaIn{UpdateCommitment: st.UpdateCommitment, RecoveryCommitment: st.RecoveryCommitment, AnchorOrigin: st.AnchorOrigin, Deactivated: st.Deactivated,
					Published: true, VersionID: st.VersionID, CreatedTime: st.CreatedTime, UpdatedTime: st.UpdatedTime, CanonicalID: canonical,
					EquivalentID: []interface{}{canonical, hx.Namespace + ":" + eqRef + ":" + pd.d.Suffix}}
				if why := compareProjection(res, ref.NormalizeDoc(st.Doc), pd.did, pl.projOpts, mi, 0, 0); why != "" && !strings.HasPrefix(why, "skip:") {
					extra["result"] = roundTrip(res)
					fail(fmt.Sprintf("did%d: %s (history %s)", di, why, histString(visible)), extra)
					return false
				}
			}
			// create triple: short form after anchoring of the create only
			if len(visible) == 1 && visible[0].Ref != "" && pd.createRe != nil && !pd.created && !light {
				pd.created = true
				a, b := docContent(pd.createRe, pd.did), docContent(res, pd.did)
				if a != b {
					fail(fmt.Sprintf("did%d: create response and short-form resolution after anchoring differ in content\n   create: %s\n   short:  %s", di, trunc600(a), trunc600(b)), extra)
					return false
				}
				c.Count("create_triples_compared")
			}
			if len(st.Applied) >= 3 {
				c.Distinct(fmt.Sprintf("%s|%v", tag, st.Applied))
			}
		}
		return true
	}
	nOps := 5 + r.Intn(36)
	if !concurrent {
		// fault injection while a batch is in flight: one CAS write or the anchor write of the batch fails, and (half of the
		// time) another client operation is accepted between the cut and the roll-back
		armed, during, ok := "", false, true
		fire := func(kind string) bool {
			if armed != kind {
				return false
			}
			armed = ""
			c.Count("fault:" + kind + "_failed")
			if during {
				note("operation submitted while the failing batch is in flight")
				c.Count("fault:submission_during_failing_batch")
				if !submitOne(r, r.Intn(nDIDs)) {
					ok = false
				}
			}
			return true
		}
		pl.ledger.failing = func() bool { return fire("anchor_write") }
		if faults {
			jr := r.Split("junk")
			garbageAddr, _ := pl.cas.Write([]byte("neither gzip nor a core index file"))
			pl.ledger.junk = func(next txn.SidetreeTxn) *txn.SidetreeTxn {
				if !jr.Chance(1, 2) {
					return nil
				}
				c.Count("fault:unprocessable_transaction_in_notification")
				j := next
				j.CanonicalReference, j.EquivalentReferences = "junk-"+next.CanonicalReference, nil
				switch jr.Intn(3) {
				case 0:
					j.AnchorString = "2.EiMissingCoreIndexFilexxxxxxxxxxxxxxxxxxxxxxxxx"
				case 1:
					j.AnchorString = "not an anchor string"
				default:
					j.AnchorString = "1." + garbageAddr // a file that exists but is not a (compressed) core index file
				}
				return &j
			}
		}
		if faults && pl.useUnpub {
			// the operation store fails while a notification is processed: with an unpublished-operation store every accepted
			// operation stays resolvable (content and commitments as if it had been stored) until the ledger delivers it again
			sr := r.Split("store-fault")
			pl.ledger.storeFault = func() bool {
				if !sr.Chance(1, 3) {
					return false
				}
				pl.store.PutErr = func(int, []*operation.AnchoredOperation) error { return fmt.Errorf("injected operation store failure") }
				c.Count("fault:operation_store_put_failed")
				return true
			}
			pl.ledger.afterFailedDelivery = func() {
				pl.store.PutErr = nil
				note("operation store failed during a notification")
				light = true
				if ok && !compareAll(false) {
					ok = false
				}
				light = false
			}
		}
		pl.cas.WriteErr = func(int, []byte) error {
			if fire("cas_write") {
				return fmt.Errorf("injected CAS write failure")
			}
			return nil
		}
		for k := 0; k < nOps; k++ {
			di := r.Intn(nDIDs)
			if r.Chance(1, 3) && di > 0 {
				di = 0 // one hot DID -> several operations of one DID per batch (deferral)
			}
			if !submitOne(r, di) {
				return
			}
			if r.Chance(1, 3) {
				force := r.Chance(2, 3)
				before := pl.q.Len()
				if faults && r.Chance(1, 3) {
					armed, during = hx.Pick(r, []string{"cas_write", "anchor_write"}), r.Bool()
				}
				pending := pl.w.VerifProcessAvailable(force)
				wasArmed := armed
				armed = ""
				if !ok {
					return
				}
				note("tick force=%v: queue %d -> %d, ledger time %d (fault armed and not reached: %q)", force, before, pending, pl.ledger.Now(), wasArmed)
				if force && pending > 0 && before > 0 {
					c.Count("batches_with_deferral")
				}
				if r.Chance(2, 3) {
					pl.ledger.observe()
					note("observed")
					if !ok || !compareAll(false) {
						return
					}
				}
			}
		}
		// bounded drain: every accepted operation must be anchored within (total accepted + 1) timeout ticks
		total := 0
		for _, pd := range dids {
			if pd != nil {
				total += len(pd.accepted)
			}
		}
		for k := 0; k <= total && pl.q.Len() > 0; k++ {
			pl.w.VerifProcessAvailable(true)
		}
		if pl.q.Len() != 0 {
			fail(fmt.Sprintf("queue still holds %d operations after %d timeout ticks", pl.q.Len(), total+1), nil)
			return
		}
		pl.ledger.observe()
		if !ok {
			return
		}
		// with an unpublished store every anchored op must have been removed from it
		if pl.useUnpub && pl.unpub.Len() != 0 {
			fail(fmt.Sprintf("%d operations remain in the unpublished-operation store after everything was anchored and observed", pl.unpub.Len()), nil)
			return
		}
		pl.useUnpub = false // from here on only anchored operations count
		if !compareAll(true) {
			return
		}
	} else {
		// ---- concurrent slice: submitters and resolvers in goroutines; judged at quiescence only
		pl.w.Start()
		var wg sync.WaitGroup
		var failed int32
		for di := 0; di < nDIDs; di++ {
			wg.Add(1)
			rr := r.Split(fmt.Sprint("sub", di))
			go func(di int) {
				defer wg.Done()
				for k := 0; k < 2+rr.Intn(5); k++ {
					if !submitOne(rr, di) {
						atomic.StoreInt32(&failed, 1)
						return
					}
					time.Sleep(time.Duration(rr.Intn(4000)) * time.Microsecond)
				}
			}(di)
		}
		stopRes := make(chan struct{})
		for g := 0; g < 2; g++ {
			wg.Add(1)
			go func() {
				defer wg.Done()
				for {
					select {
					case <-stopRes:
						return
					default:
					}
					amu.Lock()
					var cur []*pipeDID
					for _, pd := range dids {
						if pd != nil {
							cur = append(cur, pd)
						}
					}
					amu.Unlock()
					for _, pd := range cur {
						_, _ = pl.dh.ResolveDocument(pd.did)
					}
					time.Sleep(500 * time.Microsecond)
				}
			}()
		}
		time.Sleep(30 * time.Millisecond)
		close(stopRes)
		wg.Wait()
		if atomic.LoadInt32(&failed) == 1 {
			pl.w.Stop()
			return
		}
		// quiescence: every accepted operation anchored (counts from the anchor strings), queue empty; generous watchdog
		totalAccepted := func() int {
			amu.Lock()
			defer amu.Unlock()
			n := 0
			for _, pd := range dids {
				if pd != nil {
					n += len(pd.accepted)
				}
			}
			return n
		}
		anchoredCount := func() int {
			pl.ledger.mu.Lock()
			defer pl.ledger.mu.Unlock()
			n := 0
			for _, t := range pl.ledger.all {
				var k int
				fmt.Sscan(strings.SplitN(t.AnchorString, ".", 2)[0], &k)
				n += k
			}
			return n
		}
		deadline := time.Now().Add(120 * time.Second)
		for (pl.q.Len() > 0 || anchoredCount() < totalAccepted()) && time.Now().Before(deadline) {
			time.Sleep(2 * time.Millisecond)
		}
		drained := pl.q.Len() == 0 && anchoredCount() >= totalAccepted()
		pl.w.Stop()
		time.Sleep(5 * time.Millisecond)
		if !drained {
			c.Inconclusive("concurrent run %d did not drain within the watchdog (queue %d, anchored %d of %d)", ri, pl.q.Len(), anchoredCount(), totalAccepted())
			return
		}
		pl.ledger.direct = false
		pl.ledger.observe() // sentinel only: waits for the observer to be idle
		if pl.useUnpub && pl.unpub.Len() != 0 {
			// an operation may have been accepted while its batch was in flight; give the observer one more round
			time.Sleep(10 * time.Millisecond)
		}
		pl.useUnpub = false
		if !compareAll(true) {
			return
		}
		c.Count("runs:concurrent")
	}
	if twoVers {
		c.Count("runs:two-versions")
	}
	if pl.label != "" {
		c.Count("runs_with_label")
	}
	if useUnpub {
		c.Count("runs:unpublished-store")
	}
	c.Count("runs_ok")
	if ri < 2 {
		tmu.Lock()
		c.Sample(2, map[string]interface{}{"run": tag, "trace_head": trace[:minInt(len(trace), 12)]})
		tmu.Unlock()
	}
}

// versionBoundaryScenarios scripts the situation in which the queue holds operations of an older protocol version BEHIND
// operations of a newer one: two operations of one DID are accepted under version 0; a full batch of other operations is
// anchored and moves the ledger clock past the genesis time of version 500; an operation is accepted under version 500; the
// version-0 pair is cut, the second one is deferred and re-queued behind the version-500 operation; one more version-500
// operation is accepted. Every tick kind (monitor / timeout) at every point is enumerated. Oracle: every accepted operation
// is anchored exactly once, in a transaction stamped with the version it was accepted under, and every DID resolves.
func versionBoundaryScenarios(c *hx.Ctx) {
	rng := c.Rng("version-boundary")
	for variant := 0; variant < 16; variant++ {
		r := rng.Split(fmt.Sprint(variant))
		step := uint64(5)
		pl, err := newPipeline(r.Split("pl"), true, false, false, &pipeFix{max0: 3, max1: 3, step: func() uint64 { return step }})
		if err != nil {
			c.Inconclusive("pipeline: %v", err)
			return
		}
		c.Eval()
		var trace []string
		note := func(f string, a ...interface{}) { trace = append(trace, fmt.Sprintf(f, a...)) }
		bad := func(what string) {
			c.Violation(fmt.Sprintf("C20 %s :: version-boundary scenario %d", what, variant), map[string]interface{}{"trace": trace, "variant": variant})
		}
		acceptedVer := map[string]uint64{} // canonical request -> version in force at acceptance
		label := map[string]string{}
		submit := func(name string, req []byte) bool {
			cur, _ := pl.pc.Current()
			ver := cur.Protocol().GenesisTime
			vt := ver
			if variant&1 == 1 {
				vt = pl.ledger.Now()
			}
			_, err := pl.dh.ProcessOperation(req, vt)
			note("submit %s under v%d -> %v", name, ver, err)
			if err != nil {
				bad("scripted operation " + name + " was refused: " + err.Error())
				return false
			}
			acceptedVer[canonReq(req)], label[canonReq(req)] = ver, name
			return true
		}
		newDID := func(name string) (*CDid, bool) {
			d, b, err := NewCDid(r.Split(name), ref.SHA256, []string{"P-256"}, 300, false, []interface{}{patchAddKeys(genKeyEntry(r, "k1"))}, nil, "o", "")
			if err != nil {
				panic(err)
			}
			d.Suffix = suffixOf(b.Req, ref.SHA256)
			return d, submit("create-"+name, b.Req)
		}
		tick := func(force bool) {
			before := pl.q.Len()
			pl.w.VerifProcessAvailable(force)
			note("tick force=%v: queue %d -> %d, ledger time %d", force, before, pl.q.Len(), pl.ledger.Now())
		}
		ok := func() bool {
			// phase 0: DID A exists and is anchored (version 0)
			a, fine := newDID("A")
			if !fine {
				return false
			}
			tick(true)
			pl.ledger.observe()
			// phase 1: a full batch of creates, then two updates of A, all under version 0
			for _, n := range []string{"X1", "X2", "X3"} {
				if _, fine := newDID(n); !fine {
					return false
				}
			}
			svc := func(id string) []interface{} {
				return []interface{}{patchAddServices(svcEntry(id, "t", "https://e.example/"+id))}
			}
			u1, _ := a.Update(svc("one"), 0, 0)
			u2, _ := a.Update(svc("two"), 0, 0)
			if !submit("A-update-1", u1.Req) || !submit("A-update-2", u2.Req) {
				return false
			}
			step = 600  // the next anchored batch moves the ledger clock past the genesis time of version 500
			tick(false) // monitor tick: cuts exactly the full batch [X1 X2 X3]
			step = 5
			if pl.ledger.Now() < 500 {
				bad("scenario defect: the ledger clock did not cross the version boundary")
				return false
			}
			// phase 2: version 500 is in force; B is accepted under it while A's updates (version 0) are still queued
			if _, fine := newDID("B"); !fine {
				return false
			}
			tick(variant&2 != 0) // cuts the version-0 pair; A-update-2 is deferred and re-queued behind B
			if _, fine := newDID("C"); !fine {
				return false
			}
			if variant&4 != 0 {
				if _, fine := newDID("D"); !fine {
					return false
				}
			}
			if pl.q.Len() >= 3 {
				c.Count("version_boundary_scenarios_with_old_version_operation_behind_new_one")
			}
			tick(variant&8 != 0)
			for k := 0; k < 8 && pl.q.Len() > 0; k++ {
				tick(true)
			}
			if pl.q.Len() != 0 {
				bad(fmt.Sprintf("queue still holds %d operations after the bounded drain", pl.q.Len()))
				return false
			}
			pl.ledger.observe()
			return true
		}()
		if ok {
			// every accepted operation anchored exactly once, under the version it was accepted under
			seen := map[string]int{}
			pl.ledger.mu.Lock()
			all := append([]txn.SidetreeTxn{}, pl.ledger.all...)
			pl.ledger.mu.Unlock()
			for _, t := range all {
				v, _ := pl.pc.Get(t.ProtocolVersion)
				ops, err := v.OperationProvider().GetTxnOperations(&t)
				if err != nil {
					bad(fmt.Sprintf("anchored transaction %s cannot be read back under its stamped version %d: %v", t.CanonicalReference, t.ProtocolVersion, err))
					ok = false
					break
				}
				for _, o := range ops {
					k := canonReq(o.OperationRequest)
					seen[k]++
					if av, known := acceptedVer[k]; known && av != t.ProtocolVersion {
						bad(fmt.Sprintf("operation %s was accepted under protocol version %d but batched and anchored in a transaction stamped with version %d", label[k], av, t.ProtocolVersion))
						ok = false
					}
				}
			}
			for k, name := range label {
				if ok && seen[k] != 1 {
					bad(fmt.Sprintf("operation %s anchored %d times (expected exactly once)", name, seen[k]))
					ok = false
				}
			}
		}
		pl.obs.Stop()
		if !ok {
			return
		}
		c.Count("version_boundary_scenarios")
		c.Distinct(fmt.Sprintf("version-boundary-%d", variant))
	}
}
