package main

import (
	"bytes"
	"compress/gzip"
	"encoding/json"
	"errors"
	"fmt"
	"io"
	"sort"
	"strings"
	"time"

	"github.com/trustbloc/sidetree-core-go/pkg/api/operation"
	"github.com/trustbloc/sidetree-core-go/pkg/api/protocol"
	"github.com/trustbloc/sidetree-core-go/pkg/api/txn"
	"github.com/trustbloc/sidetree-core-go/pkg/versions/1_0/model"
	"github.com/trustbloc/sidetree-core-go/pkg/versions/1_0/txnprovider"

	"verifharness/hx"
	"verifharness/ref"
)

func init() {
	register("C14", "exploration", checkC14)
	workers["provider"] = func(args []string) { hx.ServeWorker(args[0], probed(providerCall, providerProbe)) }
}

type provCase struct {
	Proto    protocol.Protocol `json:"proto"`
	Anchor   string            `json:"anchor"`
	Files    map[string]string `json:"files"`     // uri -> base64url(compressed bytes), primary CAS
	AltFiles map[string]string `json:"alt_files"` // "source|uri" -> bytes, alternate sources
	Sources  []string          `json:"sources"`
	FailURIs []string          `json:"fail_uris"` // primary reads that fail
}

type provOp struct {
	Type    string `json:"type"`
	Suffix  string `json:"suffix"`
	Request string `json:"request"`
	Problem string `json:"problem,omitempty"` // filled by the worker: library's own validation of the returned op
}

type mapCAS struct {
	m    map[string][]byte
	fail map[string]bool
}

func (c *mapCAS) Read(uri string) ([]byte, error) {
	if c.fail[uri] {
		return nil, errors.New("injected CAS read failure")
	}
	b, ok := c.m[uri]
	if !ok {
		return nil, errors.New("not found")
	}
	return b, nil
}
func (c *mapCAS) Write([]byte) (string, error) { return "", errors.New("read only") }

func providerCall(p []byte) (reply []byte) {
	defer func() {
		if r := recover(); r != nil {
			reply = []byte(fmt.Sprintf("PANIC:%v", r))
		}
	}()
	var c provCase
	if err := json.Unmarshal(p, &c); err != nil {
		return []byte("SKIP:" + err.Error())
	}
	cas := &mapCAS{m: map[string][]byte{}, fail: map[string]bool{}}
	for u, b := range c.Files {
		cas.m[u], _ = ref.UnB64(b)
	}
	for u, b := range c.AltFiles {
		cas.m[u], _ = ref.UnB64(b)
	}
	for _, u := range c.FailURIs {
		cas.fail[u] = true
	}
	v := hx.NewVersion(c.Proto, hx.VersionOpts{CAS: cas, ProviderOpts: []txnprovider.Opt{txnprovider.WithSourceCASURIFormatter(func(uri, source string) (string, error) {
		if source == "bad-source" {
			return "", errors.New("cannot format")
		}
		return source + "|" + uri, nil
	})}})
	ops, err := v.Provider.GetTxnOperations(&txn.SidetreeTxn{AnchorString: c.Anchor, Namespace: hx.Namespace, TransactionTime: 7, TransactionNumber: 1, AlternateSources: c.Sources})
	if err != nil {
		return []byte("ERR:" + err.Error())
	}
	out := make([]provOp, len(ops))
	for i, o := range ops {
		out[i] = provOp{Type: string(o.Type), Suffix: o.UniqueSuffix, Request: ref.B64(o.OperationRequest)}
		out[i].Problem = libValidate(v, o)
	}
	b, _ := json.Marshal(out)
	return append([]byte("OK:"), b...)
}

// libValidate re-validates a returned operation with the library's own validators: validated delta, parseable signed data.
func libValidate(v *hx.Version, o *operation.AnchoredOperation) string {
	var req struct {
		Delta      *model.DeltaModel      `json:"delta"`
		SignedData string                 `json:"signedData"`
		SuffixData *model.SuffixDataModel `json:"suffixData"`
	}
	if err := json.Unmarshal(o.OperationRequest, &req); err != nil {
		return "returned operation's request is not JSON: " + err.Error()
	}
	if o.Type != operation.TypeDeactivate {
		if err := v.Parser.ValidateDelta(req.Delta); err != nil {
			return "returned operation carries a delta that fails validation: " + err.Error()
		}
	}
	var err error
	switch o.Type {
	case operation.TypeCreate:
		err = v.Parser.ValidateSuffixData(req.SuffixData)
	case operation.TypeUpdate:
		_, err = v.Parser.ParseSignedDataForUpdate(req.SignedData)
	case operation.TypeRecover:
		_, err = v.Parser.ParseSignedDataForRecover(req.SignedData)
	case operation.TypeDeactivate:
		_, err = v.Parser.ParseSignedDataForDeactivate(req.SignedData)
	default:
		return "returned operation has unknown type " + string(o.Type)
	}
	if err != nil {
		return "returned operation carries unparseable signed data / suffix data: " + err.Error()
	}
	if o.Type != operation.TypeCreate {
		// independent of the library's parser: the payload of the compact JWS is one JSON object and nothing else
		parts := strings.Split(req.SignedData, ".")
		if len(parts) != 3 {
			return "returned operation carries signed data that is not a compact JWS"
		}
		payload, derr := ref.UnB64(parts[1])
		var obj map[string]interface{}
		if derr != nil || json.Unmarshal(payload, &obj) != nil || obj == nil {
			return "returned operation carries signed data whose payload is not a JSON object document: " + trunc600(string(payload))
		}
	}
	return ""
}

// withPayloadTrailer appends bytes to the decoded payload of a compact JWS (signatures are not checked when batch files are read).
func withPayloadTrailer(entry interface{}, trailer string) interface{} {
	parts := strings.Split(fmt.Sprint(entry), ".")
	if len(parts) != 3 {
		return entry
	}
	payload, _ := ref.UnB64(parts[1])
	return parts[0] + "." + ref.B64(append(payload, trailer...)) + "." + parts[2]
}

// ---------- file sets ----------

// fileSet is a decoded batch file set with harness-chosen URIs.
type fileSet struct {
	Anchor string
	Trees  map[string]interface{} // role -> JSON tree (roles: core-index, core-proof, prov-index, prov-proof, chunk)
	URI    map[string]string
	Count  int
}

func gunzip(b []byte) []byte {
	zr, err := gzip.NewReader(bytes.NewReader(b))
	if err != nil {
		return nil
	}
	out, _ := io.ReadAll(zr)
	return out
}

func gz(b []byte, level int) []byte {
	var buf bytes.Buffer
	zw, _ := gzip.NewWriterLevel(&buf, level)
	_, _ = zw.Write(b)
	_ = zw.Close()
	return buf.Bytes()
}

// newFileSet runs the REAL handler on a batch and decodes what it wrote.
func newFileSet(p protocol.Protocol, batch []*batchOp) (*fileSet, error) {
	cas := hx.NewMemCAS()
	v := hx.NewVersion(p, hx.VersionOpts{CAS: cas})
	q := make([]*operation.QueuedOperation, len(batch))
	for i, b := range batch {
		q[i] = b.queued()
	}
	info, err := v.Handler.PrepareTxnFiles(q)
	if err != nil {
		return nil, err
	}
	fs := &fileSet{Trees: map[string]interface{}{}, URI: map[string]string{}}
	parts := strings.SplitN(info.AnchorString, ".", 2)
	fmt.Sscan(parts[0], &fs.Count)
	get := func(uri string) map[string]interface{} {
		var t map[string]interface{}
		_ = json.Unmarshal(gunzip(cas.M[uri]), &t)
		return t
	}
	ci := get(parts[1])
	fs.Trees["core-index"], fs.URI["core-index"] = ci, "uri-core-index"
	if u, _ := ci["coreProofFileUri"].(string); u != "" {
		fs.Trees["core-proof"], fs.URI["core-proof"] = get(u), "uri-core-proof"
		ci["coreProofFileUri"] = "uri-core-proof"
	}
	if u, _ := ci["provisionalIndexFileUri"].(string); u != "" {
		pi := get(u)
		fs.Trees["prov-index"], fs.URI["prov-index"] = pi, "uri-prov-index"
		ci["provisionalIndexFileUri"] = "uri-prov-index"
		if pu, _ := pi["provisionalProofFileUri"].(string); pu != "" {
			fs.Trees["prov-proof"], fs.URI["prov-proof"] = get(pu), "uri-prov-proof"
			pi["provisionalProofFileUri"] = "uri-prov-proof"
		}
		if chunks, _ := pi["chunks"].([]interface{}); len(chunks) > 0 {
			ch := chunks[0].(map[string]interface{})
			fs.Trees["chunk"], fs.URI["chunk"] = get(ch["chunkFileUri"].(string)), "uri-chunk"
			ch["chunkFileUri"] = "uri-chunk"
		}
	}
	fs.Anchor = fmt.Sprintf("%d.uri-core-index", fs.Count)
	return fs, nil
}

func (fs *fileSet) clone() *fileSet {
	n := &fileSet{Anchor: fs.Anchor, Count: fs.Count, Trees: map[string]interface{}{}, URI: map[string]string{}}
	for k, v := range fs.Trees {
		n.Trees[k] = ref.CopyTree(v)
	}
	for k, v := range fs.URI {
		n.URI[k] = v
	}
	return n
}

// encode renders the file set into CAS content; raw overrides give byte-level control per role.
func (fs *fileSet) encode(raw map[string][]byte) map[string]string {
	out := map[string]string{}
	for role, t := range fs.Trees {
		if b, ok := raw[role]; ok {
			out[fs.URI[role]] = ref.B64(b)
			continue
		}
		out[fs.URI[role]] = ref.B64(gz(ref.MustJCS(t), gzip.DefaultCompression))
	}
	return out
}

func limitFor(p protocol.Protocol, role string) uint {
	switch role {
	case "core-index":
		return p.MaxCoreIndexFileSize
	case "core-proof", "prov-proof":
		return p.MaxProofFileSize
	case "prov-index":
		return p.MaxProvisionalIndexFileSize
	}
	return p.MaxChunkFileSize
}

// storedGzipOfSize returns a gzip stream of exactly `size` bytes (stored blocks) whose content is the JSON tree
// padded with insignificant whitespace.
func storedGzipOfSize(tree interface{}, size int) []byte {
	js := ref.MustJCS(tree)
	base := len(gz(js, gzip.NoCompression))
	for pad := size - base - 16; pad <= size-base+16; pad++ {
		if pad < 0 {
			continue
		}
		content := append(append([]byte{}, js[:len(js)-1]...), append(bytes.Repeat([]byte{' '}, pad), js[len(js)-1])...)
		if b := gz(content, gzip.NoCompression); len(b) == size {
			return b
		}
	}
	return nil
}

// paddedToDecompressedSize returns a well-compressed gzip stream whose decompressed size is exactly n.
func paddedToDecompressedSize(tree interface{}, n int) []byte {
	js := ref.MustJCS(tree)
	if n < len(js) {
		return nil
	}
	content := append(append([]byte{}, js[:len(js)-1]...), append(bytes.Repeat([]byte{' '}, n-len(js)), js[len(js)-1])...)
	return gz(content, gzip.BestCompression)
}

func c14Proto() protocol.Protocol {
	p := hx.BaseProtocol()
	p.MaxOperationSize, p.MaxDeltaSize = 20000, 8000
	p.MaxCoreIndexFileSize, p.MaxProofFileSize, p.MaxProvisionalIndexFileSize, p.MaxChunkFileSize = 3000, 6500, 3300, 9000
	p.MaxMemoryDecompressionFactor = 3
	p.MaxCasURILength = 40
	p.MaxOperationCount = 12
	return p
}

// deltaOK is the independent delta predicate (subset of C10/C18): non-empty enabled patches, allowed commitment, size.
func deltaOK(p protocol.Protocol, d map[string]interface{}) string {
	if d == nil {
		return "missing delta"
	}
	patches, _ := d["patches"].([]interface{})
	if len(patches) == 0 {
		return "missing patches"
	}
	for _, pt := range patches {
		pm, _ := pt.(map[string]interface{})
		act, _ := pm["action"].(string)
		if !containsS(p.Patches, act) {
			return "patch action '" + act + "' not enabled"
		}
	}
	uc, _ := d["updateCommitment"].(string)
	code, _, err := ref.DecodeMultihash(uc)
	if err != nil || !containsU(p.MultihashAlgorithms, code) || len(uc) > int(p.MaxOperationHashLength) {
		return "update commitment is not an allowed multihash"
	}
	if n := len(ref.MustJCS(map[string]interface{}{"patches": patches, "updateCommitment": uc})); n > int(p.MaxDeltaSize) {
		return "delta too large"
	}
	return ""
}

func checkC14(c *hx.Ctx) {
	c.Rule("valid batch file sets produced by the REAL OperationHandler (all type mixes) are decoded and mutated: structural (entries dropped / duplicated / retargeted between roles, nulls, type confusion, counts skewed between every pair of files, references removed or added), byte-level on compressed and on decompressed-recompressed content, count skews by one and superfluous (empty) proof files on every batch shape (update-free and update-only batches included), multi-member gzip files (padding member past the decompressed limit, second document, trailing bytes), exact size attacks (stored-block gzip of exactly limit / limit+1 bytes; decompressed size exactly limit*factor / +1; compression bombs), CAS URI length at / past the limit, arbitrary anchor strings, primary CAS read failures with 0-3 alternate sources; oracle: GetTxnOperations never panics; on success the number of operations equals the anchor count, suffixes are pairwise distinct, every returned operation passes the library's own batch-mode parse / ValidateDelta / signed-data parse, an independent check that the signed payload is one JSON object and nothing else, and an independent delta predicate; inputs built to break a stated limit or consistency rule must be rejected and the ones exactly at a limit accepted; crash-isolated workers under ulimit -v; non-trivial = mutated file set; distinct = distinct (files, anchor) inputs")
	pool := hx.NewPool(c, "provider", 16, 6*1024*1024, 60*time.Second)
	defer pool.Close()
	p := c14Proto()
	rng := c.Rng("pool")
	bp := batchPool(rng, ref.SHA256, 8, false)
	// base file sets of different shapes
	shapes := [][]string{
		{"create", "update", "recover", "deactivate"}, {"create", "create", "update", "update", "recover", "deactivate", "deactivate"},
		{"update"}, {"deactivate"}, {"deactivate", "deactivate"}, {"create"}, {"recover"}, {"update", "update", "update"},
		{"create", "recover"}, {"recover", "deactivate"}, {"create", "update"}, {"update", "deactivate"},
	}
	var bases []*fileSet
	for _, sh := range shapes {
		var b []*batchOp
		for i, t := range sh {
			for _, o := range bp[i] {
				if o.Type == t && o.Until == 0 {
					b = append(b, o)
					break
				}
			}
		}
		fs, err := newFileSet(p, b)
		if err != nil {
			c.Inconclusive("cannot build base file set %v: %v", sh, err)
			return
		}
		bases = append(bases, fs)
	}
	type result struct {
		st  string
		msg string
		ops []provOp
	}
	run := func(pc provCase) (result, bool) {
		b, _ := json.Marshal(pc)
		reply, crash := pool.Call(b)
		if crash != nil {
			c.Violation("C14 GetTxnOperations crashed the process: "+crash.CrashSig(), map[string]interface{}{"case": pc, "stderr": crash.Detail})
			return result{}, false
		}
		i := strings.IndexByte(string(reply), ':')
		r := result{st: string(reply[:i]), msg: string(reply[i+1:])}
		if r.st == "PANIC" {
			c.Violation("C14 GetTxnOperations panicked: "+r.msg, map[string]interface{}{"case": pc})
			return r, false
		}
		if r.st == "OK" {
			_ = json.Unmarshal([]byte(r.msg), &r.ops)
		}
		return r, true
	}
	// invariants on success
	checkSuccess := func(pc provCase, r result, what string) bool {
		var count int
		fmt.Sscan(strings.SplitN(pc.Anchor, ".", 2)[0], &count)
		if len(r.ops) != count {
			c.Violation(fmt.Sprintf("C14 returned %d operations but the anchor string says %d (%s)", len(r.ops), count, what), map[string]interface{}{"case": pc})
			return false
		}
		seen := map[string]bool{}
		for _, o := range r.ops {
			if seen[o.Suffix] {
				c.Violation("C14 returned operations share the suffix "+o.Suffix+" ("+what+")", map[string]interface{}{"case": pc, "ops": r.ops})
				return false
			}
			seen[o.Suffix] = true
			if o.Problem != "" {
				c.Violation("C14 "+o.Problem+" ("+what+")", map[string]interface{}{"case": pc, "ops": r.ops})
				return false
			}
			if o.Type != "deactivate" {
				raw, _ := ref.UnB64(o.Request)
				var m map[string]interface{}
				_ = json.Unmarshal(raw, &m)
				d, _ := m["delta"].(map[string]interface{})
				if why := deltaOK(pc.Proto, d); why != "" {
					c.Violation("C14 returned operation carries a delta the independent predicate rejects: "+why+" ("+what+")", map[string]interface{}{"case": pc, "ops": r.ops})
					return false
				}
			}
		}
		return true
	}
	either := func(fs *fileSet, raw map[string][]byte, what string, extra func(pc *provCase)) bool {
		c.Eval()
		pc := provCase{Proto: p, Anchor: fs.Anchor, Files: fs.encode(raw)}
		if extra != nil {
			extra(&pc)
		}
		r, ok := run(pc)
		if !ok {
			return false
		}
		cl := what
		if i := strings.IndexByte(what, ':'); i > 0 {
			cl = what[:i]
		}
		c.Count("outcome_" + r.st + ":" + cl)
		if r.st == "ERR" {
			cls := r.msg
			if len(cls) > 40 {
				cls = cls[:40]
			}
			c.Count("errclass:" + cls)
		}
		c.Distinct(what + "|" + pc.Anchor + "|" + fmt.Sprint(len(pc.Files)) + "|" + hashFiles(pc.Files))
		if r.st == "OK" {
			return checkSuccess(pc, r, what)
		}
		return true
	}
	must := func(fs *fileSet, raw map[string][]byte, what string, accept bool, extra func(pc *provCase)) bool {
		c.Eval()
		pc := provCase{Proto: p, Anchor: fs.Anchor, Files: fs.encode(raw)}
		if extra != nil {
			extra(&pc)
		}
		r, ok := run(pc)
		if !ok {
			return false
		}
		if (r.st == "OK") != accept {
			c.Violation(fmt.Sprintf("C14 %s: expected accepted=%v, got %s %s", what, accept, r.st, trunc600(r.msg)), map[string]interface{}{"case": pc, "what": what})
			return false
		}
		cl := what
		if i := strings.IndexByte(what, ':'); i > 0 {
			cl = what[:i]
		}
		c.Count(fmt.Sprintf("must_%v:%s", accept, cl))
		c.Distinct("must|" + what)
		if r.st == "OK" {
			return checkSuccess(pc, r, what)
		}
		return true
	}

	// ---------- sanity: every base set reads back
	for bi, fs := range bases {
		if !must(fs, nil, fmt.Sprintf("valid-file-set:%v", shapes[bi]), true, nil) {
			return
		}
	}
	c.Sample(2, map[string]interface{}{"anchor": bases[0].Anchor, "core_index": bases[0].Trees["core-index"], "prov_index": bases[0].Trees["prov-index"]})

	// ---------- limits, exactly at and one past
	for bi, fs := range bases[:2] {
		for role, tree := range fs.Trees {
			lim := int(limitFor(p, role))
			at, past := storedGzipOfSize(tree, lim), storedGzipOfSize(tree, lim+1)
			if at == nil || past == nil {
				c.Inconclusive("cannot build stored gzip of exact size for %s", role)
				continue
			}
			if !must(fs, map[string][]byte{role: at}, fmt.Sprintf("file-size-at-limit:%s base%d", role, bi), true, nil) ||
				!must(fs, map[string][]byte{role: past}, fmt.Sprintf("file-size-past-limit:%s base%d", role, bi), false, nil) {
				return
			}
			dl := lim * int(p.MaxMemoryDecompressionFactor)
			if !must(fs, map[string][]byte{role: paddedToDecompressedSize(tree, dl)}, fmt.Sprintf("decompressed-size-at-limit:%s base%d", role, bi), true, nil) ||
				!must(fs, map[string][]byte{role: paddedToDecompressedSize(tree, dl+1)}, fmt.Sprintf("decompressed-size-past-limit:%s base%d", role, bi), false, nil) {
				return
			}
			// compression bomb (still below the compressed limit)
			bomb := 8 << 20
			if c.Thorough() {
				bomb = 64 << 20
			}
			if !must(fs, map[string][]byte{role: paddedToDecompressedSize(tree, bomb)}, fmt.Sprintf("compression-bomb:%s base%d", role, bi), false, nil) {
				return
			}
			// same oversize file served by an alternate source after a primary read failure
			if !must(fs, nil, fmt.Sprintf("file-size-past-limit-from-alternate-source:%s base%d", role, bi), false, func(pc *provCase) {
				pc.FailURIs = []string{fs.URI[role]}
				pc.Sources = []string{"alt1"}
				pc.AltFiles = map[string]string{"alt1|" + fs.URI[role]: ref.B64(past)}
			}) {
				return
			}
			if !must(fs, nil, fmt.Sprintf("file-size-at-limit-from-alternate-source:%s base%d", role, bi), true, func(pc *provCase) {
				pc.FailURIs = []string{fs.URI[role]}
				pc.Sources = []string{"bad-source", "alt0", "alt1"}
				pc.AltFiles = map[string]string{"alt1|" + fs.URI[role]: ref.B64(at)}
			}) {
				return
			}
		}
		// CAS URI length
		for _, role := range []string{"core-proof", "prov-index", "prov-proof", "chunk"} {
			if _, ok := fs.Trees[role]; !ok {
				continue
			}
			for _, d := range []int{0, 1} {
				n := fs.clone()
				long := strings.Repeat("u", int(p.MaxCasURILength)+d)
				retarget(n, role, long)
				if !must(n, nil, fmt.Sprintf("cas-uri-length-%d-vs-%d:%s", len(long), p.MaxCasURILength, role), d == 0, nil) {
					return
				}
			}
		}
	}
	// ---------- CAS URI length on every batch shape (update-free shapes take another path through the provisional index)
	for bi, fs := range bases {
		for _, role := range []string{"core-proof", "prov-index", "prov-proof", "chunk"} {
			if _, ok := fs.Trees[role]; !ok {
				continue
			}
			for _, d := range []int{0, 1} {
				n := fs.clone()
				long := strings.Repeat("v", int(p.MaxCasURILength)+d)
				retarget(n, role, long)
				if !must(n, nil, fmt.Sprintf("cas-uri-length-per-shape-%d-vs-%d:%s %v", len(long), p.MaxCasURILength, role, shapes[bi]), d == 0, nil) {
					return
				}
			}
		}
	}
	// ---------- CAS URI length is a length in bytes: references with multi-byte characters, within the limit counted in
	// characters and beyond it counted in bytes
	for bi, fs := range bases[:4] {
		for _, role := range []string{"core-proof", "prov-index", "prov-proof", "chunk"} {
			if _, ok := fs.Trees[role]; !ok {
				continue
			}
			for _, d := range []int{0, 1} {
				n := fs.clone()
				// (limit/3)+d three-byte characters: limit/3 of them fit the 40-byte limit only when 3*(limit/3) <= limit
				long := strings.Repeat("\u6587", int(p.MaxCasURILength)/3+d)
				for len(long) < int(p.MaxCasURILength) && d == 0 {
					long += "x"
				}
				retarget(n, role, long)
				if !must(n, nil, fmt.Sprintf("cas-uri-multibyte-%d-bytes-%d-characters-vs-%d:%s base%d", len(long), len([]rune(long)), p.MaxCasURILength, role, bi), len(long) <= int(p.MaxCasURILength), nil) {
					return
				}
			}
		}
	}
	// ---------- highly compressible files: the decompressed-size rule applies to the whole inflated content, however
	// small the compressed file is (valid document followed by blanks beyond limit x factor)
	for bi, fs := range bases[:3] {
		for role, tree := range fs.Trees {
			dl := int(limitFor(p, role)) * int(p.MaxMemoryDecompressionFactor)
			js := ref.MustJCS(tree)
			for _, extra := range []int{1, 5000, 200000} {
				content := append(append([]byte{}, js...), bytes.Repeat([]byte{' '}, dl-len(js)+extra)...)
				comp := gz(content, gzip.BestCompression)
				if len(comp) > int(limitFor(p, role)) {
					continue
				}
				if !must(fs, map[string][]byte{role: comp}, fmt.Sprintf("trailing-blanks-past-decompressed-limit:%s +%d base%d (compressed %d bytes)", role, extra, bi, len(comp)), false, nil) {
					return
				}
			}
		}
	}
	// the same under generous limits (20000 bytes x 3), where a small file followed by blanks compresses several hundred times
	{
		pBig := p
		pBig.MaxCoreIndexFileSize, pBig.MaxProofFileSize, pBig.MaxProvisionalIndexFileSize, pBig.MaxChunkFileSize = 20000, 20000, 20000, 20000
		for bi, fs := range bases {
			for role, tree := range fs.Trees {
				js := ref.MustJCS(tree)
				for _, extra := range []int{1, 60000} {
					content := append(append([]byte{}, js...), bytes.Repeat([]byte{' '}, 60000-len(js)+extra)...)
					comp := gz(content, gzip.BestCompression)
					if !must(fs, map[string][]byte{role: comp}, fmt.Sprintf("trailing-blanks-past-decompressed-limit-generous-limits:%s +%d base%d (compressed %d bytes, ratio %d)", role, extra, bi, len(comp), len(content)/len(comp)), false, func(pc *provCase) { pc.Proto = pBig }) {
						return
					}
				}
				// control: exactly at the limit is fine
				content := append(append([]byte{}, js...), bytes.Repeat([]byte{' '}, 60000-len(js))...)
				if bi < 2 && !must(fs, map[string][]byte{role: gz(content, gzip.BestCompression)}, fmt.Sprintf("trailing-blanks-at-decompressed-limit-generous-limits:%s base%d", role, bi), true, func(pc *provCase) { pc.Proto = pBig }) {
					return
				}
			}
		}
	}
	// ---------- read failures / alternate sources
	for bi, fs := range bases[:4] {
		for role := range fs.Trees {
			role := role
			if !must(fs, nil, fmt.Sprintf("read-failure-no-alternate:%s base%d", role, bi), false, func(pc *provCase) { pc.FailURIs = []string{fs.URI[role]} }) {
				return
			}
			if !must(fs, nil, fmt.Sprintf("read-failure-alternates-without-content:%s base%d", role, bi), false, func(pc *provCase) {
				pc.FailURIs = []string{fs.URI[role]}
				pc.Sources = []string{"alt1", "alt2", "alt3"}
			}) {
				return
			}
			for ns := 1; ns <= 3; ns++ {
				ns := ns
				if !must(fs, nil, fmt.Sprintf("read-failure-served-by-alternate-%d:%s base%d", ns, role, bi), true, func(pc *provCase) {
					pc.FailURIs = []string{fs.URI[role]}
					pc.Sources = []string{"alt1", "alt2", "alt3"}[:ns]
					pc.AltFiles = map[string]string{fmt.Sprintf("alt%d|%s", ns, fs.URI[role]): pc.Files[fs.URI[role]]}
				}) {
					return
				}
			}
		}
	}
	// ---------- consistency rules that must be rejected
	obj := func(t interface{}, path ...string) map[string]interface{} {
		cur, _ := t.(map[string]interface{})
		for _, k := range path {
			cur, _ = cur[k].(map[string]interface{})
		}
		return cur
	}
	arr := func(m map[string]interface{}, k string) []interface{} { a, _ := m[k].([]interface{}); return a }
	full := bases[1]
	type mut struct {
		name string
		f    func(fs *fileSet)
	}
	rejects := []mut{
		{"missing-core-proof-reference", func(fs *fileSet) { delete(obj(fs.Trees["core-index"]), "coreProofFileUri") }},
		{"missing-provisional-proof-reference", func(fs *fileSet) { delete(obj(fs.Trees["prov-index"]), "provisionalProofFileUri") }},
		{"missing-chunk-reference", func(fs *fileSet) { obj(fs.Trees["prov-index"])["chunks"] = []interface{}{} }},
		{"missing-chunks-member", func(fs *fileSet) { delete(obj(fs.Trees["prov-index"]), "chunks") }},
		{"superfluous-core-proof-reference", func(fs *fileSet) {
			o := obj(fs.Trees["core-index"], "operations")
			delete(o, "recover")
			delete(o, "deactivate")
		}},
		{"superfluous-provisional-proof-reference", func(fs *fileSet) { delete(obj(fs.Trees["prov-index"]), "operations") }},
		{"core-proof-recover-count-skewed", func(fs *fileSet) {
			o := obj(fs.Trees["core-proof"], "operations")
			o["recover"] = append(arr(o, "recover"), arr(o, "recover")[0])
		}},
		{"core-proof-deactivate-count-skewed", func(fs *fileSet) {
			o := obj(fs.Trees["core-proof"], "operations")
			o["deactivate"] = arr(o, "deactivate")[1:]
		}},
		{"core-index-recover-count-skewed", func(fs *fileSet) {
			o := obj(fs.Trees["core-index"], "operations")
			o["recover"] = []interface{}{}
		}},
		{"provisional-proof-update-count-skewed", func(fs *fileSet) {
			o := obj(fs.Trees["prov-proof"], "operations")
			o["update"] = arr(o, "update")[:1]
		}},
		{"provisional-index-update-count-skewed", func(fs *fileSet) {
			o := obj(fs.Trees["prov-index"], "operations")
			o["update"] = append(arr(o, "update"), map[string]interface{}{"didSuffix": "EiAextra", "revealValue": "EiAextra"})
		}},
		{"chunk-delta-count-skewed-minus", func(fs *fileSet) { ch := obj(fs.Trees["chunk"]); ch["deltas"] = arr(ch, "deltas")[1:] }},
		{"chunk-delta-count-skewed-plus", func(fs *fileSet) {
			ch := obj(fs.Trees["chunk"])
			ch["deltas"] = append(arr(ch, "deltas"), arr(ch, "deltas")[0])
		}},
		{"create-count-skewed", func(fs *fileSet) {
			o := obj(fs.Trees["core-index"], "operations")
			o["create"] = arr(o, "create")[1:]
		}},
		{"duplicate-suffix-in-core-index", func(fs *fileSet) {
			o := obj(fs.Trees["core-index"], "operations")
			d := arr(o, "deactivate")
			d[1] = d[0]
			cp := obj(fs.Trees["core-proof"], "operations")
			pd := arr(cp, "deactivate")
			pd[1] = pd[0]
		}},
		{"duplicate-suffix-across-index-files", func(fs *fileSet) {
			o := obj(fs.Trees["core-index"], "operations")
			u := arr(obj(fs.Trees["prov-index"], "operations"), "update")
			arr(o, "deactivate")[0].(map[string]interface{})["didSuffix"] = u[0].(map[string]interface{})["didSuffix"]
		}},
		{"duplicate-create-suffix", func(fs *fileSet) {
			o := obj(fs.Trees["core-index"], "operations")
			cr := arr(o, "create")
			cr[1] = cr[0]
			ch := obj(fs.Trees["chunk"])
			dl := arr(ch, "deltas")
			dl[1] = dl[0]
		}},
		{"anchor-count-plus-one", func(fs *fileSet) { fs.Anchor = fmt.Sprintf("%d.%s", fs.Count+1, fs.URI["core-index"]) }},
		{"anchor-count-minus-one", func(fs *fileSet) { fs.Anchor = fmt.Sprintf("%d.%s", fs.Count-1, fs.URI["core-index"]) }},
		{"chunk-delta-null", func(fs *fileSet) { arr(obj(fs.Trees["chunk"]), "deltas")[0] = nil }},
		{"chunk-delta-without-patches", func(fs *fileSet) {
			delete(arr(obj(fs.Trees["chunk"]), "deltas")[0].(map[string]interface{}), "patches")
		}},
		{"chunk-delta-disabled-action", func(fs *fileSet) {
			d := arr(obj(fs.Trees["chunk"]), "deltas")[0].(map[string]interface{})
			d["patches"] = []interface{}{map[string]interface{}{"action": "no-such-action", "x": 1.0}}
		}},
		{"chunk-delta-json-patch-null-path", func(fs *fileSet) {
			d := arr(obj(fs.Trees["chunk"]), "deltas")[0].(map[string]interface{})
			d["patches"] = []interface{}{patchJSON(map[string]interface{}{"op": "add", "path": nil, "value": 1.0})}
		}},
		{"duplicate-suffix-created-in-core-index-updated-in-provisional-index", func(fs *fileSet) {
			cr := arr(obj(fs.Trees["core-index"], "operations"), "create")[0].(map[string]interface{})
			u := arr(obj(fs.Trees["prov-index"], "operations"), "update")
			u[0].(map[string]interface{})["didSuffix"] = ref.HashModel(ref.SHA256, cr["suffixData"])
		}},
		{"duplicate-suffix-created-and-recovered-in-core-index", func(fs *fileSet) {
			cr := arr(obj(fs.Trees["core-index"], "operations"), "create")[0].(map[string]interface{})
			rc := arr(obj(fs.Trees["core-index"], "operations"), "recover")
			rc[0].(map[string]interface{})["didSuffix"] = ref.HashModel(ref.SHA256, cr["suffixData"])
		}},
		{"duplicate-update-suffix-in-provisional-index", func(fs *fileSet) {
			u := arr(obj(fs.Trees["prov-index"], "operations"), "update")
			u[1] = ref.CopyTree(u[0])
			pp := arr(obj(fs.Trees["prov-proof"], "operations"), "update")
			pp[1] = pp[0]
		}},
		{"core-proof-signed-data-garbage", func(fs *fileSet) { arr(obj(fs.Trees["core-proof"], "operations"), "recover")[0] = "a.b.c" }},
		// signed data whose payload is the original JSON object followed by further bytes: not a JSON document, not parseable
		{"core-proof-recover-signed-data-payload-with-trailing-bytes", func(fs *fileSet) {
			a := arr(obj(fs.Trees["core-proof"], "operations"), "recover")
			a[0] = withPayloadTrailer(a[0], "xyz")
		}},
		{"core-proof-deactivate-signed-data-payload-with-second-object", func(fs *fileSet) {
			a := arr(obj(fs.Trees["core-proof"], "operations"), "deactivate")
			a[0] = withPayloadTrailer(a[0], `{"didSuffix":"other"}`)
		}},
		{"provisional-proof-update-signed-data-payload-with-trailing-bytes", func(fs *fileSet) {
			a := arr(obj(fs.Trees["prov-proof"], "operations"), "update")
			a[len(a)-1] = withPayloadTrailer(a[len(a)-1], " ]")
		}},
		{"provisional-proof-signed-data-empty", func(fs *fileSet) { arr(obj(fs.Trees["prov-proof"], "operations"), "update")[0] = "" }},
		{"create-suffix-data-null", func(fs *fileSet) {
			arr(obj(fs.Trees["core-index"], "operations"), "create")[0].(map[string]interface{})["suffixData"] = nil
		}},
		{"create-entry-empty-object", func(fs *fileSet) {
			arr(obj(fs.Trees["core-index"], "operations"), "create")[0] = map[string]interface{}{}
		}},
		{"operation-reference-without-suffix", func(fs *fileSet) {
			delete(arr(obj(fs.Trees["core-index"], "operations"), "recover")[0].(map[string]interface{}), "didSuffix")
		}},
		{"operation-reference-without-reveal-value", func(fs *fileSet) {
			delete(arr(obj(fs.Trees["prov-index"], "operations"), "update")[0].(map[string]interface{}), "revealValue")
		}},
	}
	for _, m := range rejects {
		n := full.clone()
		m.f(n)
		if !must(n, nil, "inconsistent-file-set:"+m.name, false, nil) {
			return
		}
	}
	// JSON patch operations with null members inside chunk deltas: whether they are admitted is not stated; reading them must
	// return (operations that pass the success invariants, or an error) and never panic
	noPanic := []mut{
		{"chunk-delta-json-patch-null-from", func(fs *fileSet) {
			d := arr(obj(fs.Trees["chunk"]), "deltas")[0].(map[string]interface{})
			d["patches"] = []interface{}{patchJSON(map[string]interface{}{"op": "move", "from": nil, "path": "/x"})}
		}},
		{"chunk-delta-json-patch-null-op", func(fs *fileSet) {
			d := arr(obj(fs.Trees["chunk"]), "deltas")[0].(map[string]interface{})
			d["patches"] = []interface{}{patchJSON(map[string]interface{}{"op": nil, "path": "/x", "value": 1.0})}
		}},
		{"chunk-delta-json-patch-null-from-on-copy-after-valid-op", func(fs *fileSet) {
			d := arr(obj(fs.Trees["chunk"]), "deltas")[1].(map[string]interface{})
			d["patches"] = []interface{}{patchJSON(map[string]interface{}{"op": "add", "path": "/x", "value": 1.0}, map[string]interface{}{"op": "copy", "from": nil, "path": "/y"})}
		}},
	}
	for _, m := range noPanic {
		n := full.clone()
		m.f(n)
		if !either(n, nil, "null-member-in-json-patch:"+m.name, nil) {
			return
		}
	}
	// ---------- count rules on every base shape (update-free batches included): chunk deltas / proof entries skewed by one
	for bi, fs := range bases {
		skews := []mut{}
		if _, ok := fs.Trees["chunk"]; ok {
			skews = append(skews, mut{"chunk-delta-count-plus", func(fs *fileSet) {
				ch := obj(fs.Trees["chunk"])
				ch["deltas"] = append(arr(ch, "deltas"), ref.CopyTree(arr(ch, "deltas")[0]))
			}}, mut{"chunk-delta-count-plus-two", func(fs *fileSet) {
				ch := obj(fs.Trees["chunk"])
				ch["deltas"] = append(arr(ch, "deltas"), ref.CopyTree(arr(ch, "deltas")[0]), ref.CopyTree(arr(ch, "deltas")[0]))
			}}, mut{"chunk-delta-count-minus", func(fs *fileSet) { ch := obj(fs.Trees["chunk"]); ch["deltas"] = arr(ch, "deltas")[1:] }})
		}
		for _, role := range []string{"core-proof", "prov-proof"} {
			role := role
			if _, ok := fs.Trees[role]; !ok {
				continue
			}
			for _, kind := range []string{"recover", "deactivate", "update"} {
				kind := kind
				if len(arr(obj(fs.Trees[role], "operations"), kind)) == 0 {
					continue
				}
				skews = append(skews, mut{role + "-" + kind + "-count-plus", func(fs *fileSet) {
					o := obj(fs.Trees[role], "operations")
					o[kind] = append(arr(o, kind), arr(o, kind)[0])
				}}, mut{role + "-" + kind + "-count-minus", func(fs *fileSet) {
					o := obj(fs.Trees[role], "operations")
					o[kind] = arr(o, kind)[1:]
				}})
			}
		}
		for _, m := range skews {
			n := fs.clone()
			m.f(n)
			if !must(n, nil, fmt.Sprintf("count-skew-per-shape:%s %v", m.name, shapes[bi]), false, nil) {
				return
			}
		}
		// a proof file reference that the batch shape does not call for (no recover / deactivate -> no core proof file; no
		// update -> no provisional proof file), pointing to a well-formed proof file without entries
		for _, emptyProof := range []string{`{}`, `{"operations":{}}`, `{"operations":{"recover":[],"deactivate":[],"update":[]}}`} {
			var tree interface{}
			_ = json.Unmarshal([]byte(emptyProof), &tree)
			if _, has := fs.Trees["core-proof"]; !has {
				for _, dropOps := range []bool{false, true} {
					n := fs.clone()
					ci := obj(n.Trees["core-index"])
					ci["coreProofFileUri"] = "uri-core-proof"
					if dropOps {
						if ops, ok := ci["operations"].(map[string]interface{}); ok && len(arr(ops, "create")) > 0 {
							continue // the operations member carries the creates of this shape
						}
						delete(ci, "operations")
					}
					n.Trees["core-proof"], n.URI["core-proof"] = ref.CopyTree(tree), "uri-core-proof"
					if !must(n, nil, fmt.Sprintf("superfluous-proof-reference-per-shape:core %s operations-member-dropped=%v %v", emptyProof, dropOps, shapes[bi]), false, nil) {
						return
					}
				}
			}
			if _, has := fs.Trees["prov-proof"]; !has {
				if _, hasPI := fs.Trees["prov-index"]; hasPI {
					n := fs.clone()
					obj(n.Trees["prov-index"])["provisionalProofFileUri"] = "uri-prov-proof"
					n.Trees["prov-proof"], n.URI["prov-proof"] = ref.CopyTree(tree), "uri-prov-proof"
					if !must(n, nil, fmt.Sprintf("superfluous-proof-reference-per-shape:provisional %s %v", emptyProof, shapes[bi]), false, nil) {
						return
					}
				}
			}
		}
	}
	// ---------- multi-member gzip files: every conforming decoder inflates all members, so the decompressed-size rule and
	// the JSON well-formedness rule apply to the concatenation
	for bi, fs := range bases[:3] {
		for role, tree := range fs.Trees {
			first := gz(ref.MustJCS(tree), gzip.BestCompression)
			dl := int(limitFor(p, role)) * int(p.MaxMemoryDecompressionFactor)
			pad := gz(bytes.Repeat([]byte{' '}, dl+1-len(ref.MustJCS(tree))), gzip.BestCompression)
			cat := func(a, b []byte) []byte { return append(append([]byte{}, a...), b...) }
			if len(first)+len(pad) <= int(limitFor(p, role)) {
				if !must(fs, map[string][]byte{role: cat(first, pad)}, fmt.Sprintf("multi-member-gzip-past-decompressed-limit:%s base%d", role, bi), false, nil) {
					return
				}
			}
			if !must(fs, map[string][]byte{role: cat(first, first)}, fmt.Sprintf("multi-member-gzip-two-documents:%s base%d", role, bi), false, nil) ||
				!must(fs, map[string][]byte{role: cat(first, []byte("trailing garbage after the gzip member"))}, fmt.Sprintf("gzip-member-with-trailing-bytes:%s base%d", role, bi), false, nil) ||
				!must(fs, map[string][]byte{role: cat(first, gz([]byte("x"), gzip.BestSpeed))}, fmt.Sprintf("multi-member-gzip-trailing-text:%s base%d", role, bi), false, nil) {
				return
			}
		}
	}
	// ---------- arbitrary anchor strings
	for _, a := range []string{"", ".", "1", "uri-core-index", "abc.uri-core-index", "0.uri-core-index", "-1.uri-core-index", "07.uri-core-index", "7", "1.2.3", "7.", ".uri-core-index",
		"7 .uri-core-index", " 7.uri-core-index", "7e0.uri-core-index", "+7.uri-core-index", "7.uri-core-index.", "99999999999999999999999.uri-core-index", "7.no-such-file", "7.\x00", "٧.uri-core-index"} {
		n := full.clone()
		n.Anchor = a
		if !must(n, nil, "anchor-string:"+fmt.Sprintf("%q", a), false, nil) {
			return
		}
	}
	// ---------- random structural and byte-level mutants
	nMut := c.N(12000, 600000)
	ms := c.Rng("mut")
	seeds := make([]uint64, 1+nMut/200)
	for i := range seeds {
		seeds[i] = ms.U64()
	}
	hx.Parallel(len(seeds), 16, func(bi int) {
		r := hx.NewRng(seeds[bi], "m")
		for k := 0; k < 200; k++ {
			if c.Violations() > 10 {
				return
			}
			fs := hx.Pick(r, bases).clone()
			roles := make([]string, 0, len(fs.Trees))
			for role := range fs.Trees {
				roles = append(roles, role)
			}
			sort.Strings(roles)
			role := hx.Pick(r, roles)
			raw := map[string][]byte{}
			var what string
			switch r.Intn(7) {
			case 0, 1, 2:
				fs.Trees[role] = mutateTree(r, fs.Trees[role], fs)
				if r.Chance(1, 3) {
					r2 := hx.Pick(r, roles)
					fs.Trees[r2] = mutateTree(r, fs.Trees[r2], fs)
				}
				what = "structural:" + role
			case 3: // byte flips in the compressed stream
				b := gz(ref.MustJCS(fs.Trees[role]), gzip.DefaultCompression)
				for n := 0; n < 1+r.Intn(3); n++ {
					b[r.Intn(len(b))] ^= byte(1 << uint(r.Intn(8)))
				}
				raw[role] = b
				what = "compressed-bytes:" + role
			case 4: // byte-level on decompressed content, recompressed
				js := ref.MustJCS(fs.Trees[role])
				switch r.Intn(3) {
				case 0:
					js[r.Intn(len(js))] = byte(r.U64())
				case 1:
					js = js[:r.Intn(len(js))]
				default:
					o := ref.MustJCS(fs.Trees[hx.Pick(r, roles)])
					cut := r.Intn(len(js))
					js = append(append([]byte{}, js[:cut]...), o[r.Intn(len(o)):]...)
				}
				raw[role] = gz(js, gzip.BestSpeed)
				what = "decompressed-bytes:" + role
			case 5: // files swapped between roles
				r2 := hx.Pick(r, roles)
				fs.Trees[role], fs.Trees[r2] = fs.Trees[r2], fs.Trees[role]
				what = "roles-swapped:" + role
			default: // truncated / garbage / not gzip
				raw[role] = hx.Pick(r, [][]byte{{}, []byte("not gzip"), ref.MustJCS(fs.Trees[role]), gz(nil, gzip.DefaultCompression), gz([]byte("null"), gzip.DefaultCompression),
					gz([]byte("[]"), gzip.DefaultCompression), gz([]byte(`{"operations":null}`), gzip.DefaultCompression), gz([]byte(`{"operations":{"create":[null],"recover":[null],"deactivate":null},"coreProofFileUri":"uri-core-proof"}`), gzip.DefaultCompression),
					gz([]byte(`{"deltas":[null,{"patches":[null]},{"patches":[{"action":"replace","document":null}]}]}`), gzip.DefaultCompression)})
				what = "garbage-file:" + role
			}
			if !either(fs, raw, what, nil) {
				return
			}
		}
	})
	c.Set("worker_crashes", pool.Crashes)
	for _, k := range []string{"must_true:valid-file-set", "must_true:file-size-at-limit", "must_false:file-size-past-limit", "must_true:decompressed-size-at-limit",
		"must_false:decompressed-size-past-limit", "must_false:compression-bomb", "must_false:file-size-past-limit-from-alternate-source", "must_false:read-failure-no-alternate",
		"must_false:inconsistent-file-set", "must_false:anchor-string", "must_false:count-skew-per-shape", "must_false:superfluous-proof-reference-per-shape", "must_false:multi-member-gzip-past-decompressed-limit", "must_false:multi-member-gzip-two-documents", "must_false:trailing-blanks-past-decompressed-limit", "must_false:trailing-blanks-past-decompressed-limit-generous-limits", "outcome_ERR:structural", "outcome_OK:structural"} {
		c.Floor(k, 5)
	}
	c.Floor("must_true:read-failure-served-by-alternate-1", 4)
	c.Floor("must_true:cas-uri-length-40-vs-40", 2)
	c.Floor("must_false:cas-uri-length-41-vs-40", 2)
	c.Floor("must_false:cas-uri-length-per-shape-41-vs-40", 20)
	c.Floor("must_true:cas-uri-length-per-shape-40-vs-40", 20)
}

func hashFiles(m map[string]string) string {
	keys := make([]string, 0, len(m))
	for k := range m {
		keys = append(keys, k)
	}
	sort.Strings(keys)
	var sb strings.Builder
	for _, k := range keys {
		sb.WriteString(k)
		sb.WriteString(m[k])
	}
	return ref.EncMultihash(ref.SHA256, []byte(sb.String()))
}

// retarget changes the URI under which a role is stored and referenced.
func retarget(fs *fileSet, role, uri string) {
	old := fs.URI[role]
	fs.URI[role] = uri
	var walk func(v interface{}) interface{}
	walk = func(v interface{}) interface{} {
		switch t := v.(type) {
		case map[string]interface{}:
			for k, x := range t {
				t[k] = walk(x)
			}
			return t
		case []interface{}:
			for i := range t {
				t[i] = walk(t[i])
			}
			return t
		case string:
			if t == old {
				return uri
			}
		}
		return v
	}
	for r, t := range fs.Trees {
		fs.Trees[r] = walk(t)
	}
}

// mutateTree applies one random structural mutation somewhere in the tree.
func mutateTree(r *hx.Rng, t interface{}, fs *fileSet) interface{} {
	// collect container paths
	type slot struct {
		parent interface{}
		key    string
		idx    int
	}
	var slots []slot
	var walk func(v interface{})
	walk = func(v interface{}) {
		switch x := v.(type) {
		case map[string]interface{}:
			for _, k := range keysSorted(x) {
				slots = append(slots, slot{x, k, -1})
				walk(x[k])
			}
		case []interface{}:
			for i, c := range x {
				slots = append(slots, slot{x, "", i})
				walk(c)
			}
		}
	}
	walk(t)
	if len(slots) == 0 {
		return t
	}
	sort.SliceStable(slots, func(i, j int) bool {
		return fmt.Sprint(slots[i].key, slots[i].idx) < fmt.Sprint(slots[j].key, slots[j].idx)
	})
	s := hx.Pick(r, slots)
	junk := func() interface{} {
		return hx.Pick(r, []interface{}{nil, "", "x", float64(3), true, []interface{}{}, map[string]interface{}{}, []interface{}{nil}, map[string]interface{}{"didSuffix": nil},
			strings.Repeat("A", 150), "uri-chunk", "uri-core-index", "uri-core-proof", map[string]interface{}{"patches": []interface{}{map[string]interface{}{"action": "ietf-json-patch", "patches": []interface{}{map[string]interface{}{"op": "test", "path": nil}}}}, "updateCommitment": "x"}})
	}
	switch p := s.parent.(type) {
	case map[string]interface{}:
		switch r.Intn(4) {
		case 0:
			delete(p, s.key)
		case 1:
			p[s.key] = junk()
		case 2:
			if a, ok := p[s.key].([]interface{}); ok && len(a) > 0 {
				switch r.Intn(3) {
				case 0:
					p[s.key] = a[1:]
				case 1:
					p[s.key] = append(a, a[r.Intn(len(a))])
				default:
					a[r.Intn(len(a))] = a[r.Intn(len(a))]
				}
			} else {
				p[s.key] = junk()
			}
		default:
			// swap with the value of another member
			for k2 := range p {
				if k2 != s.key {
					p[s.key], p[k2] = p[k2], p[s.key]
					break
				}
			}
		}
	case []interface{}:
		if r.Bool() {
			p[s.idx] = junk()
		} else if len(p) > 1 {
			p[s.idx] = p[(s.idx+1)%len(p)]
		}
	}
	return t
}
