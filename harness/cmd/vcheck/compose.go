package main

// Crash-isolated execution of patch validation and application (shared by C17 and C18).

import (
	"encoding/json"
	"fmt"
	"strings"

	"github.com/trustbloc/sidetree-core-go/pkg/api/protocol"
	"github.com/trustbloc/sidetree-core-go/pkg/document"
	"github.com/trustbloc/sidetree-core-go/pkg/patch"
	"github.com/trustbloc/sidetree-core-go/pkg/versions/1_0/model"
	"github.com/trustbloc/sidetree-core-go/pkg/versions/1_0/operationparser/patchvalidator"

	"verifharness/hx"
	"verifharness/ref"
)

func init() {
	workers["compose"] = func(args []string) { hx.ServeWorker(args[0], probed(composeCall, composeProbe)) }
}

type composeCase struct {
	Proto   *protocol.Protocol `json:"proto,omitempty"`
	Doc     json.RawMessage    `json:"doc"`
	Patches json.RawMessage    `json:"patches"`
	Opaque  string             `json:"opaque,omitempty"` // PatchesFromDocument mode
	NoApply bool               `json:"no_apply,omitempty"`
}

type composeReply struct {
	Validate    []string        `json:"validate"`  // per patch: "" = accepted by patchvalidator.Validate
	DeltaErr    string          `json:"delta_err"` // parser.ValidateDelta over the whole list ("" = accepted)
	ApplyErr    string          `json:"apply_err"`
	Result      json.RawMessage `json:"result"`
	InputAfter  json.RawMessage `json:"input_after"`
	Apply2Err   string          `json:"apply2_err"`
	Result2     json.RawMessage `json:"result2"`
	StepwiseErr string          `json:"stepwise_err"`
	Stepwise    json.RawMessage `json:"stepwise"`
	PfdErr      string          `json:"pfd_err"`
	PfdPatches  json.RawMessage `json:"pfd_patches"`
}

func errS(err error) string {
	if err == nil {
		return ""
	}
	if err.Error() == "" {
		return "(empty error)"
	}
	return err.Error()
}

func composeCall(p []byte) (reply []byte) {
	defer func() {
		if r := recover(); r != nil {
			reply = []byte(fmt.Sprintf("PANIC:%v", r))
		}
	}()
	var c composeCase
	if err := json.Unmarshal(p, &c); err != nil {
		return []byte("SKIP:" + err.Error())
	}
	var out composeReply
	proto := hx.BaseProtocol()
	if c.Proto != nil {
		proto = *c.Proto
	}
	v := hx.NewVersion(proto, hx.VersionOpts{})
	var patches []patch.Patch
	if c.Opaque != "" {
		ps, err := patch.PatchesFromDocument(c.Opaque)
		out.PfdErr = errS(err)
		if err != nil {
			b, _ := json.Marshal(out)
			return append([]byte("OK:"), b...)
		}
		patches = ps
		out.PfdPatches, _ = json.Marshal(ps)
		// normalise to what a delta would carry after a JSON round trip
		var rt []patch.Patch
		_ = json.Unmarshal(out.PfdPatches, &rt)
		patches = rt
	} else if err := json.Unmarshal(c.Patches, &patches); err != nil {
		return []byte("SKIP:patches " + err.Error())
	}
	for _, pt := range patches {
		out.Validate = append(out.Validate, errS(patchvalidator.Validate(pt)))
	}
	k := ref.NewKey("P-256", "uc", []byte("compose"))
	out.DeltaErr = errS(v.Parser.ValidateDelta(&model.DeltaModel{UpdateCommitment: k.Commitment(uint64(proto.MultihashAlgorithms[0])), Patches: patches}))
	if c.NoApply {
		b, _ := json.Marshal(out)
		return append([]byte("OK:"), b...)
	}
	docOf := func() document.Document {
		d, err := document.FromBytes(c.Doc)
		if err != nil {
			panic("harness: bad doc " + err.Error())
		}
		return d
	}
	in := docOf()
	res, err := v.Composer.ApplyPatches(in, patches)
	out.ApplyErr = errS(err)
	if res != nil {
		out.Result, _ = json.Marshal(res)
	}
	out.InputAfter, _ = json.Marshal(in)
	res2, err2 := v.Composer.ApplyPatches(docOf(), patches)
	out.Apply2Err = errS(err2)
	if res2 != nil {
		out.Result2, _ = json.Marshal(res2)
	}
	cur := docOf()
	var serr error
	for i := range patches {
		cur, serr = v.Composer.ApplyPatches(cur, patches[i:i+1])
		if serr != nil {
			break
		}
	}
	out.StepwiseErr = errS(serr)
	if serr == nil && cur != nil {
		out.Stepwise, _ = json.Marshal(cur)
	}
	b, _ := json.Marshal(out)
	return append([]byte("OK:"), b...)
}

// composeRun sends one case; ok=false means a crash/panic was reported as a violation.
func composeRun(c *hx.Ctx, pool *hx.Pool, cs composeCase, class string) (*composeReply, bool) {
	b, _ := json.Marshal(cs)
	reply, crash := pool.Call(b)
	if crash != nil {
		c.Violation(fmt.Sprintf("%s validating/applying patches crashed the process (%s): %s", c.ID, class, crash.CrashSig()),
			map[string]interface{}{"doc": string(cs.Doc), "patches": string(cs.Patches), "opaque": cs.Opaque, "stderr": crash.Detail, "kind": crash.Kind})
		return nil, false
	}
	i := strings.IndexByte(string(reply), ':')
	st, body := string(reply[:i]), reply[i+1:]
	if st == "PANIC" {
		c.Violation(fmt.Sprintf("%s validating/applying patches panicked (%s): %s", c.ID, class, string(body)),
			map[string]interface{}{"doc": string(cs.Doc), "patches": string(cs.Patches), "opaque": cs.Opaque})
		return nil, false
	}
	if st != "OK" {
		c.Count("worker_skip")
		return nil, true
	}
	var r composeReply
	if err := json.Unmarshal(body, &r); err != nil {
		c.Inconclusive("bad worker reply: %v", err)
		return nil, true
	}
	return &r, true
}

func rawTree(b json.RawMessage) interface{} {
	if len(b) == 0 {
		return nil
	}
	var v interface{}
	_ = json.Unmarshal(b, &v)
	return v
}

func docKeyOf(b json.RawMessage) string {
	m, _ := rawTree(b).(map[string]interface{})
	return ref.DocKey(m)
}
