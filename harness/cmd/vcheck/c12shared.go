package main

import (
	"fmt"
	"sync"

	"github.com/trustbloc/sidetree-core-go/pkg/api/operation"
	"github.com/trustbloc/sidetree-core-go/pkg/api/protocol"
	"github.com/trustbloc/sidetree-core-go/pkg/processor"

	"verifharness/hx"
	"verifharness/ref"
)

// hookApplier calls a hook before every Apply (a suspension point the harness owns: the applier is a caller-provided component).
type hookApplier struct {
	inner protocol.OperationApplier
	hook  func(op *operation.AnchoredOperation)
}

func (h *hookApplier) Apply(op *operation.AnchoredOperation, rm *protocol.ResolutionModel) (*protocol.ResolutionModel, error) {
	if h.hook != nil {
		h.hook(op)
	}
	return h.inner.Apply(op, rm)
}

// c12SharedProcessor: ONE processor serves several DIDs. While it resolves a DID whose history holds a commitment cycle, other
// resolutions run on the same processor - nested at every point where an operation of the cyclic history is about to be applied
// (deterministic), and from other goroutines (scheduler dependent). What a resolution has consumed belongs to that resolution:
// the cycle-closing operation is never applied, the result equals the reference model.
func c12SharedProcessor(c *hx.Ctx) {
	n := c.N(40, 600)
	root := c.Rng("shared-processor")
	seeds := make([]uint64, n)
	for i := range seeds {
		seeds[i] = root.U64()
	}
	hx.Parallel(n, 8, func(i int) {
		if c.Violations() > 8 {
			return
		}
		r := hx.NewRng(seeds[i], "c12s")
		p := hx.BaseProtocol()
		mkU := func(tag string) *Universe {
			u := NewUniverse(r.Split(tag), ref.SHA256, p, []string{hx.Pick(r, []string{"P-256", "Ed25519"}), "P-256"})
			u.BuildAlphabet(1, 2)
			return u
		}
		cyc, other := mkU("cyclic"), mkU("other")
		// cyclic DID: update cycle U0 -> U1 -> U2 -> U0 (u20 closes it) or recovery cycle R0 -> R1 -> R0 (r10 closes it)
		labels := [][]string{{"C", "u01", "u12", "u20", "u01"}, {"C", "r01", "r10", "r01"}, {"C", "u01", "u10", "u01", "u12"}}[i%3]
		var H []*ref.Op
		for k, l := range labels {
			H = append(H, Place(cyc.Ops[l], uint64(100+10*k), uint64(k%3), fmt.Sprintf("ref%d", k), 0))
		}
		// the DID in the same store: a plain chain with updates and a recover
		var HO []*ref.Op
		for k, l := range []string{"C", "u01", "u12", "r01"} {
			HO = append(HO, Place(other.Ops[l], uint64(100+10*k), uint64(k%3), fmt.Sprintf("oref%d", k), 0))
		}
		st, merr := ref.Resolve(H, ref.ResolveOpts{})
		stO, merrO := ref.Resolve(HO, ref.ResolveOpts{})
		want, wantO := stKey(st, merr), stKey(stO, merrO)
		store := hx.NewOpStore()
		store.Set(cyc.Suffix, ToAnchored(cyc.Suffix, H))
		store.Set(other.Suffix, ToAnchored(other.Suffix, HO))
		v := hx.NewVersion(p, hx.VersionOpts{ParserOpts: hx.StrictResolution()})
		ha := &hookApplier{inner: v.Applier}
		v.Applier = ha
		pc := hx.NewClient(v)
		proc := processor.New("verif", store, pc)
		replay := map[string]interface{}{"cyclic_history": replayOps(H), "other_history": replayOps(HO)}
		c.Eval()
		// (1) deterministic: a nested resolution of the other DID right before each operation of the cyclic DID is applied
		nested, applies := false, 0
		ha.hook = func(op *operation.AnchoredOperation) {
			if nested || op.UniqueSuffix != cyc.Suffix {
				return
			}
			applies++
			if applies > 4*len(H)+16 {
				panic(resolveBudget{calls: int64(applies)})
			}
			nested = true
			rmN, errN := proc.Resolve(other.Suffix)
			nested = false
			if got := rmKey(rmN, errN); got != wantO {
				c.Violation(fmt.Sprintf("C12 a resolution nested into another one on the same processor gives a wrong result\n   model:   %s\n   library: %s", wantO, got), replay)
			}
		}
		var rm *protocol.ResolutionModel
		var err error
		func() {
			defer func() {
				if x := recover(); x != nil {
					err = fmt.Errorf("resolution did not terminate within its step budget: %v", x)
				}
			}()
			rm, err = proc.Resolve(cyc.Suffix)
		}()
		if got := rmKey(rm, err); got != want {
			c.Violation(fmt.Sprintf("C12 a commitment cycle resolved while other resolutions run on the same processor (nested before every operation application) differs from the reference (the chain revisits a commitment): %s\n   model:   %s\n   library: %s", histString(H), want, got), replay)
			return
		}
		c.Count("cycles_resolved_with_nested_resolutions_on_the_same_processor")
		// (2) goroutines: several resolutions of both DIDs at once on the same processor
		ha.hook = nil
		var wg sync.WaitGroup
		var mu sync.Mutex
		bad := ""
		for g := 0; g < 6; g++ {
			wg.Add(1)
			go func(g int) {
				defer wg.Done()
				for k := 0; k < 30; k++ {
					sfx, w := cyc.Suffix, want
					if (g+k)%2 == 1 {
						sfx, w = other.Suffix, wantO
					}
					rmG, errG := proc.Resolve(sfx)
					if got := rmKey(rmG, errG); got != w {
						mu.Lock()
						bad = fmt.Sprintf("model: %s\n   library: %s", w, got)
						mu.Unlock()
						return
					}
				}
			}(g)
		}
		wg.Wait()
		if bad != "" {
			c.Violation("C12 concurrent resolutions on one processor (one history holds a commitment cycle) give a result that differs from the reference\n   "+bad, replay)
			return
		}
		c.Count("cycles_resolved_concurrently_on_one_processor")
	})
}
