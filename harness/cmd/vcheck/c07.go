package main

import (
	"bufio"
	"encoding/base64"
	"encoding/json"
	"fmt"
	"math"
	"os"
	"os/exec"
	"path/filepath"
	"strings"
	"sync"
	"time"

	"github.com/trustbloc/sidetree-core-go/pkg/canonicalizer"

	"verifharness/hx"
	"verifharness/ref"
)

func init() {
	register("C07", "exploration", checkC07)
	workers["jcs"] = func(args []string) {
		hx.ServeWorker(args[0], func(p []byte) []byte {
			return jcsCall(p)
		})
	}
}

// jcsCall runs the canonicalizer in the worker: payload[0]='B' raw bytes, 'S' decoded value (struct/map path).
func jcsCall(p []byte) (reply []byte) {
	defer func() {
		if r := recover(); r != nil {
			reply = []byte(fmt.Sprintf("PANIC:%v", r))
		}
	}()
	var out []byte
	var err error
	if p[0] == 'C' {
		// concurrent callers: every document of the JSON array is canonicalized through the value path and the byte path by
		// several goroutines at once; each result must equal the result of the same call made alone
		var docs []json.RawMessage
		if e := json.Unmarshal(p[1:], &docs); e != nil {
			return []byte("SKIP:" + e.Error())
		}
		type one struct {
			raw  []byte
			val  interface{}
			want string
		}
		var set []one
		for _, d := range docs {
			var v interface{}
			if json.Unmarshal(d, &v) != nil {
				continue
			}
			w, e := canonicalizer.MarshalCanonical([]byte(d))
			if e != nil {
				continue
			}
			set = append(set, one{[]byte(d), v, string(w)})
		}
		var wg sync.WaitGroup
		var mu sync.Mutex
		problem := ""
		for g := 0; g < 8; g++ {
			wg.Add(1)
			go func(g int) {
				defer wg.Done()
				defer func() {
					if r := recover(); r != nil {
						mu.Lock()
						problem = fmt.Sprintf("panic in a concurrent caller: %v", r)
						mu.Unlock()
					}
				}()
				for round := 0; round < 6; round++ {
					for i := range set {
						o := set[(i+g*7+round)%len(set)]
						var got []byte
						var e error
						if (i+g)%2 == 0 {
							got, e = canonicalizer.MarshalCanonical(o.val)
						} else {
							got, e = canonicalizer.MarshalCanonical(o.raw)
						}
						if e != nil || string(got) != o.want {
							mu.Lock()
							if problem == "" {
								problem = fmt.Sprintf("a concurrent caller got %q (err=%v) for a document whose canonical form is %q", trunc600(string(got)), e, trunc600(o.want))
							}
							mu.Unlock()
							return
						}
					}
				}
			}(g)
		}
		wg.Wait()
		if problem != "" {
			return []byte("ERR:" + problem)
		}
		return []byte(fmt.Sprintf("OK:%d", len(set)))
	}
	if p[0] == 'S' {
		var v interface{}
		if e := json.Unmarshal(p[1:], &v); e != nil {
			return []byte("SKIP:" + e.Error())
		}
		out, err = canonicalizer.MarshalCanonical(v)
	} else {
		out, err = canonicalizer.MarshalCanonical(p[1:])
	}
	// state must not leak from one canonicalization into the next one of the same process (whatever the outcome of this one)
	const probeIn, probeOut = `{"b":2,"a":{"d":[1,{"e":null,"c":"x"}],"":[]}}`, `{"a":{"":[],"d":[1,{"c":"x","e":null}]},"b":2}`
	if po, perr := canonicalizer.MarshalCanonical([]byte(probeIn)); perr != nil || string(po) != probeOut {
		return []byte(fmt.Sprintf("PANIC:state leaked between calls: after this input the probe document %s canonicalizes to %q (err=%v), expected %s", probeIn, po, perr, probeOut))
	}
	if err != nil {
		return []byte("ERR:" + err.Error())
	}
	return append([]byte("OK:"), out...)
}

var c07Strings = []string{"", "a", "A", "\x00", "\x1f", "\"", "\\", "/", "\x7f", "\u0080", "é", "é", "€", " ", " ",
	"퟿", "", "דּ", "￿", "\U00010000", "\U0001F600", "1", "10", "2", "<>&", "\b\f\n\r\t", "a\u0000b", "\U0010FFFF", "aa", "ab"}

func c07Numbers() []float64 {
	return []float64{0, math.Copysign(0, -1), 1, -1, 0.1, 1.0 / 3, 1e21, math.Nextafter(1e21, 0), 1e-6, math.Nextafter(1e-6, 0), 1e-7,
		123456789012345680000, 9007199254740991, 9007199254740992, 9007199254740994, 5e-324, 2.2250738585072014e-308, 1.7976931348623157e308,
		4.35, 0.000001234, 1e23, 9.999999999999999e22, 295147905179352830000, 100, 1e20, 12345.678, -0.0000033333333333333333, 1424953923781206.2, 0.5, 25}
}

func treesEqual(a, b interface{}) bool {
	ja, e1 := ref.JCS(a)
	jb, e2 := ref.JCS(b)
	return e1 == nil && e2 == nil && ja == jb
}

// bsu is the two characters backslash, u (built from bytes so that no escape sequence appears in this source file).
var bsu = string([]byte{92, 117})

func checkC07(c *hx.Ctx) {
	c.Rule("value trees: exhaustive over all ordered pairs and a third of triples of 30 tricky keys (UTF-16 vs code-point order, controls, escapes), all scalars (30 strings, 30 boundary numbers, literals) in arrays and objects, nested to depth 2, plus random deeper trees; each tree in 6 re-serializations (member order, whitespace, \\u escapes both hex cases, surrogate pairs, \\/, number spellings) through MarshalCanonical([]byte) and, for the value path, MarshalCanonical(value); oracle: output == independent RFC 8785 serialization of the tree (Go reference; Python reference cross-checks every accepted document and every number), fixed point, parses back to the same value; doubles by random bit pattern; rejection classes (duplicate names incl. escaped spelling, truncation at every byte, invalid escapes, lone surrogates in all shapes, raw control characters inside strings and between tokens, trailing content after top-level objects and after top-level arrays) must return an error; after every call (accepted or rejected) the same process canonicalizes a fixed probe document, which must come out unchanged (no state leaking between calls); eight goroutines canonicalize hundreds of documents (value path and byte path) at once, each result compared with the call made alone, under the race detector; executed in crash-isolated workers; non-trivial = tree with >=2 members or a non-integer number; distinct = distinct input byte strings")
	c.Assume("references: harness/ref/jcs.go (Go, strconv shortest digits) and pyref/jcs_ref.py (Python repr digits); invalid UTF-8 and lenient number spellings are out of the statement's scope")
	pool := hx.NewPool(c, "jcs", 16, 4*1024*1024, 30*time.Second)
	defer pool.Close()
	// python selftest
	if out, err := exec.Command("python3", filepath.Join(c.Root, "pyref", "jcs_ref.py"), "selftest").CombinedOutput(); err != nil {
		c.Inconclusive("python reference selftest failed: %s", strings.TrimSpace(string(out)))
		return
	}
	workDir := filepath.Join(c.Root, "work")
	_ = os.MkdirAll(workDir, 0o755)
	docsPath := filepath.Join(workDir, fmt.Sprintf("c07-docs-%d.txt", os.Getpid()))
	numsPath := filepath.Join(workDir, fmt.Sprintf("c07-nums-%d.txt", os.Getpid()))
	defer os.Remove(docsPath)
	defer os.Remove(numsPath)
	docsF, _ := os.Create(docsPath)
	docsW := bufio.NewWriterSize(docsF, 1<<20)
	var docsMu sync.Mutex
	docsN := 0
	docsMax := c.N(20000, 400000)

	// the concurrent mode is one long call: a pool of its own with a generous watchdog whose firing is "too slow to tell"
	slowPool := hx.NewPool(c, "jcs", 2, 4*1024*1024, 15*time.Minute)
	defer slowPool.Close()
	call := func(mode byte, in []byte) (status string, out []byte, ok bool) {
		pl := pool
		if mode == 'C' {
			pl = slowPool
		}
		reply, crash := pl.Call(append([]byte{mode}, in...))
		if crash != nil && mode == 'C' && strings.HasPrefix(crash.CrashSig(), "watchdog") {
			c.Inconclusive("the concurrent canonicalization workload did not finish within its 15-minute watchdog")
			return "", nil, false
		}
		if crash != nil {
			c.Violation("C07 canonicalizer crashed the process: "+crash.CrashSig(), map[string]interface{}{"input": string(in), "input_b64": base64.StdEncoding.EncodeToString(in), "mode": string(mode), "stderr": crash.Detail})
			return "", nil, false
		}
		i := strings.IndexByte(string(reply), ':')
		status, out = string(reply[:i]), reply[i+1:]
		if status == "PANIC" {
			c.Violation("C07 canonicalizer panicked: "+string(out), map[string]interface{}{"input": string(in), "input_b64": base64.StdEncoding.EncodeToString(in), "mode": string(mode)})
			return status, out, false
		}
		return status, out, true
	}

	// checkTree: all oracles for one value tree
	checkTree := func(r *hx.Rng, tree interface{}, nontrivial bool, class string) bool {
		want, err := ref.JCS(tree)
		if err != nil {
			return true
		}
		inputs := []string{want, Reserialize(r, tree, reserOpts{Order: true}), Reserialize(r, tree, reserOpts{Space: true}),
			Reserialize(r, tree, reserOpts{Escapes: true}), Reserialize(r, tree, reserOpts{Numbers: true}), Reserialize(r, tree, allReser), Reserialize(r, tree, allReser)}
		for k, in := range inputs {
			c.Eval()
			st, out, ok := call('B', []byte(in))
			if !ok {
				return false
			}
			rp := map[string]interface{}{"input": in, "input_b64": base64.StdEncoding.EncodeToString([]byte(in)), "expected": want, "class": class}
			if st != "OK" {
				c.Violation(fmt.Sprintf("C07 well-formed JSON rejected (%s): %s", class, string(out)), rp)
				return false
			}
			if string(out) != want {
				rp["output"] = string(out)
				c.Violation(fmt.Sprintf("C07 output is not the RFC 8785 serialization (%s, spelling %d)\n   input:    %s\n   expected: %s\n   output:   %s", class, k, trunc600(in), trunc600(want), trunc600(string(out))), rp)
				return false
			}
			if nontrivial && in != want {
				c.Distinct(in)
			}
			docsMu.Lock()
			if docsN < docsMax {
				docsN++
				fmt.Fprintf(docsW, "%s %s\n", base64.StdEncoding.EncodeToString([]byte(in)), base64.StdEncoding.EncodeToString(out))
			}
			docsMu.Unlock()
		}
		// fixed point + parses back to the same value
		c.Eval()
		st, out2, ok := call('B', []byte(want))
		if !ok {
			return false
		}
		if st != "OK" || string(out2) != want {
			c.Violation("C07 canonical output is not a fixed point: "+trunc600(want), map[string]interface{}{"input": want, "output": string(out2)})
			return false
		}
		back, perr := ref.ParseJSONStrict([]byte(want))
		if perr != nil || !treesEqual(back, tree) {
			c.Violation(fmt.Sprintf("C07 harness defect: reference output does not parse back to the value (%v)", perr), map[string]interface{}{"reference_output": want})
			return false
		}
		// value path: MarshalCanonical(value)
		c.Eval()
		gob, _ := json.Marshal(ref.Plain(tree))
		st, out3, ok := call('S', gob)
		if !ok {
			return false
		}
		if st == "OK" && string(out3) != want {
			c.Violation(fmt.Sprintf("C07 MarshalCanonical(value) differs from the RFC 8785 serialization (%s)\n   expected: %s\n   output:   %s", class, trunc600(want), trunc600(string(out3))),
				map[string]interface{}{"value_json": string(gob), "expected": want, "output": string(out3)})
			return false
		}
		if st == "ERR" {
			c.Violation("C07 MarshalCanonical(value) rejected a valid value: "+string(out3), map[string]interface{}{"value_json": string(gob)})
			return false
		}
		c.Count("trees:" + class)
		return true
	}

	nums := c07Numbers()
	var scalars []interface{}
	for _, s := range c07Strings {
		scalars = append(scalars, s)
	}
	for _, n := range nums {
		scalars = append(scalars, n)
	}
	scalars = append(scalars, true, false, nil)

	// ---- exhaustive families
	type job struct {
		tree  interface{}
		class string
		nt    bool
	}
	var jobs []job
	for i, a := range c07Strings {
		for j, b := range c07Strings {
			if i == j {
				continue
			}
			jobs = append(jobs, job{map[string]interface{}{a: float64(i), b: c07Strings[(i+j)%len(c07Strings)]}, "key-pair", true})
		}
	}
	for i, a := range c07Strings {
		for j, b := range c07Strings {
			for k, d := range c07Strings {
				if i < j && j < k && (i+j+k)%3 == int(c.Seed%3) {
					jobs = append(jobs, job{map[string]interface{}{a: nil, b: true, d: []interface{}{}}, "key-triple", true})
				}
			}
		}
	}
	for i, s := range scalars {
		jobs = append(jobs, job{[]interface{}{s}, "scalar-in-array", false})
		jobs = append(jobs, job{map[string]interface{}{c07Strings[i%len(c07Strings)]: s}, "scalar-in-object", false})
		for j, t := range scalars {
			if (i+j)%4 == 0 {
				jobs = append(jobs, job{[]interface{}{s, t}, "scalar-pair", true})
			}
		}
		// depth 2
		jobs = append(jobs, job{[]interface{}{[]interface{}{s, nil}, map[string]interface{}{"k": s, "": []interface{}{}}}, "depth2", true})
		jobs = append(jobs, job{map[string]interface{}{"o": map[string]interface{}{"b": s, "a": s}, "a": []interface{}{s, map[string]interface{}{}}}, "depth2", true})
	}
	jobs = append(jobs, job{[]interface{}{}, "empty", false}, job{map[string]interface{}{}, "empty", false})
	rr := c.Rng("trees")
	seeds := make([]uint64, len(jobs))
	for i := range seeds {
		seeds[i] = rr.U64()
	}
	hx.Parallel(len(jobs), 16, func(i int) {
		if c.Violations() > 5 {
			return
		}
		checkTree(hx.NewRng(seeds[i], "t"), jobs[i].tree, jobs[i].nt, jobs[i].class)
	})
	c.Sample(2, map[string]interface{}{"tree_json": ref.MustJCSString(jobs[7].tree), "class": jobs[7].class})

	// ---- random deeper trees
	nRand := c.N(1500, 60000)
	rseeds := make([]uint64, nRand)
	for i := range rseeds {
		rseeds[i] = rr.U64()
	}
	var genTree func(r *hx.Rng, depth int) interface{}
	genScalar := func(r *hx.Rng) interface{} {
		switch r.Intn(6) {
		case 0:
			return hx.Pick(r, scalars)
		case 1:
			return math.Float64frombits(r.U64()&^(0x7ff<<52) | uint64(1+r.Intn(2046))<<52)
		case 2:
			return float64(int64(r.U64()>>uint(r.Intn(64))) - 5)
		case 3:
			var sb strings.Builder
			for k := 0; k < r.Intn(6); k++ {
				sb.WriteString(hx.Pick(r, c07Strings))
			}
			return sb.String()
		case 4:
			return string(rune(0x20 + r.Intn(0xD7DF)))
		}
		return hx.Pick(r, []interface{}{true, false, nil})
	}
	genTree = func(r *hx.Rng, depth int) interface{} {
		if depth == 0 || r.Chance(1, 3) {
			if depth == 4 {
				return []interface{}{genScalar(r)}
			}
			return genScalar(r)
		}
		n := r.Intn(5)
		if r.Bool() {
			arr := make([]interface{}, n)
			for i := range arr {
				arr[i] = genTree(r, depth-1)
			}
			return arr
		}
		m := map[string]interface{}{}
		for i := 0; i < n; i++ {
			k := hx.Pick(r, c07Strings)
			if r.Bool() {
				k += hx.Pick(r, c07Strings)
			}
			m[k] = genTree(r, depth-1)
		}
		return m
	}
	hx.Parallel(nRand, 16, func(i int) {
		if c.Violations() > 5 {
			return
		}
		r := hx.NewRng(rseeds[i], "rt")
		t := genTree(r, 4)
		switch t.(type) {
		case []interface{}, map[string]interface{}:
		default:
			t = []interface{}{t}
		}
		checkTree(r, t, true, "random")
	})

	// ---- doubles by random bit pattern (batched), library output also written for the Python cross-check
	nBatches := c.N(2000, 100000)
	numsF, _ := os.Create(numsPath)
	numsW := bufio.NewWriterSize(numsF, 1<<20)
	var numsMu sync.Mutex
	pyNums, pyMax := 0, c.N(60000, 1500000)
	bseeds := make([]uint64, nBatches)
	for i := range bseeds {
		bseeds[i] = rr.U64()
	}
	hx.Parallel(nBatches, 16, func(i int) {
		if c.Violations() > 5 {
			return
		}
		r := hx.NewRng(bseeds[i], "num")
		const per = 100
		fs := make([]float64, 0, per)
		var in strings.Builder
		in.WriteByte('[')
		for len(fs) < per {
			var f float64
			switch r.Intn(5) {
			case 0: // near layout boundaries
				base := hx.Pick(r, []float64{1e21, 1e-6, 1e-7, 1e20, 1, 9007199254740992, 1e22, 1e23, 123456789012, 1e15, 1e16, 1e17})
				f = base
				for k := 0; k < r.Intn(4); k++ {
					f = math.Nextafter(f, hx.Pick(r, []float64{0, math.Inf(1)}))
				}
			case 1: // integers with trailing zeros / large
				f = float64(int64(r.U64()>>uint(r.Intn(60)))) * math.Pow(10, float64(r.Intn(12)))
			default:
				f = math.Float64frombits(r.U64())
			}
			if math.IsNaN(f) || math.IsInf(f, 0) {
				continue
			}
			if len(fs) > 0 {
				in.WriteByte(',')
			}
			if r.Bool() {
				in.WriteString(fmt.Sprintf("%.17g", f))
			} else {
				in.WriteString(numberSpelling(r, f, true))
			}
			fs = append(fs, f)
		}
		in.WriteByte(']')
		c.EvalN(per)
		st, out, ok := call('B', []byte(in.String()))
		if !ok {
			return
		}
		if st != "OK" {
			c.Violation("C07 number array rejected: "+string(out), map[string]interface{}{"input": in.String()})
			return
		}
		parts := strings.Split(strings.Trim(string(out), "[]"), ",")
		if len(parts) != per {
			c.Violation("C07 number array output has wrong arity", map[string]interface{}{"input": in.String(), "output": string(out)})
			return
		}
		for k, f := range fs {
			want, _ := ref.ES6Number(f)
			if parts[k] != want {
				c.Violation(fmt.Sprintf("C07 number %016x formatted as %s, ECMAScript form is %s", math.Float64bits(f), parts[k], want),
					map[string]interface{}{"bits": fmt.Sprintf("%016x", math.Float64bits(f)), "output": parts[k], "expected": want})
				return
			}
			back, _ := ref.ParseJSONStrict([]byte("[" + parts[k] + "]"))
			if bf, _ := back.([]interface{})[0].(float64); bf != f && !(bf == 0 && f == 0) {
				c.Violation(fmt.Sprintf("C07 formatted number %s does not parse back to the same double %016x", parts[k], math.Float64bits(f)), map[string]interface{}{"output": parts[k]})
				return
			}
			if strings.ContainsAny(want, "e") {
				c.Count("number_layout:exponent")
			} else if strings.Contains(want, ".") {
				c.Count("number_layout:fraction")
			} else {
				c.Count("number_layout:integer")
			}
		}
		numsMu.Lock()
		for k, f := range fs {
			if pyNums < pyMax {
				pyNums++
				fmt.Fprintf(numsW, "%016x %s\n", math.Float64bits(f), parts[k])
			}
		}
		numsMu.Unlock()
		c.Distinct(fmt.Sprintf("numbatch-%d", i))
	})

	// ---- rejection classes
	reject := func(class, in string) {
		c.Eval()
		st, out, ok := call('B', []byte(in))
		if !ok {
			return
		}
		if st == "OK" {
			c.Violation(fmt.Sprintf("C07 malformed input accepted (%s): %s -> %s", class, trunc600(in), trunc600(string(out))),
				map[string]interface{}{"input": in, "input_b64": base64.StdEncoding.EncodeToString([]byte(in)), "output": string(out), "class": class})
			return
		}
		c.Count("rejected:" + class)
		c.Distinct(in)
	}
	// ---- concurrent callers in one process (shared buffers / pools must not mix the callers' data)
	{
		var docs []json.RawMessage
		for k, j := range jobs {
			if k%(1+len(jobs)/300) == 0 {
				if sj, err := ref.JCS(j.tree); err == nil && len(sj) > 2 {
					docs = append(docs, json.RawMessage(sj))
				}
			}
		}
		big := map[string]interface{}{}
		for k := 0; k < 1500; k++ {
			big[fmt.Sprintf("member-%04d", (k*7919)%1500)] = []interface{}{float64(k), fmt.Sprintf("v%d", k), map[string]interface{}{"z": nil, "a": true}}
		}
		for k := 0; k < 4; k++ {
			big["variant"] = float64(k)
			docs = append(docs, json.RawMessage(ref.MustJCS(big)))
		}
		// documents full of control characters (escaped as backslash-u sequences on output), a different one per document
		for k := 0; k < 24; k++ {
			ch := []byte{byte(k % 32)}
			if ch[0] == 8 || ch[0] == 9 || ch[0] == 10 || ch[0] == 12 || ch[0] == 13 {
				ch[0] = 1
			}
			ctl := map[string]interface{}{}
			for m := 0; m < 40; m++ {
				ctl[fmt.Sprintf("k%d%s", m, string(ch))] = strings.Repeat(string(ch), 30)
			}
			docs = append(docs, json.RawMessage(ref.MustJCS(ctl)))
		}
		for round := 0; round < c.N(3, 40); round++ {
			c.Eval()
			b, _ := json.Marshal(docs)
			st, out, ok := call('C', b)
			if !ok {
				return
			}
			if st != "OK" {
				c.Violation("C07 concurrent callers: "+string(out), map[string]interface{}{"documents": len(docs)})
				return
			}
			c.Count("concurrent_rounds")
		}
		c.Set("concurrent_documents_per_round", len(docs))
	}
	rj := c.Rng("reject")
	for _, k := range c07Strings {
		kk := escapeString(nil2(rj), k, false)
		reject("duplicate-name", fmt.Sprintf(`{%s:1,%s:2}`, kk, kk))
		reject("duplicate-name", fmt.Sprintf(`{%s:1,"x":0,%s:2}`, kk, kk))
		if k != "" {
			reject("duplicate-name-escaped", fmt.Sprintf(`{%s:1,%s:2}`, kk, escapeString(rj, k, true)+""))
			// force a fully escaped spelling
			var sb strings.Builder
			sb.WriteByte('"')
			for _, u := range utf16Units(k) {
				sb.WriteString(fmt.Sprintf(`\u%04X`, u))
			}
			sb.WriteByte('"')
			reject("duplicate-name-escaped", fmt.Sprintf(`{%s:[],"m":{},%s:null}`, kk, sb.String()))
			reject("duplicate-name-nested", fmt.Sprintf(`[{"o":{%s:1,%s:1}}]`, sb.String(), kk))
		}
	}
	for _, j := range jobs[:c.N(60, 600)] {
		s, _ := ref.JCS(j.tree)
		for cut := 1; cut < len(s); cut++ {
			if s[cut]&0xC0 == 0x80 {
				continue // do not cut inside a UTF-8 sequence (invalid UTF-8 is out of scope)
			}
			reject("truncation", s[:cut])
		}
		for _, t := range []string{"x", "{}", ",", "]", "}", "0", "\"\"", "[]", " null"} {
			reject("trailing-content", s+t)
			reject("trailing-content", s+" \n"+t)
			// the same document as the only element of a top-level array (arrays and objects end on different paths)
			reject("trailing-content-after-array", "["+s+"]"+t)
			reject("trailing-content-after-array", "["+s+"] \t"+t)
		}
	}
	for _, base := range []string{"[]", "[1,2]", `["a",{"b":1}]`, "[[]]", "[null]", "{}", `{"a":[1]}`} {
		for _, t := range []string{"x", "{}", ",", "]", "}", "0", "\"\"", "[]", " null", "\n]", ":", "true"} {
			cl := "trailing-content-after-array"
			if base[0] == '{' {
				cl = "trailing-content"
			}
			reject(cl, base+t)
			reject(cl, base+" "+t)
		}
	}
	for _, e := range []string{`\x41`, `\a`, `\u12`, `\u12G4`, `\uZZZZ`, `\U0041`, `\0`, `\'`, `\u`, `\u+123`, `\u-123`, `\u 123`, `\v`, `\e`} {
		reject("invalid-escape", `["a`+e+`b"]`)
		reject("invalid-escape", `{"k`+e+`":1}`)
		reject("invalid-escape", `{"k":"`+e+`"}`)
		reject("invalid-escape", `[[{"x":["`+e+`"]}]]`)
	}
	his, los := []string{`\uD800`, `\uD83D`, `\uDBFF`, `\ud9ab`}, []string{`\uDC00`, `\uDE00`, `\uDFFF`, `\udead`}
	for _, hi := range his {
		for _, tail := range []string{``, `A`, "\\u0041", `\n`, hi, "\\uFFFF", "\\uE000", "\\uD7FF", ` `, `\\`, `\u`, `"`, "\\u00e9", "x"} {
			in := `["x` + hi + tail + `"]`
			if tail == `"` {
				in = `["x` + hi + `","y"]`
			}
			reject("lone-surrogate-high", in)
			reject("lone-surrogate-high", `{"k`+hi+tail+`":0}`)
		}
	}
	for _, lo := range los {
		for _, tail := range []string{``, `A`, "\\u0041", lo, `\n`, `\\`, ` `, "\\uFFFD"} {
			reject("lone-surrogate-low", `["`+lo+tail+`"]`)
			reject("lone-surrogate-low", `{"a":{"`+tail+lo+`":[]}}`)
		}
		for _, hi := range his {
			reject("lone-surrogate-low-first", `["`+lo+hi+`"]`)
			reject("lone-surrogate-low-first", `{"`+lo+hi+`":1}`)
			reject("lone-surrogate-low-first", `[[{"q":"x`+lo+hi+`y"}]]`)
			reject("lone-surrogate-low-first", `{"a":1,"b`+lo+hi+`":{"c":[]}}`)
		}
	}
	for ch := 0; ch < 0x20; ch++ {
		reject("raw-control-character", fmt.Sprintf("[\"a%cb\"]", ch))
		reject("raw-control-character", fmt.Sprintf("{\"k%c\":1}", ch))
		reject("raw-control-character", fmt.Sprintf("{\"k\":[\"%c\"]}", ch))
		// a raw control character after an escape sequence in the same string (value, element, member name)
		for ei, esc := range []string{"\\n", "\\\\", "\\\"", "\\/", "\\t", "\\b", bsu + "0041", bsu + "00e9", bsu + "d83d" + bsu + "de00"} {
			switch (ch + ei) % 3 {
			case 0:
				reject("raw-control-character-after-escape", fmt.Sprintf("{\"a\":\"x%sy%cz\"}", esc, ch))
			case 1:
				reject("raw-control-character-after-escape", fmt.Sprintf("[\"%s%c\"]", esc, ch))
			default:
				reject("raw-control-character-after-escape", fmt.Sprintf("{\"m%sn%c\":[]}", esc, ch))
			}
		}
	}
	// raw control characters OUTSIDE string literals (only space, tab, LF and CR are JSON whitespace): between tokens, before
	// and after the top-level value, ending a number or a literal
	for ch := 0; ch < 0x20; ch++ {
		if ch == '\t' || ch == '\n' || ch == '\r' {
			continue
		}
		for _, f := range []string{"%c{\"a\":1}", "{\"a\":[1,2]}%c", "[1,%c2]", "{%c}", "[%c]", "{\"a\"%c:1}", "{\"a\":%c\"b\"}", "[12%c]", "[true%c,null]", "{\"a\":{\"b\":[]%c}}", "[[]]%c ", " %c[\"x\"]"} {
			reject("raw-control-character-between-tokens", fmt.Sprintf(f, ch))
		}
	}
	for _, s := range []string{`["abc`, `["abc\"`, `{"a`, `{"a":"b`, `["é`, `[`, `{`, `[[1,2`, `{"a":{"b":[`, `["a","b`, `{"k":1,`, `[1,`, `{"k":`, `{"k"`, `["\`} {
		reject("unterminated", s)
		reject("unterminated", s+" ")
		reject("unterminated", "[0,"+s)
		reject("unterminated", `{"outer":`+s)
	}

	// ---- Python cross-check of every accepted document and formatted number recorded above
	docsW.Flush()
	docsF.Close()
	numsW.Flush()
	numsF.Close()
	for _, m := range [][2]string{{"docs", docsPath}, {"numbers", numsPath}} {
		out, err := exec.Command("python3", filepath.Join(c.Root, "pyref", "jcs_ref.py"), m[0], m[1]).CombinedOutput()
		lines := strings.Split(strings.TrimSpace(string(out)), "\n")
		if err != nil {
			nMis := 0
			for _, l := range lines {
				if strings.HasPrefix(l, "MISMATCH") {
					nMis++
					if nMis <= 3 {
						c.Violation("C07 Python reference disagrees with the library: "+trunc600(l), map[string]interface{}{"line": l})
					}
				}
			}
			if nMis == 0 {
				c.Inconclusive("python cross-check failed to run: %s", trunc600(string(out)))
			}
		}
		c.Set("python_"+m[0], lines[len(lines)-1])
	}
	c.Set("worker_crashes", pool.Crashes)
	for _, cl := range []string{"duplicate-name", "duplicate-name-escaped", "truncation", "trailing-content", "trailing-content-after-array", "invalid-escape", "lone-surrogate-high",
		"lone-surrogate-low", "lone-surrogate-low-first", "raw-control-character", "raw-control-character-after-escape", "raw-control-character-between-tokens", "unterminated"} {
		c.Floor("rejected:"+cl, 50)
	}
	c.Floor("trees:key-pair", 800)
	c.Floor("concurrent_rounds", 3)
	c.Floor("number_layout:exponent", 1000)
	c.Floor("number_layout:fraction", 100)
	c.Floor("number_layout:integer", 100)
}

func nil2(r *hx.Rng) *hx.Rng { return r }

func utf16Units(s string) []uint16 {
	var out []uint16
	for _, r := range s {
		if r >= 0x10000 {
			r -= 0x10000
			out = append(out, uint16(0xD800+(r>>10)), uint16(0xDC00+(r&0x3FF)))
		} else {
			out = append(out, uint16(r))
		}
	}
	return out
}

func trunc600(s string) string {
	if len(s) > 600 {
		return s[:600] + "..."
	}
	return s
}
