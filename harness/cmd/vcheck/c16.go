package main

import (
	"bytes"
	"encoding/json"
	"fmt"
	"net/http"
	"net/http/httptest"
	"os"
	"os/exec"
	"path/filepath"
	"runtime"
	"sort"
	"strings"
	"sync"
	"sync/atomic"
	"time"

	"github.com/anishathalye/porcupine"

	"github.com/trustbloc/sidetree-core-go/pkg/api/operation"
	"github.com/trustbloc/sidetree-core-go/pkg/api/protocol"
	"github.com/trustbloc/sidetree-core-go/pkg/api/txn"
	"github.com/trustbloc/sidetree-core-go/pkg/batch"
	"github.com/trustbloc/sidetree-core-go/pkg/dochandler"
	"github.com/trustbloc/sidetree-core-go/pkg/processor"
	restdoc "github.com/trustbloc/sidetree-core-go/pkg/restapi/dochandler"
	"github.com/trustbloc/sidetree-core-go/pkg/versions/1_0/operationparser"

	"verifharness/hx"
	"verifharness/ref"
)

func init() { register("C16", "fault_enumeration", checkC16) }

// schedOp is one operation of a schedule.
type schedOp struct {
	ID      string
	Suffix  string
	Ver     uint64
	Expired bool
}

func (o schedOp) queued() *operation.QueuedOperation {
	q := &operation.QueuedOperation{Type: operation.TypeUpdate, OperationRequest: []byte(o.ID), UniqueSuffix: o.Suffix, Namespace: hx.Namespace,
		Properties: []operation.Property{{Key: "id", Value: o.ID}}}
	if o.Expired {
		q.Properties = append(q.Properties, operation.Property{Key: "expired", Value: true})
	}
	return q
}

// inject places an Add at the occ-th occurrence of a yield point inside tick number `tick`.
type inject struct {
	Tick  int
	Point string
	Occ   int
	Op    int
}

// schedule is one Mode A execution plan.
type schedule struct {
	Ops     []schedOp
	Max     uint
	Max2    uint `json:",omitempty"` // when set: MaxOperationCount of version 100, which becomes the current version at the "upgrade" action
	NFiles  int
	Actions []string // "add:<i>" | "tick" | "timeout" | "upgrade"
	Injects []inject
	Faults  []string // "cas:<prepareCall>:<k>" | "anchor:<anchorCall>"
}

var c16Points = []string{"q.len", "q.peek", "q.remove", "prepare", "cas.write.1", "cas.write.2", "anchor", "q.ack", "q.nack"}

// runSchedule executes a schedule on the REAL writer/cutter/queue through the step hook and returns the log and bookkeeping.
func runSchedule(s *schedule) (evs []wev, ops map[string]opInfo, accepted map[string]bool, stats map[string]int, err error) {
	l := &wlog{}
	stats = map[string]int{}
	ops = map[string]opInfo{}
	accepted = map[string]bool{}
	for _, o := range s.Ops {
		ops[o.ID] = opInfo{o.Ver, o.Suffix, o.Expired}
	}
	var w *batch.Writer
	curTick := -1
	occ := map[string]int{}
	faultsOn := true
	doAdd := func(i int, where string) {
		o := s.Ops[i]
		l.add(wev{Kind: "add.call", IDs: []string{o.ID}, Ver: o.Ver, Extra: where})
		e := w.Add(o.queued(), o.Ver)
		l.add(wev{Kind: "add.ret", IDs: []string{o.ID}, Err: errStr(e)})
		if e == nil {
			accepted[o.ID] = true
		}
	}
	yield := func(point string) {
		occ[point]++
		for _, in := range s.Injects {
			if in.Tick == curTick && in.Point == point && in.Occ == occ[point] {
				l.add(wev{Kind: "inject", Extra: fmt.Sprintf("tick%d %s#%d", in.Tick, point, in.Occ)})
				stats["inject:"+point]++
				doAdd(in.Op, "at "+point)
			}
		}
	}
	q := newRecQueue(l, yield)
	anchor := &recAnchor{log: l, yield: yield}
	prepareCalls := 0
	mkHandler := func(ver uint64) *stubHandler {
		return &stubHandler{log: l, yield: yield, nFiles: s.NFiles, ver: ver}
	}
	h0, h1 := mkHandler(0), mkHandler(100)
	casFault := func(_ []string, k int) error {
		if !faultsOn {
			return nil
		}
		for _, f := range s.Faults {
			if f == fmt.Sprintf("cas:%d:%d", prepareCalls, k) {
				stats[fmt.Sprintf("fault:cas.write.%d", k)]++
				return errInjected
			}
		}
		return nil
	}
	h0.cas, h1.cas = casFault, casFault
	anchor.fail = func(_ string, call int) error {
		if !faultsOn {
			return nil
		}
		for _, f := range s.Faults {
			if f == fmt.Sprintf("anchor:%d", call) {
				stats["fault:anchor"]++
				return errInjected
			}
		}
		return nil
	}
	p0, p1 := hx.BaseProtocol(), hx.BaseProtocol()
	p0.GenesisTime, p1.GenesisTime = 0, 100
	p0.MaxOperationCount, p1.MaxOperationCount = s.Max, s.Max
	var pc protocol.Client = hx.NewClient(&handlerVersion{p0, &countingHandler{h0, &prepareCalls}}, &handlerVersion{p1, &countingHandler{h1, &prepareCalls}})
	upgraded := false
	if s.Max2 != 0 {
		// a protocol upgrade during the run: version 0 is the current one until the "upgrade" action, version 100 (with another
		// MaxOperationCount) afterwards
		p1.MaxOperationCount = s.Max2
		pc = &upgradeClient{inner: hx.NewClient(&handlerVersion{p0, &countingHandler{h0, &prepareCalls}}, &handlerVersion{p1, &countingHandler{h1, &prepareCalls}}), upgraded: &upgraded}
	}
	// transient failures of the protocol client: the n-th Get (version lookup for a cut batch) fails
	getCalls := 0
	pc = &getFaultClient{inner: pc, fail: func() bool {
		if !faultsOn {
			return false
		}
		getCalls++
		for _, f := range s.Faults {
			if f == fmt.Sprintf("get:%d", getCalls) {
				stats["fault:protocol.get"]++
				l.add(wev{Kind: "pc.get", N: getCalls, Err: "injected"})
				return true
			}
		}
		return false
	}}
	w, err = batch.New(hx.Namespace, &writerCtx{pc: pc, a: anchor, q: q})
	if err != nil {
		return nil, nil, nil, nil, err
	}
	tick := func(force bool) {
		curTick++
		for k := range occ {
			delete(occ, k)
		}
		l.add(wev{Kind: "step.call", Force: force, N: curTick})
		pending := w.VerifProcessAvailable(force)
		l.add(wev{Kind: "step.ret", N: int(pending)})
	}
	for _, a := range s.Actions {
		switch {
		case a == "tick":
			tick(false)
		case a == "timeout":
			tick(true)
		case strings.HasPrefix(a, "add:"):
			var i int
			fmt.Sscan(a[4:], &i)
			doAdd(i, "top-level")
		case a == "upgrade" && s.Max2 != 0 && !upgraded:
			upgraded = true
			l.add(wev{Kind: "upgrade", N: int(s.Max2)})
			stats["protocol_upgrades_during_run"]++
		}
	}
	// faults stop; operations whose injection point was never reached are added now (they were submitted late)
	faultsOn = false
	done := map[int]bool{}
	for _, e := range l.evs {
		if e.Kind == "add.call" {
			for i, o := range s.Ops {
				if o.ID == e.IDs[0] {
					done[i] = true
				}
			}
		}
	}
	curTick = 1 << 30
	for i := range s.Ops {
		if !done[i] {
			doAdd(i, "late")
			stats["late_adds"]++
		}
	}
	// bounded drain: n+1 timeout steps must empty the queue
	for k := 0; k <= len(s.Ops); k++ {
		tick(true)
	}
	return l.evs, ops, accepted, stats, nil
}

// getFaultClient makes chosen Get calls of the protocol client fail (Current keeps working).
type getFaultClient struct {
	inner protocol.Client
	fail  func() bool
}

func (c *getFaultClient) Current() (protocol.Version, error) { return c.inner.Current() }
func (c *getFaultClient) Get(t uint64) (protocol.Version, error) {
	if c.fail() {
		return nil, errInjected
	}
	return c.inner.Get(t)
}

// upgradeClient reports version 0 as the current protocol version until the run's upgrade action.
type upgradeClient struct {
	inner    *hx.Client
	upgraded *bool
}

func (c *upgradeClient) Current() (protocol.Version, error) {
	if *c.upgraded {
		return c.inner.Current()
	}
	return c.inner.Get(0)
}
func (c *upgradeClient) Get(t uint64) (protocol.Version, error) { return c.inner.Get(t) }

// countingHandler counts PrepareTxnFiles calls across versions (fault plan addressing).
type countingHandler struct {
	inner protocol.OperationHandler
	n     *int
}

func (c *countingHandler) PrepareTxnFiles(ops []*operation.QueuedOperation) (*protocol.AnchoringInfo, error) {
	*c.n++
	return c.inner.PrepareTxnFiles(ops)
}

func randomSchedule(r *hx.Rng) *schedule {
	s := &schedule{Max: uint(1 + r.Intn(3)), NFiles: 1 + r.Intn(2)}
	n := 1 + r.Intn(6)
	suffixes := []string{"didA", "didB", "didC", "didD"}[:1+r.Intn(4)]
	verSwitch := r.Intn(n + 2) // ops with index >= verSwitch are queued under version 100
	if r.Chance(1, 3) {
		verSwitch = n + 1 // single version
	}
	for i := 0; i < n; i++ {
		v := uint64(0)
		if i >= verSwitch {
			v = 100
		}
		s.Ops = append(s.Ops, schedOp{ID: fmt.Sprintf("op%d", i), Suffix: hx.Pick(r, suffixes), Ver: v, Expired: r.Chance(1, 10)})
	}
	nTicks := 1 + r.Intn(5)
	// top-level or injected
	var top []int
	for i := range s.Ops {
		if r.Chance(1, 2) {
			top = append(top, i)
		} else {
			s.Injects = append(s.Injects, inject{Tick: r.Intn(nTicks), Point: hx.Pick(r, c16Points), Occ: 1 + r.Intn(2), Op: i})
		}
	}
	// interleave top-level adds (in index order: version monotone) with ticks
	slots := make([]int, len(top))
	for i := range slots {
		slots[i] = r.Intn(nTicks + 1)
	}
	sort.Ints(slots)
	ti := 0
	for t := 0; t <= nTicks; t++ {
		for ti < len(top) && slots[ti] == t {
			s.Actions = append(s.Actions, fmt.Sprintf("add:%d", top[ti]))
			ti++
		}
		if t < nTicks {
			if r.Chance(1, 2) {
				s.Actions = append(s.Actions, "timeout")
			} else {
				s.Actions = append(s.Actions, "tick")
			}
		}
	}
	if r.Chance(1, 4) {
		// protocol upgrade with another batch size somewhere in the run
		s.Max2 = uint(1 + r.Intn(4))
		if s.Max2 == s.Max {
			s.Max2 = s.Max + 1
		}
		at := r.Intn(len(s.Actions) + 1)
		s.Actions = append(append(append([]string{}, s.Actions[:at]...), "upgrade"), s.Actions[at:]...)
	}
	if r.Chance(1, 4) {
		s.Faults = append(s.Faults, fmt.Sprintf("get:%d", 1+r.Intn(6)))
	}
	for k := 0; k < r.Intn(3); k++ {
		if r.Bool() {
			s.Faults = append(s.Faults, fmt.Sprintf("cas:%d:%d", 1+r.Intn(4), 1+r.Intn(s.NFiles)))
		} else {
			s.Faults = append(s.Faults, fmt.Sprintf("anchor:%d", 1+r.Intn(4)))
		}
	}
	return s
}

func evalSchedule(c *hx.Ctx, s *schedule, tag string) bool {
	c.Eval()
	evs, ops, accepted, stats, err := runSchedule(s)
	if err != nil {
		c.Inconclusive("batch.New failed: %v", err)
		return false
	}
	problems := checkWriterLog(evs, ops, accepted, int(s.Max), true)
	if len(problems) > 0 {
		c.Violation("C16 "+strings.Join(problems, "; ")+" :: "+tag+" "+schedString(s), map[string]interface{}{"schedule": s, "log": logStrings(evs)})
		return false
	}
	for k, v := range stats {
		c.CountN(k, v)
	}
	// non-vacuity bookkeeping
	var sig strings.Builder
	nackSeen, retryOK := false, false
	for _, e := range evs {
		sig.WriteString(e.Kind[:minInt(len(e.Kind), 5)])
		switch e.Kind {
		case "q.nack":
			nackSeen = true
			c.Count("nacks")
		case "q.ack":
			if nackSeen {
				retryOK = true
			}
			c.Count("acks")
		case "prepare.ret":
			if strings.SplitN(e.Extra, "|", 2)[0] != "" {
				c.Count("batches_with_deferred")
			}
			if strings.HasSuffix(e.Extra, "|") == false && e.Err == "" {
				c.Count("batches_with_expired")
			}
		case "q.remove":
			if len(e.IDs) > 0 && len(e.IDs) < int(s.Max) {
				c.Count("undersized_batches")
			}
			vs := strings.Split(e.Extra, ",")
			if len(vs) > 0 && vs[0] == "0" {
				c.Count("batches_version_0")
			} else if len(e.IDs) > 0 {
				c.Count("batches_version_100")
			}
		}
	}
	if retryOK {
		c.Count("nack_followed_by_successful_retry")
	}
	c.CountN("events", len(evs))
	c.Distinct(ref.EncMultihash(ref.SHA256, []byte(sig.String()+schedString(s))))
	return true
}

func schedString(s *schedule) string {
	var ops []string
	for _, o := range s.Ops {
		x := ""
		if o.Expired {
			x = "!"
		}
		ops = append(ops, fmt.Sprintf("%s(%s,v%d%s)", o.ID, o.Suffix, o.Ver, x))
	}
	var inj []string
	for _, i := range s.Injects {
		inj = append(inj, fmt.Sprintf("op%d@tick%d:%s#%d", i.Op, i.Tick, i.Point, i.Occ))
	}
	return fmt.Sprintf("max=%d max-after-upgrade=%d files=%d ops=[%s] actions=%v injects=%v faults=%v", s.Max, s.Max2, s.NFiles, strings.Join(ops, " "), s.Actions, inj, s.Faults)
}

func logStrings(evs []wev) []string {
	out := make([]string, 0, len(evs))
	for _, e := range evs {
		out = append(out, fmt.Sprintf("%d %s ids=%v n=%d ver=%d force=%v err=%s %s", e.Seq, e.Kind, e.IDs, e.N, e.Ver, e.Force, e.Err, e.Extra))
	}
	return out
}

func checkC16(c *hx.Ctx) {
	c.Rule("Mode A (deterministic scheduler through the verif step hook, no goroutines, real Writer + BatchCutter + MemQueue): schedules = 1-6 operations (1-4 DIDs, two protocol versions incl. genesis time 0, expired ones), monitor / timeout ticks chosen by the harness, every pending Add placed either between ticks or at the k-th occurrence of one of nine yield points inside a tick (before Len / Peek / Remove / PrepareTxnFiles / each CAS write / WriteAnchor / Ack / Nack), 0-2 write failures aimed at the j-th CAS write of the i-th batch or the i-th anchor write; an exhaustive family (3 operations x every slot x tick kinds x fault positions) plus PRNG-chosen schedules; after the faults stop, n+1 timeout ticks (bounded drain). The recorded event log is checked offline: E1 exactly-once anchoring / expiry, E2 FIFO removals and nack-to-head against a replayed sequential queue, E3 batch size, E4 one protocol version per batch = version handed on, E5 undersized batches only on timeout or version boundary, E6 deferred operations re-queued, bounded progress. A slice uses the real txnprovider.OperationHandler. Mode B (child process built with -race): real Start() with millisecond tickers, 2-8 adder goroutines, random delays and write failures at the same yield points; E1/E3/E4/E6 at quiescence, the queue-boundary history is checked for linearizability with porcupine against a sequential queue model, any race report is a violation. distinct = distinct (schedule, event-order) hashes")
	c.Set("race_detector_enabled", raceEnabled)
	// ---------- Mode A: exhaustive family
	slots := []string{"before", "between", "after"}
	for t := 0; t < 2; t++ {
		for _, pnt := range c16Points {
			slots = append(slots, fmt.Sprintf("t%d:%s", t, pnt))
		}
	}
	type fam struct {
		a, b, cc string
		k1, k2   string
		fault    string
	}
	var fams []fam
	stride := c.N(7, 1)
	idx := 0
	for _, a := range slots {
		for _, b := range slots {
			for _, cc := range slots {
				for _, k1 := range []string{"tick", "timeout"} {
					for _, k2 := range []string{"tick", "timeout"} {
						for _, f := range []string{"", "cas:1:1", "cas:2:1", "anchor:1", "anchor:2", "cas:1:2"} {
							idx++
							if (idx+int(c.Seed))%stride != 0 {
								continue
							}
							fams = append(fams, fam{a, b, cc, k1, k2, f})
						}
					}
				}
			}
		}
	}
	c.Set("exhaustive_family_size", len(fams))
	hx.Parallel(len(fams), 16, func(i int) {
		if c.Violations() > 8 {
			return
		}
		f := fams[i]
		s := &schedule{Max: 2, NFiles: 2, Ops: []schedOp{{"op0", "didA", 0, false}, {"op1", "didA", 0, false}, {"op2", "didB", 100, false}}}
		place := func(op int, slot string) (string, bool) {
			if strings.HasPrefix(slot, "t") {
				var t int
				var pnt string
				fmt.Sscanf(slot, "t%d:", &t)
				pnt = slot[3:]
				s.Injects = append(s.Injects, inject{Tick: t, Point: pnt, Occ: 1, Op: op})
				return "", false
			}
			return slot, true
		}
		pos := map[string][]int{}
		for op, sl := range []string{f.a, f.b, f.cc} {
			if where, top := place(op, sl); top {
				pos[where] = append(pos[where], op)
			}
		}
		for _, op := range pos["before"] {
			s.Actions = append(s.Actions, fmt.Sprintf("add:%d", op))
		}
		s.Actions = append(s.Actions, f.k1)
		for _, op := range pos["between"] {
			s.Actions = append(s.Actions, fmt.Sprintf("add:%d", op))
		}
		s.Actions = append(s.Actions, f.k2)
		for _, op := range pos["after"] {
			s.Actions = append(s.Actions, fmt.Sprintf("add:%d", op))
		}
		if f.fault != "" {
			s.Faults = []string{f.fault}
		}
		if evalSchedule(c, s, "exhaustive-family") {
			c.Count("modeA_exhaustive_ok")
		}
	})
	// ---------- Mode A: random schedules
	nRand := c.N(30000, 1500000)
	rs := c.Rng("schedules")
	seeds := make([]uint64, 1+nRand/500)
	for i := range seeds {
		seeds[i] = rs.U64()
	}
	hx.Parallel(len(seeds), 16, func(bi int) {
		r := hx.NewRng(seeds[bi], "s")
		for k := 0; k < 500; k++ {
			if c.Violations() > 8 {
				return
			}
			s := randomSchedule(r)
			if evalSchedule(c, s, "random") {
				c.Count("modeA_random_ok")
			}
			if bi == 0 && k < 2 {
				c.Sample(2, map[string]interface{}{"mode": "A", "schedule": schedString(s)})
			}
		}
	})
	// ---------- Mode A with the REAL OperationHandler (slice)
	realHandlerSlice(c)
	writersSharingCompression(c)
	c.Floor("rounds_with_writers_sharing_the_compression_registry", 2)
	c.Floor("real_handler_operations_queued_under_a_namespace_alias", 10)
	handlerFrontSlice(c)
	// ---------- Mode B in a child process under the race detector
	modeB(c)
	for _, pnt := range c16Points {
		c.Floor("inject:"+pnt, 1)
	}
	c.Floor("fault:anchor", 10)
	c.Floor("fault:protocol.get", 10)
	c.Floor("fault:cas.write.1", 10)
	c.Floor("fault:cas.write.2", 5)
	c.Floor("nack_followed_by_successful_retry", 10)
	c.Floor("batches_with_deferred", 10)
	c.Floor("batches_with_expired", 10)
	c.Floor("undersized_batches", 10)
	c.Floor("protocol_upgrades_during_run", 50)
	c.Floor("batches_version_0", 10)
	c.Floor("batches_version_100", 10)
	c.Floor("real_handler_runs", 10)
	c.Floor("document_handler_front_runs", 10)
	c.Floor("document_handler_front_runs_via_rest", 5)
	c.Floor("document_handler_front_runs_with_store_faults", 5)
	c.Floor("real_handler_runs_with_not_yet_valid_operation", 5)
	c.Floor("real_handler_batches_read_back", 50)
}

// ---------------------------------------------------------------------------------------------
// real handler slice: real txnprovider.OperationHandler + MemCAS with write faults, client-built operations

type recRealHandler struct {
	inner    protocol.OperationHandler
	log      *wlog
	yield    yieldFn
	ver      uint64
	included map[string][]string // anchor string -> ids of the operations included in that batch
}

func (h *recRealHandler) PrepareTxnFiles(ops []*operation.QueuedOperation) (*protocol.AnchoringInfo, error) {
	h.yield("prepare")
	ids := make([]string, len(ops))
	for i, o := range ops {
		ids[i] = opID(o)
	}
	h.log.add(wev{Kind: "prepare.call", IDs: ids, Ver: h.ver})
	info, err := h.inner.PrepareTxnFiles(ops)
	if err != nil {
		h.log.add(wev{Kind: "prepare.ret", Err: err.Error()})
		return nil, err
	}
	skip := map[string]bool{}
	var add, exp, inc []string
	for _, o := range info.AdditionalOperations {
		add = append(add, opID(o))
		skip[opID(o)] = true
	}
	for _, o := range info.ExpiredOperations {
		exp = append(exp, opID(o))
		skip[opID(o)] = true
	}
	for _, id := range ids {
		if !skip[id] {
			inc = append(inc, id)
		}
	}
	h.log.add(wev{Kind: "prepare.ret", IDs: inc, Extra: strings.Join(add, ",") + "|" + strings.Join(exp, ","), Ver: h.ver})
	if h.included != nil {
		h.included[info.AnchorString] = inc
	}
	return info, nil
}

// writersSharingCompression: several batch writers of one node (one per namespace) share the node's compression registry and
// cut their batches at the same moment. Every accepted operation is anchored exactly once and every anchored batch reads back.
func writersSharingCompression(c *hx.Ctx) {
	r := c.Rng("shared-compression")
	p := c13Proto(ref.SHA256)
	p.MaxOperationCount = 4
	const nWriters = 4
	for round := 0; round < c.N(2, 25); round++ {
		c.Eval()
		type wr struct {
			w      *batch.Writer
			anchor *recAnchor
			v      *hx.Version
			sub    map[string]bool
		}
		var ws []*wr
		for k := 0; k < nWriters; k++ {
			l := &wlog{}
			yield := func(string) {}
			v := hx.NewVersion(p, hx.VersionOpts{CAS: hx.NewMemCAS()})
			anchor := &recAnchor{log: l, yield: yield}
			w, err := batch.New(hx.Namespace, &writerCtx{pc: hx.NewClient(v), a: anchor, q: newRecQueue(l, yield)})
			if err != nil {
				c.Inconclusive("batch.New: %v", err)
				return
			}
			x := &wr{w: w, anchor: anchor, v: v, sub: map[string]bool{}}
			for _, ops := range batchPool(r, ref.SHA256, 10, k%2 == 0) {
				if err := w.Add(ops[0].queued(), p.GenesisTime); err != nil {
					c.Violation("C16 batch writer refused a valid create: "+err.Error(), nil)
					return
				}
				x.sub[ops[0].Suffix] = true
			}
			ws = append(ws, x)
		}
		var wg sync.WaitGroup
		var mu sync.Mutex
		problem := ""
		for _, x := range ws {
			wg.Add(1)
			go func(x *wr) {
				defer wg.Done()
				defer func() {
					if rec := recover(); rec != nil {
						mu.Lock()
						problem = fmt.Sprintf("a batch writer panicked while another writer of the node was cutting a batch: %v", rec)
						mu.Unlock()
					}
				}()
				for k := 0; k < 8; k++ {
					x.w.VerifProcessAvailable(true)
				}
			}(x)
		}
		wg.Wait()
		if problem != "" {
			c.Violation("C16 (writers sharing the compression registry) "+problem, nil)
			return
		}
		for wi, x := range ws {
			seen := map[string]int{}
			for _, a := range x.anchor.Seen {
				got, err := x.v.Provider.GetTxnOperations(&txn.SidetreeTxn{AnchorString: a, Namespace: hx.Namespace, TransactionTime: 1, ProtocolVersion: p.GenesisTime})
				if err != nil {
					c.Violation(fmt.Sprintf("C16 (writers sharing the compression registry) a batch anchored by writer %d cannot be read back: %v", wi, err), map[string]interface{}{"anchor": a})
					return
				}
				for _, o := range got {
					seen[o.UniqueSuffix]++
				}
			}
			for sfx := range x.sub {
				if seen[sfx] != 1 {
					c.Violation(fmt.Sprintf("C16 (writers sharing the compression registry) an accepted operation of writer %d was anchored %d times (expected exactly once)", wi, seen[sfx]), map[string]interface{}{"suffix": sfx})
					return
				}
			}
		}
		c.Count("rounds_with_writers_sharing_the_compression_registry")
	}
}

func realHandlerSlice(c *hx.Ctx) {
	r := c.Rng("real")
	p := c13Proto(ref.SHA256)
	p.MaxOperationCount = 3
	bp := batchPool(r, ref.SHA256, 5, false)
	// operations that are not yet valid: anchorFrom lies 100 ticks ahead of the virtual clock at submission time. The handler
	// refuses the whole batch until the clock reaches anchorFrom (the batch is rolled back and retried), then anchors it
	var early []*batchOp
	for k := 0; k < 3; k++ {
		cd, cr, err := NewCDid(r.Split(fmt.Sprint("early", k)), ref.SHA256, []string{"P-256"}, 300, false, genPatches(r, 2, newIDPool(r)), nil, "o", "")
		if err != nil {
			panic(err)
		}
		cd.Suffix = suffixOf(cr.Req, ref.SHA256)
		var b *BuiltOp
		if k == 2 {
			b, err = cd.Deactivate(200, 0)
		} else {
			b, err = cd.Update(genPatches(r, 2, newIDPool(r)), 200, int64(k)*600)
		}
		if err != nil {
			panic(err)
		}
		early = append(early, &batchOp{ID: fmt.Sprintf("early%d-%s", k, b.Desc.Type), Type: b.Desc.Type, Suffix: cd.Suffix, Req: b.Req, QOrigin: "o"})
	}
	bp = append(bp, early)
	nRuns := c.N(150, 3000)
	for run := 0; run < nRuns; run++ {
		if c.Violations() > 8 {
			return
		}
		c.Eval()
		l := &wlog{}
		writes := 0
		failAt := 0
		if r.Chance(1, 2) {
			failAt = 1 + r.Intn(8)
		}
		cas := hx.NewMemCAS()
		cas.WriteErr = func(call int, _ []byte) error {
			writes = call
			if call == failAt {
				l.add(wev{Kind: "cas.write", N: call, Err: "injected"})
				return errInjected
			}
			l.add(wev{Kind: "cas.write", N: call})
			return nil
		}
		yield := func(string) {}
		q := newRecQueue(l, yield)
		anchor := &recAnchor{log: l, yield: yield}
		anchorFail := 0
		if r.Chance(1, 3) {
			anchorFail = 1 + r.Intn(3)
		}
		anchor.fail = func(_ string, call int) error {
			if call == anchorFail {
				return errInjected
			}
			return nil
		}
		clock := &virtualClock{now: 100}
		v := hx.NewVersion(p, hx.VersionOpts{CAS: cas, ParserOpts: []operationparser.Option{operationparser.WithAnchorTimeValidator(clock)}})
		included := map[string][]string{}
		pc := hx.NewClient(&handlerVersion{p, &recRealHandler{inner: v.Handler, log: l, yield: yield, ver: p.GenesisTime, included: included}})
		w, err := batch.New(hx.Namespace, &writerCtx{pc: pc, a: anchor, q: q})
		if err != nil {
			c.Inconclusive("batch.New: %v", err)
			return
		}
		ops := map[string]opInfo{}
		accepted := map[string]bool{}
		n := 2 + r.Intn(7)
		var descr []string
		usedReq := map[string]bool{}
		withEarly := r.Chance(1, 3)
		for k := 0; k < n; k++ {
			d := r.Intn(3)
			if withEarly && r.Chance(1, 3) {
				d = len(bp) - 1 // a not-yet-valid operation
			}
			var cands []*batchOp
			for _, o := range bp[d] {
				if o.Until == 0 && !usedReq[o.ID] {
					cands = append(cands, o)
				}
			}
			if len(cands) == 0 {
				continue
			}
			b := hx.Pick(r, cands)
			usedReq[b.ID] = true
			qo := b.queued()
			if run%3 == 2 && r.Chance(1, 2) {
				// the same DID addressed through a namespace alias: still the same DID for "one operation per DID per batch"
				qo.Namespace = "did:alias"
				c.Count("real_handler_operations_queued_under_a_namespace_alias")
			}
			qo.Properties = []operation.Property{{Key: "id", Value: b.ID}}
			ops[b.ID] = opInfo{p.GenesisTime, b.Suffix, false}
			l.add(wev{Kind: "add.call", IDs: []string{b.ID}})
			e := w.Add(qo, p.GenesisTime)
			l.add(wev{Kind: "add.ret", IDs: []string{b.ID}, Err: errStr(e)})
			if e == nil {
				accepted[b.ID] = true
			}
			descr = append(descr, b.ID)
			if r.Chance(1, 3) {
				force := r.Bool()
				l.add(wev{Kind: "step.call", Force: force})
				w.VerifProcessAvailable(force)
				l.add(wev{Kind: "step.ret"})
			}
		}
		failAtWas := failAt
		failAt, anchorFail = 0, 0
		for id := range usedReq {
			if strings.HasPrefix(id, "early") {
				c.Count("real_handler_runs_with_not_yet_valid_operation")
				break
			}
		}
		atomic.StoreInt64(&clock.now, 250) // every anchorFrom has been reached: the retried batches must go through now
		for k := 0; k <= n+1; k++ {
			l.add(wev{Kind: "step.call", Force: true})
			w.VerifProcessAvailable(true)
			l.add(wev{Kind: "step.ret"})
		}
		if problems := checkWriterLog(l.evs, ops, accepted, int(p.MaxOperationCount), true); len(problems) > 0 {
			c.Violation("C16 (real OperationHandler) "+strings.Join(problems, "; ")+fmt.Sprintf(" :: ops=%v cas writes=%d", descr, writes), map[string]interface{}{"ops": descr, "log": logStrings(l.evs)})
			return
		}
		// "successfully anchored" also means readable: every anchored batch must read back through the real provider as exactly
		// the operations the handler reported as included
		for _, anchorStr := range anchor.Seen {
			got, err := v.Provider.GetTxnOperations(&txn.SidetreeTxn{AnchorString: anchorStr, Namespace: hx.Namespace, TransactionTime: 1, ProtocolVersion: p.GenesisTime})
			if err != nil {
				c.Violation(fmt.Sprintf("C16 (real OperationHandler) an anchored batch cannot be read back: %v :: ops=%v, CAS write failure injected at write %d", err, descr, failAtWas),
					map[string]interface{}{"ops": descr, "anchor": anchorStr, "log": logStrings(l.evs)})
				return
			}
			want := included[anchorStr]
			gotIDs := map[string]bool{}
			for _, o := range got {
				for _, ops5 := range bp {
					for _, b := range ops5 {
						if b.Suffix == o.UniqueSuffix && canonReq(b.Req) == canonReq(o.OperationRequest) {
							gotIDs[b.ID] = true
						}
					}
				}
			}
			if len(got) != len(want) || len(gotIDs) != len(want) {
				c.Violation(fmt.Sprintf("C16 (real OperationHandler) anchored batch %s reads back %d operations (%d recognised), the handler included %v", anchorStr, len(got), len(gotIDs), want),
					map[string]interface{}{"ops": descr, "anchor": anchorStr})
				return
			}
			for _, id := range want {
				if !gotIDs[id] {
					c.Violation(fmt.Sprintf("C16 (real OperationHandler) operation %s was reported as included in batch %s but does not read back", id, anchorStr), map[string]interface{}{"ops": descr})
					return
				}
			}
			c.Count("real_handler_batches_read_back")
		}
		c.Count("real_handler_runs")
		c.Distinct("real|" + strings.Join(descr, ",") + fmt.Sprint(failAt, anchorFail, run))
	}
}

// ---------------------------------------------------------------------------------------------
// Mode B

type stressResult struct {
	Runs            int      `json:"runs"`
	Violations      []string `json:"violations"`
	Inconclusive    []string `json:"inconclusive"`
	PorcupineOK     int      `json:"porcupine_ok"`
	PorcupineUnk    int      `json:"porcupine_unknown"`
	OrderHashes     int      `json:"distinct_event_orders"`
	AddDuringFlight int      `json:"runs_with_add_between_remove_and_ack"`
	Events          int      `json:"events"`
	Nacks           int      `json:"nacks"`
	Sample          []string `json:"sample"`
	Race            bool     `json:"race_detector"`
}

func modeB(c *hx.Ctx) {
	bin := os.Getenv("VERIF_BIN")
	if bin == "" {
		bin, _ = os.Executable()
	}
	dir := filepath.Join(c.Root, "work", fmt.Sprintf("c16-stress-%d", os.Getpid()))
	_ = os.MkdirAll(dir, 0o755)
	defer os.RemoveAll(dir)
	runs := c.N(60, 2500)
	out := filepath.Join(dir, "result.json")
	cmd := exec.Command(bin, "c16stress", fmt.Sprint(c.Seed), fmt.Sprint(runs), out)
	cmd.Env = append(os.Environ(), "GORACE=halt_on_error=0 log_path="+filepath.Join(dir, "race")+" exitcode=0")
	errF, _ := os.Create(filepath.Join(dir, "stderr"))
	cmd.Stderr = errF
	done := make(chan error, 1)
	_ = cmd.Start()
	go func() { done <- cmd.Wait() }()
	select {
	case err := <-done:
		if err != nil {
			b, _ := os.ReadFile(filepath.Join(dir, "stderr"))
			c.Violation("C16 Mode B stress process died: "+err.Error()+" "+trunc600(string(b)), map[string]interface{}{"stderr": trunc600(string(b))})
			return
		}
	case <-time.After(time.Duration(c.N(600, 7200)) * time.Second):
		_ = cmd.Process.Kill()
		c.Inconclusive("Mode B stress watchdog fired")
		return
	}
	var res stressResult
	b, err := os.ReadFile(out)
	if err != nil || json.Unmarshal(b, &res) != nil {
		c.Inconclusive("Mode B result unreadable: %v", err)
		return
	}
	for _, v := range res.Violations {
		c.Violation("C16 (Mode B, concurrent) "+v, map[string]interface{}{"mode": "B", "detail": v})
	}
	// single stress runs whose wall-clock watchdog fired (no quiescence within 60 s, history checker timeout) are left out of
	// the verdict and counted; the check as a whole is inconclusive only if that happens to more than one run in twenty
	c.CountN("modeB_runs_left_out_as_inconclusive", len(res.Inconclusive))
	if len(res.Inconclusive) > 0 {
		c.Set("modeB_inconclusive_runs", res.Inconclusive[:minInt(len(res.Inconclusive), 10)])
	}
	if len(res.Inconclusive)*20 > res.Runs+len(res.Inconclusive) {
		c.Inconclusive("Mode B: %d of %d stress runs were inconclusive (first: %s)", len(res.Inconclusive), res.Runs, res.Inconclusive[0])
	}
	// race reports
	logs, _ := filepath.Glob(filepath.Join(dir, "race*"))
	races := 0
	var first string
	for _, f := range logs {
		rb, _ := os.ReadFile(f)
		n := strings.Count(string(rb), "WARNING: DATA RACE")
		races += n
		if n > 0 && first == "" {
			first = trunc600(string(rb))
		}
	}
	if races > 0 {
		c.Violation(fmt.Sprintf("C16 the race detector reported %d data race(s) in the concurrent batch writer workload: %s", races, first), map[string]interface{}{"race_report": first})
	}
	c.EvalN(res.Runs)
	c.CountN("modeB_runs", res.Runs)
	c.CountN("modeB_porcupine_ok", res.PorcupineOK)
	c.CountN("modeB_porcupine_unknown", res.PorcupineUnk)
	c.CountN("modeB_distinct_event_orders", res.OrderHashes)
	c.CountN("modeB_runs_with_add_between_remove_and_ack", res.AddDuringFlight)
	c.CountN("modeB_events", res.Events)
	c.CountN("modeB_nacks", res.Nacks)
	c.Set("modeB_race_detector", res.Race)
	c.Set("race_reports", races)
	if len(res.Sample) > 0 {
		c.Sample(4, map[string]interface{}{"mode": "B", "history_head": res.Sample})
	}
	if res.Runs > 0 && res.OrderHashes*5 < res.Runs*2 {
		c.Inconclusive("Mode B produced only %d distinct event orders in %d runs", res.OrderHashes, res.Runs)
	}
	if res.AddDuringFlight == 0 {
		c.Inconclusive("Mode B never observed an Add between a remove and its ack/nack")
	}
	if !res.Race {
		c.Inconclusive("Mode B child was not built with the race detector")
	}
}

// queue model for porcupine
type qIn struct {
	Op string
	ID string
	N  int
}
type qOut struct {
	N   int
	IDs string
}

var queueModel = porcupine.Model{
	Init: func() interface{} { return "|" },
	Step: func(state, input, output interface{}) (bool, interface{}) {
		st := state.(string)
		parts := strings.SplitN(st, "|", 2)
		var q []string
		if parts[0] != "" {
			q = strings.Split(parts[0], ",")
		}
		inflight := parts[1]
		in, out := input.(qIn), output.(qOut)
		enc := func(q []string, fl string) string { return strings.Join(q, ",") + "|" + fl }
		switch in.Op {
		case "add":
			q = append(q, in.ID)
			return out.N == len(q), enc(q, inflight)
		case "len":
			return out.N == len(q), st
		case "peek":
			n := in.N
			if n > len(q) {
				n = len(q)
			}
			return out.IDs == strings.Join(q[:n], ","), st
		case "remove":
			n := in.N
			if n > len(q) {
				n = len(q)
			}
			return out.IDs == strings.Join(q[:n], ","), enc(q[n:], strings.Join(q[:n], ","))
		case "ack":
			return out.N == len(q), enc(q, "")
		case "nack":
			var fl []string
			if inflight != "" {
				fl = strings.Split(inflight, ",")
			}
			return true, enc(append(fl, q...), "")
		}
		return false, st
	},
	Equal: func(a, b interface{}) bool { return a.(string) == b.(string) },
	DescribeOperation: func(in, out interface{}) string {
		return fmt.Sprintf("%v -> %v", in, out)
	},
}

func stressMain(args []string) {
	var seed uint64
	var runs int
	fmt.Sscan(args[0], &seed)
	fmt.Sscan(args[1], &runs)
	res := stressResult{Race: raceEnabled}
	orders := map[string]bool{}
	root := hx.NewRng(seed, "c16-stress")
	only, repeat := -1, 1
	if len(args) > 3 {
		fmt.Sscan(args[3], &only)
	}
	if len(args) > 4 {
		fmt.Sscan(args[4], &repeat)
	}
	for run := 0; run < runs && len(res.Violations) < 5; run++ {
		runSeed := root.U64()
		if only >= 0 && run != only {
			continue
		}
		for rep := 0; rep < repeat && len(res.Violations) < 5; rep++ {
			r := hx.NewRng(runSeed, fmt.Sprint(run))
			l := &wlog{}
			var faultsOn int32 = 1
			dr := r.Split("delay") // used by the writer goroutine only
			delay := func(string) {
				switch dr.Intn(6) {
				case 0:
					runtime.Gosched()
				case 1:
					time.Sleep(time.Duration(20+dr.Intn(300)) * time.Microsecond)
				}
			}
			// the yield function is called from the writer goroutine only; r is not shared with adders (they get their own)
			q := newRecQueue(l, delay)
			anchor := &recAnchor{log: l, yield: delay}
			faultP := r.Intn(4) // out of 8
			var fr sync.Mutex
			frng := r.Split("faults")
			coin := func() bool {
				fr.Lock()
				defer fr.Unlock()
				return frng.Intn(8) < faultP
			}
			anchor.fail = func(string, int) error {
				if atomic.LoadInt32(&faultsOn) == 1 && coin() {
					return errInjected
				}
				return nil
			}
			max := uint(1 + r.Intn(4))
			mk := func(ver uint64) *stubHandler {
				h := &stubHandler{log: l, yield: delay, nFiles: 2, ver: ver}
				h.cas = func([]string, int) error {
					if atomic.LoadInt32(&faultsOn) == 1 && coin() {
						return errInjected
					}
					return nil
				}
				return h
			}
			p0, p1 := hx.BaseProtocol(), hx.BaseProtocol()
			p0.GenesisTime, p1.GenesisTime = 0, 100
			p0.MaxOperationCount, p1.MaxOperationCount = max, max
			pc := hx.NewClient(&handlerVersion{p0, mk(0)}, &handlerVersion{p1, mk(100)})
			w, err := batch.New(hx.Namespace, &writerCtx{pc: pc, a: anchor, q: q}, batch.WithBatchTimeout(3*time.Millisecond), batch.WithMonitorInterval(time.Millisecond))
			if err != nil {
				res.Inconclusive = append(res.Inconclusive, err.Error())
				break
			}
			w.Start()
			nAdders := 2 + r.Intn(7)
			perAdder := 1 + r.Intn(4)
			ops := map[string]opInfo{}
			accepted := map[string]bool{}
			var amu sync.Mutex
			var wg sync.WaitGroup
			var phase int32 // version switch: adders read the current version
			for a := 0; a < nAdders; a++ {
				ar := r.Split(fmt.Sprint("adder", a))
				wg.Add(1)
				go func(a int) {
					defer wg.Done()
					for k := 0; k < perAdder; k++ {
						ver := uint64(0)
						if atomic.LoadInt32(&phase) == 1 {
							ver = 100
						}
						o := schedOp{ID: fmt.Sprintf("a%d-%d", a, k), Suffix: fmt.Sprintf("did%d", ar.Intn(4)), Ver: ver, Expired: ar.Chance(1, 12)}
						amu.Lock()
						ops[o.ID] = opInfo{o.Ver, o.Suffix, o.Expired}
						amu.Unlock()
						l.add(wev{Kind: "add.call", IDs: []string{o.ID}, Ver: ver, G: fmt.Sprint("adder", a)})
						e := w.Add(o.queued(), ver)
						l.add(wev{Kind: "add.ret", IDs: []string{o.ID}, Err: errStr(e), G: fmt.Sprint("adder", a)})
						if e == nil {
							amu.Lock()
							accepted[o.ID] = true
							amu.Unlock()
						}
						if ar.Chance(1, 2) {
							time.Sleep(time.Duration(ar.Intn(1500)) * time.Microsecond)
						}
						if ar.Chance(1, 6) {
							atomic.StoreInt32(&phase, 1)
						}
					}
				}(a)
			}
			wg.Wait()
			atomic.StoreInt32(&faultsOn, 0)
			// quiescence: every accepted operation anchored or expired (generous wall-clock watchdog => inconclusive)
			deadline := time.Now().Add(60 * time.Second)
			quiet := false
			for time.Now().Before(deadline) {
				// quiet = nothing queued and no batch between the queue and its acknowledgement (the counter is raised before the
				// batch leaves the queue and lowered after its ack / nack event is in the log: an earlier version looked at the last
				// logged event instead and, on a loaded machine, declared quiescence while a removed batch had not been logged yet)
				if q.inner.Len() == 0 && atomic.LoadInt32(&q.busy) == 0 {
					time.Sleep(8 * time.Millisecond)
					if q.inner.Len() == 0 && atomic.LoadInt32(&q.busy) == 0 {
						quiet = true
						break
					}
				}
				time.Sleep(2 * time.Millisecond)
			}
			w.Stop()
			time.Sleep(5 * time.Millisecond)
			res.Runs++
			l.mu.Lock()
			evs := append([]wev{}, l.evs...)
			l.mu.Unlock()
			sort.Slice(evs, func(i, j int) bool { return evs[i].Seq < evs[j].Seq })
			if !quiet {
				res.Inconclusive = append(res.Inconclusive, fmt.Sprintf("run %d did not quiesce within the watchdog", run))
				continue
			}
			problems := checkWriterLog(evs, ops, accepted, int(max), false)
			for _, p := range problems {
				res.Violations = append(res.Violations, fmt.Sprintf("run %d (max=%d adders=%d): %s", run, max, nAdders, p))
			}
			if len(problems) > 0 && os.Getenv("VERIF_C16_DUMP") != "" {
				_ = os.WriteFile(os.Getenv("VERIF_C16_DUMP"), []byte(strings.Join(logStrings(evs), "\n")), 0o644)
			}
			// porcupine on the queue boundary
			var hist []porcupine.Operation
			inFlight, addDuring := false, false
			var sig strings.Builder
			for _, e := range evs {
				sig.WriteString(e.Kind + ";")
				res.Events++
				var in qIn
				var out qOut
				switch e.Kind {
				case "q.add":
					in, out = qIn{Op: "add", ID: e.IDs[0]}, qOut{N: e.N}
					if inFlight {
						addDuring = true
					}
				case "q.len":
					in, out = qIn{Op: "len"}, qOut{N: e.N}
				case "q.peek":
					in, out = qIn{Op: "peek", N: e.N}, qOut{IDs: strings.Join(e.IDs, ",")}
				case "q.remove":
					in, out = qIn{Op: "remove", N: e.N}, qOut{IDs: strings.Join(e.IDs, ",")}
					inFlight = true
				case "q.ack":
					in, out = qIn{Op: "ack"}, qOut{N: e.N}
					inFlight = false
				case "q.nack":
					in = qIn{Op: "nack"}
					inFlight = false
					res.Nacks++
				default:
					continue
				}
				hist = append(hist, porcupine.Operation{ClientId: 0, Input: in, Call: e.CallSeq, Output: out, Return: e.Seq})
			}
			if addDuring {
				res.AddDuringFlight++
			}
			orders[ref.EncMultihash(ref.SHA256, []byte(sig.String()))] = true
			// client ids: porcupine only needs well-formed intervals
			for i := range hist {
				hist[i].ClientId = i % 64
			}
			result, _ := porcupine.CheckOperationsVerbose(queueModel, hist, 30*time.Second)
			switch result {
			case porcupine.Ok:
				res.PorcupineOK++
			case porcupine.Illegal:
				var h []string
				for _, o := range hist {
					h = append(h, fmt.Sprintf("[%d,%d] %v -> %v", o.Call, o.Return, o.Input, o.Output))
				}
				res.Violations = append(res.Violations, fmt.Sprintf("run %d: queue history is not linearizable w.r.t. the sequential FIFO queue model (E2): %s", run, trunc600(strings.Join(h, " | "))))
			default:
				res.PorcupineUnk++
				res.Inconclusive = append(res.Inconclusive, fmt.Sprintf("run %d: porcupine timed out", run))
			}
			if run == 0 {
				for _, e := range evs[:minInt(len(evs), 25)] {
					res.Sample = append(res.Sample, fmt.Sprintf("%d %s %s%v", e.Seq, e.G, e.Kind, e.IDs))
				}
			}
		}
	}
	res.OrderHashes = len(orders)
	b, _ := json.Marshal(res)
	_ = os.WriteFile(args[2], b, 0o644)
}

// ---------------------------------------------------------------------------------------------
// document handler in front of the writer: operations enter through DocumentHandler.ProcessOperation, the caller naming the
// protocol version by ANY time inside its validity period (not only by its genesis time). Operations of one version must
// end up under one queue key: no version boundary where there is none (E5), right handler (E4), exactly once (E1).

func handlerFrontSlice(c *hx.Ctx) {
	r := c.Rng("handler-front")
	nRuns := c.N(60, 1200)
	for run := 0; run < nRuns; run++ {
		if c.Violations() > 8 {
			return
		}
		c.Eval()
		l := &wlog{}
		yield := func(string) {}
		q := newRecQueue(l, yield)
		anchor := &recAnchor{log: l, yield: yield}
		p0 := c13Proto(ref.SHA256)
		p0.MaxOperationCount = uint(2 + r.Intn(3))
		p1 := p0
		p1.GenesisTime = 100
		cas := hx.NewMemCAS()
		v0, v1 := hx.NewVersion(p0, hx.VersionOpts{CAS: cas}), hx.NewVersion(p1, hx.VersionOpts{CAS: cas})
		v0.Handler = &recRealHandler{inner: v0.Handler, log: l, yield: yield, ver: 0}
		v1.Handler = &recRealHandler{inner: v1.Handler, log: l, yield: yield, ver: 100}
		twoVers := r.Bool()
		var pc *hx.Client
		if twoVers {
			pc = hx.NewClient(v0, v1)
		} else {
			pc = hx.NewClient(v0)
		}
		w, err := batch.New(hx.Namespace, &writerCtx{pc: pc, a: anchor, q: q})
		if err != nil {
			c.Inconclusive("batch.New: %v", err)
			return
		}
		// an unpublished-operation store whose Put fails now and then: an operation refused for that reason was never accepted,
		// so it must not be anchored (and a retry of it is an ordinary new submission)
		unpub := &recUnpub{}
		failPuts := run%3 == 0
		if failPuts {
			failAt := map[int]bool{1 + r.Intn(4): true, 3 + r.Intn(6): true}
			unpub.PutErr = func(call int) error {
				if failAt[call] {
					return errInjected
				}
				return nil
			}
			c.Count("document_handler_front_runs_with_store_faults")
		}
		dh := dochandler.New(hx.Namespace, nil, pc, w, processor.New("verif", hx.NewOpStore(), pc), hx.NopMetrics{}, dochandler.WithUnpublishedOperationStore(unpub, allOpTypes))
		viaREST := run%2 == 1
		rest := restdoc.NewUpdateHandler(dh, pc, hx.NopMetrics{})
		if viaREST {
			c.Count("document_handler_front_runs_via_rest")
		}
		ops := map[string]opInfo{}
		accepted := map[string]bool{}
		n := 3 + r.Intn(8)
		vt := uint64(r.Intn(3))
		var descr []string
		for k := 0; k < n; k++ {
			_, cr, err := NewCDid(r.Split(fmt.Sprint("hf", run, k)), ref.SHA256, []string{"P-256"}, 300, false, []interface{}{patchAddKeys(genKeyEntry(r, "k1"))}, nil, "o", "")
			if err != nil {
				panic(err)
			}
			vt += uint64(r.Intn(40)) // version times only grow; with two versions they cross the genesis time of the second
			if !twoVers && vt >= 100 {
				vt = 99
			}
			ver := uint64(0)
			if twoVers && vt >= 100 {
				ver = 100
			}
			id := string(cr.Req)
			var e error
			if viaREST {
				// through the REST front end (it names the current version by its genesis time); the request bytes handed to
				// the queue must stay what the client sent, whatever later requests do to buffers
				if twoVers {
					ver = 100
				}
				rw := httptest.NewRecorder()
				rest.Update(rw, httptest.NewRequest(http.MethodPost, "/operations", bytes.NewReader(append([]byte{}, cr.Req...))))
				if rw.Code != http.StatusOK {
					e = fmt.Errorf("http %d: %s", rw.Code, rw.Body.String())
				}
			} else {
				_, e = dh.ProcessOperation(cr.Req, vt)
			}
			ops[id] = opInfo{ver, suffixOf(cr.Req, ref.SHA256), false}
			if e != nil && failPuts {
				descr = append(descr, fmt.Sprintf("create@vt%d(refused: store fault)", vt))
				continue // refused: never accepted
			}
			if e != nil {
				c.Violation(fmt.Sprintf("C16 (document handler in front) a valid create named by version time %d was refused: %v", vt, e), map[string]interface{}{"request": id})
				return
			}
			accepted[id] = true
			descr = append(descr, fmt.Sprintf("create@vt%d", vt))
			if r.Chance(1, 3) {
				force := r.Chance(1, 3)
				l.add(wev{Kind: "step.call", Force: force})
				w.VerifProcessAvailable(force)
				l.add(wev{Kind: "step.ret"})
			}
		}
		for k := 0; k <= n+1; k++ {
			l.add(wev{Kind: "step.call", Force: true})
			w.VerifProcessAvailable(true)
			l.add(wev{Kind: "step.ret"})
		}
		if problems := checkWriterLog(l.evs, ops, accepted, int(p0.MaxOperationCount), true); len(problems) > 0 {
			for i := range problems {
				problems[i] = trunc600(problems[i])
			}
			c.Violation("C16 (document handler in front) "+strings.Join(problems, "; ")+fmt.Sprintf(" :: ops=%v max=%d two-versions=%v", descr, p0.MaxOperationCount, twoVers), map[string]interface{}{"ops": descr})
			return
		}
		c.Count("document_handler_front_runs")
		c.Distinct(fmt.Sprintf("hf|%v|%d|%v", descr, p0.MaxOperationCount, twoVers))
	}
}
