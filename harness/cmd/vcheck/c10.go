package main

import (
	"bytes"
	"net/http"
	"net/http/httptest"

	"encoding/json"
	"fmt"
	"sort"
	"strings"
	"time"

	"github.com/trustbloc/sidetree-core-go/pkg/api/protocol"
	"github.com/trustbloc/sidetree-core-go/pkg/dochandler"
	"github.com/trustbloc/sidetree-core-go/pkg/processor"
	restdoc "github.com/trustbloc/sidetree-core-go/pkg/restapi/dochandler"

	"verifharness/hx"
	"verifharness/ref"
)

func init() {
	register("C10", "exploration", checkC10)
	workers["parse"] = func(args []string) { hx.ServeWorker(args[0], probed(parseCall, parseProbe)) }
}

type parseCase struct {
	Entry string            `json:"entry"` // Parse | ParseOperation | ParseOperationBatch | GetRevealValue | GetCommitment | ParseDID | Handler
	Proto protocol.Protocol `json:"proto"`
	Input string            `json:"input"` // base64url
	// HandlerWarm: a handler serving two protocol versions (Proto0 from genesis 0, Proto from its own genesis time) first
	// processes Warm under version 0, then Input under Proto's version; the reply reports the second call
	Proto0 *protocol.Protocol `json:"proto0,omitempty"`
	Warm   string             `json:"warm,omitempty"`
}

func parseCall(p []byte) (reply []byte) {
	defer func() {
		if r := recover(); r != nil {
			reply = []byte(fmt.Sprintf("PANIC:%v", r))
		}
	}()
	var c parseCase
	if err := json.Unmarshal(p, &c); err != nil {
		return []byte("SKIP:" + err.Error())
	}
	in, _ := ref.UnB64(c.Input)
	v := hx.NewVersion(c.Proto, hx.VersionOpts{})
	var err error
	switch c.Entry {
	case "Parse":
		_, err = v.Parser.Parse(hx.Namespace, in)
	case "ParseAfterBatchCalls":
		// the same parser first serves the resolution-side entry points for these very bytes (what a node does with a request it
		// has seen in a batch), then intake: intake judges as if it saw the request for the first time
		_, _ = v.Parser.GetRevealValue(in)
		_, _ = v.Parser.GetCommitment(in)
		_, _ = v.Parser.ParseOperation(hx.Namespace, in, true)
		_, err = v.Parser.Parse(hx.Namespace, in)
	case "ParseOperation":
		_, err = v.Parser.ParseOperation(hx.Namespace, in, false)
	case "ParseOperationBatch":
		_, err = v.Parser.ParseOperation(hx.Namespace, in, true)
	case "GetRevealValue":
		_, err = v.Parser.GetRevealValue(in)
	case "GetCommitment":
		_, err = v.Parser.GetCommitment(in)
	case "ParseDID":
		_, _, err = v.Parser.ParseDID(hx.Namespace, string(in))
	case "Handler":
		pc := hx.NewClient(v)
		w := &hx.RecWriter{}
		dh := dochandler.New(hx.Namespace, nil, pc, w, processor.New("verif", hx.NewOpStore(), pc), hx.NopMetrics{})
		_, err = dh.ProcessOperation(in, c.Proto.GenesisTime)
		if (err == nil) != (w.Len() == 1) {
			return []byte(fmt.Sprintf("PANIC:handler returned err=%v but recorded %d writer adds", err, w.Len()))
		}
	case "RestUpdate":
		// the REST front end of the document handler: accepted = HTTP 200
		pc := hx.NewClient(v)
		w := &hx.RecWriter{}
		dh := dochandler.New(hx.Namespace, nil, pc, w, processor.New("verif", hx.NewOpStore(), pc), hx.NopMetrics{})
		rw := httptest.NewRecorder()
		restdoc.NewUpdateHandler(dh, pc, hx.NopMetrics{}).Update(rw, httptest.NewRequest(http.MethodPost, "/operations", bytes.NewReader(in)))
		if (rw.Code == http.StatusOK) != (w.Len() == 1) {
			return []byte(fmt.Sprintf("PANIC:REST handler answered %d but recorded %d writer adds", rw.Code, w.Len()))
		}
		if rw.Code != http.StatusOK {
			err = fmt.Errorf("http %d: %s", rw.Code, strings.TrimSpace(rw.Body.String()))
		}
	case "HandlerWarm":
		v0 := hx.NewVersion(*c.Proto0, hx.VersionOpts{})
		pc := hx.NewClient(v0, v)
		w := &hx.RecWriter{}
		dh := dochandler.New(hx.Namespace, nil, pc, w, processor.New("verif", hx.NewOpStore(), pc), hx.NopMetrics{})
		if c.Warm != "" {
			warm, _ := ref.UnB64(c.Warm)
			if _, werr := dh.ProcessOperation(warm, c.Proto0.GenesisTime); werr != nil {
				return []byte("SKIP:warm-up request refused: " + werr.Error())
			}
		}
		before := w.Len()
		_, err = dh.ProcessOperation(in, c.Proto.GenesisTime)
		if (err == nil) != (w.Len() == before+1) {
			return []byte(fmt.Sprintf("PANIC:handler returned err=%v but recorded %d writer adds", err, w.Len()-before))
		}
	}
	if err != nil {
		return []byte("ERR:" + err.Error())
	}
	return []byte("OK:")
}

// ---------- independent acceptance predicate over the raw JSON ----------

func getCI(m map[string]interface{}, name string) (interface{}, bool) {
	if v, ok := m[name]; ok {
		return v, true
	}
	for k, v := range m {
		if strings.EqualFold(k, name) {
			return v, true
		}
	}
	return nil, false
}

func strCI(m map[string]interface{}, name string) string {
	v, _ := getCI(m, name)
	s, _ := v.(string)
	return s
}

func objCI(m map[string]interface{}, name string) map[string]interface{} {
	v, _ := getCI(m, name)
	o, _ := v.(map[string]interface{})
	return o
}

func containsU(xs []uint, x uint64) bool {
	for _, v := range xs {
		if uint64(v) == x {
			return true
		}
	}
	return false
}

func containsS(xs []string, x string) bool {
	for _, v := range xs {
		if v == x {
			return true
		}
	}
	return false
}

// predicate returns "" when every protocol rule holds for the (accepted) request, else the first broken rule.
func predicate(p protocol.Protocol, raw []byte) string {
	if len(raw) > int(p.MaxOperationSize) {
		return fmt.Sprintf("request size %d > MaxOperationSize %d", len(raw), p.MaxOperationSize)
	}
	var m map[string]interface{}
	if err := json.Unmarshal(raw, &m); err != nil {
		return "not a JSON object"
	}
	typ := strCI(m, "type")
	mh := func(what, v string) string {
		if len(v) > int(p.MaxOperationHashLength) {
			return fmt.Sprintf("%s longer than MaxOperationHashLength", what)
		}
		code, _, err := ref.DecodeMultihash(v)
		if err != nil {
			return what + " is not a well-formed multihash: " + err.Error()
		}
		if !containsU(p.MultihashAlgorithms, code) {
			return fmt.Sprintf("%s uses multihash code %#x which is not allowed", what, code)
		}
		return ""
	}
	deltaRules := func() (map[string]interface{}, string) {
		d := objCI(m, "delta")
		if d == nil {
			return nil, "missing delta"
		}
		patches, _ := getCI(d, "patches")
		pl, _ := patches.([]interface{})
		if len(pl) == 0 {
			return nil, "missing patches"
		}
		for _, pt := range pl {
			pm, _ := pt.(map[string]interface{})
			act, _ := pm["action"].(string)
			if !containsS(p.Patches, act) {
				return nil, "patch action '" + act + "' is not enabled"
			}
		}
		uc := strCI(d, "updateCommitment")
		if e := mh("update commitment", uc); e != "" {
			return nil, e
		}
		canon := map[string]interface{}{"patches": patches, "updateCommitment": uc}
		if n := len(ref.MustJCS(canon)); n > int(p.MaxDeltaSize) {
			return nil, fmt.Sprintf("canonical delta size %d > MaxDeltaSize %d", n, p.MaxDeltaSize)
		}
		return canon, ""
	}
	signedRules := func(keyMember string) (map[string]interface{}, map[string]interface{}, string) {
		h, pl, _ := ref.SplitJWS(strCI(m, "signedData"))
		hb, err := ref.UnB64(h)
		if err != nil {
			return nil, nil, "protected header is not base64url"
		}
		var hdr map[string]interface{}
		if json.Unmarshal(hb, &hdr) != nil {
			return nil, nil, "protected header is not a JSON object"
		}
		alg, _ := hdr["alg"].(string)
		if !containsS(p.SignatureAlgorithms, alg) {
			return nil, nil, "signature algorithm '" + alg + "' not allowed"
		}
		for k := range hdr {
			if k != "alg" && k != "kid" {
				return nil, nil, "protected header member '" + k + "' not allowed"
			}
		}
		pb, err := ref.UnB64(pl)
		if err != nil {
			return nil, nil, "payload is not base64url"
		}
		var payload map[string]interface{}
		if json.Unmarshal(pb, &payload) != nil {
			return nil, nil, "signed data is not a JSON object"
		}
		key := objCI(payload, keyMember)
		if key == nil {
			return nil, nil, "missing signing key"
		}
		kty, crv, x, y, nonce := strCI(key, "kty"), strCI(key, "crv"), strCI(key, "x"), strCI(key, "y"), strCI(key, "nonce")
		if kty == "" || crv == "" || x == "" {
			return nil, nil, "signing key lacks kty/crv/x"
		}
		if !containsS(p.KeyAlgorithms, crv) {
			return nil, nil, "key curve '" + crv + "' not allowed"
		}
		norm := map[string]interface{}{"kty": kty, "crv": crv, "x": x, "y": y}
		if nonce != "" {
			nb, err := ref.UnB64(nonce)
			if err != nil || len(nb) != int(p.NonceSize) {
				return nil, nil, fmt.Sprintf("nonce is not exactly NonceSize=%d bytes", p.NonceSize)
			}
			norm["nonce"] = nonce
		}
		rv := strCI(m, "revealValue")
		if e := mh("reveal value", rv); e != "" {
			return nil, nil, e
		}
		code, _, _ := ref.DecodeMultihash(rv)
		if ref.EncMultihash(code, ref.MustJCS(norm)) != rv {
			return nil, nil, "reveal value is not the hash of the signing key"
		}
		if strCI(m, "didSuffix") == "" {
			return nil, nil, "missing did suffix"
		}
		return payload, norm, ""
	}
	commitmentOf := func(norm map[string]interface{}, like string) string {
		code, _, err := ref.DecodeMultihash(like)
		if err != nil {
			return ""
		}
		d, err := ref.Digest(code, ref.MustJCS(norm))
		if err != nil {
			return ""
		}
		return ref.EncMultihash(code, d)
	}
	switch typ {
	case "create":
		sd := objCI(m, "suffixData")
		if sd == nil {
			return "missing suffix data"
		}
		if e := mh("recovery commitment", strCI(sd, "recoveryCommitment")); e != "" {
			return e
		}
		if e := mh("delta hash", strCI(sd, "deltaHash")); e != "" {
			return e
		}
		canon, e := deltaRules()
		if e != "" {
			return e
		}
		code, _, _ := ref.DecodeMultihash(strCI(sd, "deltaHash"))
		if ref.EncMultihash(code, ref.MustJCS(canon)) != strCI(sd, "deltaHash") {
			return "delta does not match the delta hash in suffix data"
		}
		if canon["updateCommitment"] == strCI(sd, "recoveryCommitment") {
			return "update and recovery commitments are equal"
		}
	case "update":
		payload, norm, e := signedRules("updateKey")
		if e != "" {
			return e
		}
		if e := mh("signed delta hash", strCI(payload, "deltaHash")); e != "" {
			return e
		}
		canon, e := deltaRules()
		if e != "" {
			return e
		}
		uc := canon["updateCommitment"].(string)
		if commitmentOf(norm, uc) == uc {
			return "update re-commits to the key it reveals"
		}
	case "recover":
		payload, norm, e := signedRules("recoveryKey")
		if e != "" {
			return e
		}
		if e := mh("signed delta hash", strCI(payload, "deltaHash")); e != "" {
			return e
		}
		rc := strCI(payload, "recoveryCommitment")
		if e := mh("next recovery commitment", rc); e != "" {
			return e
		}
		if commitmentOf(norm, rc) == rc {
			return "recover re-commits to the key it reveals"
		}
		canon, e := deltaRules()
		if e != "" {
			return e
		}
		if canon["updateCommitment"] == rc {
			return "update and recovery commitments are equal"
		}
	case "deactivate":
		payload, _, e := signedRules("recoveryKey")
		if e != "" {
			return e
		}
		if strCI(payload, "didSuffix") != strCI(m, "didSuffix") {
			return "signed did suffix differs"
		}
	default:
		return "unknown operation type '" + typ + "'"
	}
	return ""
}

// ---------- workload ----------

type c10Valid struct {
	typ  string
	req  map[string]interface{} // request tree
	spec *ref.SignedSpec        // for signed ops (allows re-signing after payload mutation)
	key  *ref.Key
}

func c10Requests(r *hx.Rng, code uint64, keyType string, nonce bool, pad int) []c10Valid {
	mk := func(n string) *ref.Key {
		k := ref.NewKey(keyType, n, r.Bytes(32))
		if nonce {
			k.Nonce = ref.B64(r.Bytes(16))
		}
		return k
	}
	R0, R1, U0, U1 := mk("R0"), mk("R1"), mk("U0"), mk("U1")
	patches := []interface{}{patchAddKeys(pubKeyEntry("k1", U1, "authentication")), patchAddServices(svcEntry("s1", "t", "https://e.example/"+strings.Repeat("p", pad))),
		patchJSON(map[string]interface{}{"op": "add", "path": "/pad", "value": ""})}
	cs := &ref.CreateSpec{Code: code, RecoveryCommitment: R0.Commitment(code), Delta: ref.Delta(U0.Commitment(code), patches), AnchorOrigin: "o"}
	suffix := cs.Suffix()
	upd := &ref.SignedSpec{Op: "update", Code: code, Suffix: suffix, RevealKey: U0, Delta: ref.Delta(U1.Commitment(code), patches)}
	rec := &ref.SignedSpec{Op: "recover", Code: code, Suffix: suffix, RevealKey: R0, Delta: ref.Delta(U1.Commitment(code), patches), RecoveryCommitment: R1.Commitment(code), AnchorOrigin: "o2"}
	dea := &ref.SignedSpec{Op: "deactivate", Code: code, Suffix: suffix, RevealKey: R0}
	return []c10Valid{{"create", cs.Request(), nil, nil}, {"update", upd.Request(), upd, U0}, {"recover", rec.Request(), rec, R0}, {"deactivate", dea.Request(), dea, R0}}
}

func checkC10(c *hx.Ctx) {
	c.Rule("(A) valid requests of the four types for every key type / hash algorithm must be accepted; (B) every member of the request, of suffix data / delta, of the protected header and of the signed payload (re-signed) is removed, nulled, emptied, type-confused or swapped with another request's value: whenever Parse (and DocumentHandler.ProcessOperation for creates) accepts, an independent predicate over the raw JSON (sizes, multihash well-formedness/algorithm/length, alg/curve/nonce/patch allow-lists, reveal = hash of signing key, commitment rules) must hold; (C) each limit (request size via JSON whitespace, canonical delta size via an adjustable string, hash length 46/88 vs MaxOperationHashLength, nonce size, each alg / curve / patch action removed from its allow-list) is checked exactly at and one past its boundary, each under >= 7 configurations that move one OTHER parameter: accepted at, rejected past, decision independent of the other parameter, and the same from a parser that has just served GetRevealValue / GetCommitment / batch-mode parsing for the same bytes; (E) a limit of zero admits nothing; (F) a DocumentHandler serving two protocol versions judges a create submitted for the later, stricter version by that version's rules also after having served the earlier version; (D) correctly signed requests whose JSON patch operations have null / mistyped members at every list position, arbitrary bytes and structurally damaged requests into Parse, ParseOperation (batch on/off), GetRevealValue, GetCommitment, ParseDID must return, never panic; crash-isolated workers; non-trivial = mutated or boundary input; distinct = distinct (input, configuration, entry point)")
	pool := hx.NewPool(c, "parse", 16, 4*1024*1024, 30*time.Second)
	defer pool.Close()
	call := func(entry string, p protocol.Protocol, in []byte) (string, string, bool) {
		b, _ := json.Marshal(parseCase{Entry: entry, Proto: p, Input: ref.B64(in)})
		reply, crash := pool.Call(b)
		if crash != nil {
			c.Violation(fmt.Sprintf("C10 %s crashed the process: %s", entry, crash.CrashSig()), map[string]interface{}{"entry": entry, "input": string(in), "input_b64": ref.B64(in), "protocol": p, "stderr": crash.Detail})
			return "", "", false
		}
		i := strings.IndexByte(string(reply), ':')
		st, msg := string(reply[:i]), string(reply[i+1:])
		if st == "PANIC" {
			c.Violation(fmt.Sprintf("C10 %s panicked: %s", entry, msg), map[string]interface{}{"entry": entry, "input": string(in), "input_b64": ref.B64(in), "protocol": p})
			return st, msg, false
		}
		return st, msg, true
	}
	// acceptImpliesPredicate: the one-directional oracle
	aip := func(entry string, p protocol.Protocol, in []byte, class string) bool {
		c.Eval()
		st, _, ok := call(entry, p, in)
		if !ok {
			return false
		}
		if st == "OK" {
			c.Count("accepted:" + class)
			if why := predicate(p, in); why != "" {
				c.Violation(fmt.Sprintf("C10 %s accepted a request that breaks a protocol rule (%s): %s", entry, class, why),
					map[string]interface{}{"entry": entry, "request": string(in), "protocol": p, "broken_rule": why, "class": class})
				return false
			}
		} else {
			c.Count("rejected:" + class)
		}
		c.Distinct(entry + "|" + class + "|" + string(in))
		return true
	}
	expect := func(entry string, p protocol.Protocol, in []byte, want bool, what string) bool {
		c.Eval()
		st, msg, ok := call(entry, p, in)
		if !ok {
			return false
		}
		if (st == "OK") != want {
			c.Violation(fmt.Sprintf("C10 boundary decided on the wrong side: %s: expected accepted=%v, got %s %s", what, want, st, msg),
				map[string]interface{}{"entry": entry, "request": string(in), "protocol": p, "what": what})
			return false
		}
		if entry == "Parse" {
			st2, msg2, ok2 := call("ParseAfterBatchCalls", p, in)
			if !ok2 {
				return false
			}
			if (st2 == "OK") != want {
				c.Violation(fmt.Sprintf("C10 boundary decided on the wrong side by a parser that had served GetRevealValue / GetCommitment / batch-mode parsing for the same bytes before: %s: expected accepted=%v, got %s %s", what, want, st2, msg2),
					map[string]interface{}{"entry": "ParseAfterBatchCalls", "request": string(in), "protocol": p, "what": what})
				return false
			}
			c.Count("boundary_ok_after_batch_mode_calls")
		}
		c.Count(fmt.Sprintf("boundary_ok:%s", strings.SplitN(what, " ", 2)[0]))
		c.Distinct(entry + "|" + what)
		return true
	}
	base := hx.BaseProtocol()
	base.MultihashAlgorithms = []uint{ref.SHA256, ref.SHA512}
	rng := c.Rng("reqs")

	// ---------- (A) + (B)
	type combo struct {
		code uint64
		kt   string
	}
	var combos []combo
	for i, kt := range ref.KeyTypes {
		combos = append(combos, combo{ref.SHA256, kt})
		if c.Thorough() || i%2 == 0 {
			combos = append(combos, combo{ref.SHA512, kt})
		}
	}
	mutVals := []interface{}{"__remove__", nil, "", float64(7), []interface{}{}, map[string]interface{}{}, true, "x", strings.Repeat("A", 120)}
	seeds := make([]uint64, len(combos))
	for i := range seeds {
		seeds[i] = rng.U64()
	}
	// the member mutations are evaluated under the permissive base configuration and under restrictive ones (a single
	// algorithm / curve, fewer patch actions, another nonce size): accept => predicate must hold under each of them
	restrictA := base
	restrictA.SignatureAlgorithms, restrictA.KeyAlgorithms = []string{"ES256"}, []string{"P-256"}
	restrictA.Patches = []string{"add-public-keys", "add-services"}
	restrictA.MultihashAlgorithms = []uint{ref.SHA256}
	restrictB := base
	restrictB.SignatureAlgorithms, restrictB.KeyAlgorithms = []string{"EdDSA", "ES256K"}, []string{"Ed25519", "secp256k1"}
	restrictB.NonceSize = 8
	restrictB.MaxOperationHashLength = 50
	extraProtos := []protocol.Protocol{restrictA, restrictB}
	hx.Parallel(len(combos), 8, func(ci int) {
		cb := combos[ci]
		r := hx.NewRng(seeds[ci], "b")
		valids := c10Requests(r, cb.code, cb.kt, ci%2 == 0, 0)
		others := c10Requests(r, cb.code, ref.KeyTypes[(ci+1)%5], false, 3)
		for vi, v := range valids {
			raw := ref.MustJCS(v.req)
			for _, entry := range []string{"Parse", "ParseOperation"} {
				c.Eval()
				st, msg, ok := call(entry, base, raw)
				if !ok {
					return
				}
				if st != "OK" {
					c.Violation(fmt.Sprintf("C10 valid %s request (%s, %#x) rejected: %s", v.typ, cb.kt, cb.code, msg), map[string]interface{}{"request": string(raw), "protocol": base})
					return
				}
				if why := predicate(base, raw); why != "" {
					c.Violation("C10 harness defect: predicate rejects a valid request: "+why, map[string]interface{}{"request": string(raw)})
					return
				}
				c.Count("valid_accepted:" + v.typ)
			}
			if v.typ == "create" {
				if !aip("Handler", base, raw, "valid-create-through-handler") {
					return
				}
			}
			// --- mutate every member path of the request tree (depth <= 3)
			var paths [][]string
			var walk func(prefix []string, node interface{}, depth int)
			walk = func(prefix []string, node interface{}, depth int) {
				m, ok := node.(map[string]interface{})
				if !ok || depth == 0 {
					return
				}
				for _, k := range keysSorted(m) {
					x := m[k]
					p := append(append([]string{}, prefix...), k)
					paths = append(paths, p)
					walk(p, x, depth-1)
				}
			}
			walk(nil, v.req, 3)
			for _, path := range paths {
				vals := append(append([]interface{}{}, mutVals...), lookup(others[vi].req, path))
				if orig, isStr := lookup(v.req, path).(string); isStr && orig != "" {
					// encodings of the same bytes that are not the canonical unpadded base64url text
					if raw, err := ref.UnB64(orig); err == nil && len(raw) > 12 && (raw[0] == 0x12 || raw[0] == 0x13) {
						// byte strings that merely START like a multihash of an allowed algorithm
						vals = append(vals, ref.B64(raw[:12]), ref.B64(append(append([]byte{}, raw...), 1, 2, 3, 4, 5, 6, 7, 8)), ref.B64(raw[:1]), ref.B64(raw[:2]),
							ref.B64(append([]byte{raw[0], raw[1] + 1}, raw[2:]...)), ref.B64(append([]byte{raw[0], 0}, raw[2:]...)))
					}
					vals = append(vals, orig+"=", orig+"==", orig+"\n", orig[:1]+"\r\n"+orig[1:], " "+orig, strings.Replace(strings.Replace(orig, "-", "+", -1), "_", "/", -1))
				}
				for _, mv := range vals {
					t := ref.CopyTree(v.req).(map[string]interface{})
					setPath(t, path, mv)
					in := ref.MustJCS(t)
					if !aip("Parse", base, in, "member:"+v.typ+":"+strings.Join(path, ".")) {
						return
					}
					for pi, ep := range extraProtos {
						if !aip("Parse", ep, in, fmt.Sprintf("member-restricted%d:%s:%s", pi, v.typ, strings.Join(path, "."))) {
							return
						}
					}
					if v.typ == "create" && len(path) <= 2 {
						if !aip("Handler", base, in, "handler-member:"+strings.Join(path, ".")) {
							return
						}
					}
				}
			}
			// --- next commitment = commitment of the revealed key itself, under each allowed hash algorithm
			if v.spec != nil && v.typ != "deactivate" {
				for _, hc := range []uint64{ref.SHA256, ref.SHA512} {
					sp := *v.spec
					if v.typ == "update" {
						sp.Delta = ref.Delta(v.key.Commitment(hc), sp.Delta["patches"].([]interface{}))
					} else {
						sp.RecoveryCommitment = v.key.Commitment(hc)
					}
					if !aip("Parse", base, ref.MustJCS(sp.Request()), fmt.Sprintf("self-commit:%s:%#x", v.typ, hc)) {
						return
					}
				}
			}
			// --- mutate the signed payload and the protected header (re-signed by the right key)
			if v.spec != nil {
				payload := v.spec.SignedPayload()
				var ppaths [][]string
				walk2 := func(prefix []string, node map[string]interface{}) {
					for _, k := range keysSorted(node) {
						x := node[k]
						ppaths = append(ppaths, append(append([]string{}, prefix...), k))
						if sub, ok := x.(map[string]interface{}); ok {
							for _, k2 := range keysSorted(sub) {
								ppaths = append(ppaths, append(append([]string{}, prefix...), k, k2))
							}
						}
					}
				}
				walk2(nil, payload)
				otherPayload := others[vi].spec.SignedPayload()
				for _, path := range ppaths {
					vals := append(append([]interface{}{}, mutVals...), lookup(otherPayload, path), ref.B64(r.Bytes(15)), ref.B64(r.Bytes(17)))
					for _, mv := range vals {
						pl := ref.CopyTree(payload).(map[string]interface{})
						setPath(pl, path, mv)
						jwsS := ref.CompactJWS(v.key, v.key.Header(""), ref.MustJCS(pl))
						t := ref.CopyTree(v.req).(map[string]interface{})
						t["signedData"] = jwsS
						if !aip("Parse", base, ref.MustJCS(t), "signed-member:"+v.typ+":"+strings.Join(path, ".")) {
							return
						}
						for pi, ep := range extraProtos {
							if !aip("Parse", ep, ref.MustJCS(t), fmt.Sprintf("signed-member-restricted%d:%s:%s", pi, v.typ, strings.Join(path, "."))) {
								return
							}
						}
					}
				}
				// names of the signature algorithm and of the curve in another letter case (only the exact registered names are enabled):
				// everything else consistent - reveal value recomputed over the key as written, payload re-signed
				{
					keyName := "updateKey"
					if v.typ != "update" {
						keyName = "recoveryKey"
					}
					if jwk, ok := payload[keyName].(map[string]interface{}); ok {
						for ci2, spell := range []func(string) string{strings.ToLower, strings.ToUpper, swapCase} {
							crv, _ := jwk["crv"].(string)
							if spell(crv) != crv {
								pl := ref.CopyTree(payload).(map[string]interface{})
								pl[keyName].(map[string]interface{})["crv"] = spell(crv)
								t := ref.CopyTree(v.req).(map[string]interface{})
								t["signedData"] = ref.CompactJWS(v.key, v.key.Header(""), ref.MustJCS(pl))
								t["revealValue"] = ref.EncMultihash(cb.code, ref.MustJCS(pl[keyName]))
								if !aip("Parse", base, ref.MustJCS(t), fmt.Sprintf("curve-name-letter-case:%s:%d", v.typ, ci2)) {
									return
								}
							}
							alg := v.key.Alg()
							if spell(alg) != alg {
								t := ref.CopyTree(v.req).(map[string]interface{})
								t["signedData"] = ref.CompactJWS(v.key, map[string]interface{}{"alg": spell(alg)}, ref.MustJCS(payload))
								if !aip("Parse", base, ref.MustJCS(t), fmt.Sprintf("algorithm-name-letter-case:%s:%d", v.typ, ci2)) {
									return
								}
							}
						}
					}
				}
				// members that belong to the request duplicated INSIDE the signed payload with the right value, while the request's
				// own member carries another request's (well-formed) value: the request's own members are what counts
				for _, name := range []string{"revealValue", "didSuffix", "type", "delta"} {
					own, has := v.req[name]
					foreign := lookup(others[vi].req, []string{name})
					if !has || foreign == nil || fmt.Sprint(own) == fmt.Sprint(foreign) {
						continue
					}
					pl := ref.CopyTree(payload).(map[string]interface{})
					pl[name] = ref.CopyTree(own)
					t := ref.CopyTree(v.req).(map[string]interface{})
					t["signedData"] = ref.CompactJWS(v.key, v.key.Header(""), ref.MustJCS(pl))
					t[name] = ref.CopyTree(foreign)
					if !aip("Parse", base, ref.MustJCS(t), "member-copied-into-signed-payload:"+v.typ+":"+name) {
						return
					}
				}
				for hi, hv := range []map[string]interface{}{{}, {"alg": nil}, {"alg": ""}, {"alg": float64(1)}, {"alg": "none"}, {"alg": "HS256"}, {"alg": v.key.Alg(), "typ": "JWT"},
					{"alg": v.key.Alg(), "kid": float64(1)}, {"alg": v.key.Alg(), "b64": false}, {"alg": v.key.Alg(), "crit": []interface{}{"b64"}}, {"kid": "x"}, {"alg": ref.AlgFor(ref.KeyTypes[(ci+2)%5])}} {
					jwsS := ref.CompactJWS(v.key, hv, ref.MustJCS(payload))
					t := ref.CopyTree(v.req).(map[string]interface{})
					t["signedData"] = jwsS
					if !aip("Parse", base, ref.MustJCS(t), fmt.Sprintf("protected-header:%s:%d", v.typ, hi)) {
						return
					}
				}
			}
		}
	})

	// ---------- (E) degenerate limits: a limit of zero admits nothing (no parameter stands in for another one)
	{
		er := c.Rng("zero-limits")
		for _, kt := range []string{"P-256", "Ed25519"} {
			for _, v := range c10Requests(er, ref.SHA256, kt, true, 0) {
				raw := ref.MustJCS(v.req)
				zero := []protoVariant{
					{"MaxOperationSize=0", func(p *protocol.Protocol) { p.MaxOperationSize = 0 }},
					{"MaxOperationHashLength=0", func(p *protocol.Protocol) { p.MaxOperationHashLength = 0 }},
				}
				if v.typ != "deactivate" {
					zero = append(zero, protoVariant{"MaxDeltaSize=0", func(p *protocol.Protocol) { p.MaxDeltaSize = 0 }},
						protoVariant{"MaxDeltaSize=1", func(p *protocol.Protocol) { p.MaxDeltaSize = 1 }})
				}
				for _, z := range zero {
					p := base
					z.mut(&p)
					if !expect("Parse", p, raw, false, fmt.Sprintf("zero-limit %s request under %s", v.typ, z.name)) {
						return
					}
				}
			}
		}
	}
	// ---------- (F) one document handler serving two protocol versions: a request submitted for the later, stricter version
	// is judged by that version's rules although the same handler has just served the earlier, permissive version
	{
		fr := c.Rng("two-version-handler")
		strict := []protoVariant{
			{"MaxOperationSize=200", func(p *protocol.Protocol) { p.MaxOperationSize = 200 }},
			{"MaxDeltaSize=50", func(p *protocol.Protocol) { p.MaxDeltaSize = 50 }},
			{"only ES384/P-384", func(p *protocol.Protocol) {
				p.SignatureAlgorithms, p.KeyAlgorithms = []string{"ES384"}, []string{"P-384"}
			}},
			{"only sha2-512", func(p *protocol.Protocol) { p.MultihashAlgorithms = []uint{ref.SHA512} }},
			{"only replace patches", func(p *protocol.Protocol) { p.Patches = []string{"replace"} }},
			{"MaxOperationHashLength=20", func(p *protocol.Protocol) { p.MaxOperationHashLength = 20 }},
		}
		warmReqs := c10Requests(fr, ref.SHA256, "P-256", false, 0)
		var warm []byte
		for _, v := range warmReqs {
			if v.typ == "create" {
				warm = ref.MustJCS(v.req)
			}
		}
		for _, kt := range []string{"P-256", "Ed25519"} {
			for _, v := range c10Requests(fr, ref.SHA256, kt, false, 1) {
				if v.typ != "create" {
					continue
				}
				raw := ref.MustJCS(v.req)
				for _, sv := range strict {
					p1 := base
					p1.GenesisTime = 100
					sv.mut(&p1)
					if predicate(p1, raw) == "" {
						continue // this request does not break the stricter rule
					}
					for _, w := range [][]byte{nil, warm} {
						c.Eval()
						b, _ := json.Marshal(parseCase{Entry: "HandlerWarm", Proto: p1, Proto0: &base, Input: ref.B64(raw), Warm: ref.B64(w)})
						if w == nil {
							b, _ = json.Marshal(parseCase{Entry: "HandlerWarm", Proto: p1, Proto0: &base, Input: ref.B64(raw)})
						}
						reply, crash := pool.Call(b)
						if crash != nil {
							c.Violation("C10 two-version handler crashed the process: "+crash.CrashSig(), map[string]interface{}{"request": string(raw), "stderr": crash.Detail})
							return
						}
						rs := string(reply)
						switch {
						case strings.HasPrefix(rs, "OK:"):
							c.Violation(fmt.Sprintf("C10 a handler serving two protocol versions accepted, for the stricter version (%s), a create that breaks its rule (%s); served version 0 before: %v", sv.name, predicate(p1, raw), w != nil),
								map[string]interface{}{"request": string(raw), "strict_protocol": p1, "warm_up_request": string(w)})
							return
						case strings.HasPrefix(rs, "PANIC:"):
							c.Violation("C10 two-version handler: "+rs, map[string]interface{}{"request": string(raw)})
							return
						case strings.HasPrefix(rs, "ERR:"):
							c.Count(fmt.Sprintf("two_version_handler_rejected_warm=%v", w != nil))
							c.Distinct("2vh|" + sv.name + "|" + kt + fmt.Sprint(w != nil))
						default:
							c.Count("two_version_handler_skipped")
						}
					}
				}
			}
		}
	}
	c.Floor("two_version_handler_rejected_warm=true", 5)
	c.Floor("boundary_ok:zero-limit", 10)
	// ---------- (C) boundaries x configurations
	others := []protoVariant{
		{"base", func(p *protocol.Protocol) {}},
		{"MaxOperationSize=+40000", func(p *protocol.Protocol) { p.MaxOperationSize += 40000 }},
		{"MaxDeltaSize=+30000", func(p *protocol.Protocol) { p.MaxDeltaSize += 30000 }},
		{"MaxOperationHashLength=+900", func(p *protocol.Protocol) { p.MaxOperationHashLength += 900 }},
		{"MaxOperationTimeDelta=1", func(p *protocol.Protocol) { p.MaxOperationTimeDelta = 1 }},
		{"MaxOperationTimeDelta=10^6", func(p *protocol.Protocol) { p.MaxOperationTimeDelta = 1000000 }},
		{"MaxOperationCount=1", func(p *protocol.Protocol) { p.MaxOperationCount = 1 }},
		{"MaxCasURILength=1,FileSizes=1", func(p *protocol.Protocol) {
			p.MaxCasURILength, p.MaxChunkFileSize, p.MaxCoreIndexFileSize, p.MaxProofFileSize, p.MaxProvisionalIndexFileSize = 1, 1, 1, 1, 1
		}},
		{"DecompressionFactor=1000,GenesisTime=77", func(p *protocol.Protocol) { p.MaxMemoryDecompressionFactor, p.GenesisTime = 1000, 77 }},
	}
	type bjob struct {
		name string
		fn   func(o protoVariant) bool
	}
	var bjobs []bjob
	br := c.Rng("bounds")
	for _, kt := range []string{"P-256", "Ed25519", "secp256k1"} {
		kt := kt
		vals := c10Requests(br, ref.SHA256, kt, true, 0)
		for _, v := range vals {
			v := v
			raw := ref.MustJCS(v.req)
			// request size via whitespace padding (does not change any other quantity)
			bjobs = append(bjobs, bjob{"request-size " + v.typ + " " + kt, func(o protoVariant) bool {
				for _, size := range []int{len(raw) + 1, len(raw) + 300} {
					p := base
					p.MaxOperationSize = uint(size)
					o.mut(&p)
					if strings.HasPrefix(o.name, "MaxOperationSize") {
						p.MaxOperationSize = uint(size)
					}
					at := append(append([]byte{}, raw[:len(raw)-1]...), []byte(strings.Repeat(" ", size-len(raw))+"}")...)
					past := append(append([]byte{}, raw[:len(raw)-1]...), []byte(strings.Repeat(" ", size-len(raw)+1)+"}")...)
					if !expect("Parse", p, at, true, fmt.Sprintf("request-size %s exactly MaxOperationSize=%d [%s]", v.typ, size, o.name)) ||
						!expect("Parse", p, past, false, fmt.Sprintf("request-size %s one past MaxOperationSize=%d [%s]", v.typ, size, o.name)) {
						return false
					}
					if !expect("GetRevealValue", p, past, false, fmt.Sprintf("request-size(GetRevealValue) %s one past MaxOperationSize=%d [%s]", v.typ, size, o.name)) {
						return false
					}
					if v.typ == "create" {
						// the same two requests over HTTP (a body longer than the limit must not be cut down to it)
						longer := append(append([]byte{}, at...), []byte("\n\n   \n")...) // a valid request of exactly the limit, then line breaks
						if !expect("RestUpdate", p, at, true, fmt.Sprintf("request-size(REST) create exactly MaxOperationSize=%d [%s]", size, o.name)) ||
							!expect("RestUpdate", p, past, false, fmt.Sprintf("request-size(REST) create one past MaxOperationSize=%d [%s]", size, o.name)) ||
							!expect("RestUpdate", p, longer, false, fmt.Sprintf("request-size(REST) create followed by line breaks, past MaxOperationSize=%d [%s]", size, o.name)) {
							return false
						}
					}
				}
				return true
			}})
		}
		// delta size via adjustable string (create: delta hash recomputed; update: re-signed)
		for _, typ := range []string{"create", "update", "recover"} {
			typ := typ
			bjobs = append(bjobs, bjob{"delta-size " + typ + " " + kt, func(o protoVariant) bool {
				mkReq := func(padLen int) ([]byte, int) {
					R0, U0, U1 := ref.NewKey(kt, "R0", []byte("r0"+kt)), ref.NewKey(kt, "U0", []byte("u0"+kt)), ref.NewKey(kt, "U1", []byte("u1"+kt))
					patches := []interface{}{patchJSON(map[string]interface{}{"op": "add", "path": "/pad", "value": strings.Repeat("x", padLen)})}
					var delta map[string]interface{}
					var req map[string]interface{}
					switch typ {
					case "create":
						cs := &ref.CreateSpec{Code: ref.SHA256, RecoveryCommitment: R0.Commitment(ref.SHA256), Delta: ref.Delta(U0.Commitment(ref.SHA256), patches)}
						delta, req = cs.Delta, cs.Request()
					case "update":
						s := &ref.SignedSpec{Op: "update", Code: ref.SHA256, Suffix: "EiAsuffix", RevealKey: U0, Delta: ref.Delta(U1.Commitment(ref.SHA256), patches)}
						delta, req = s.Delta, s.Request()
					default:
						s := &ref.SignedSpec{Op: "recover", Code: ref.SHA256, Suffix: "EiAsuffix", RevealKey: R0, Delta: ref.Delta(U1.Commitment(ref.SHA256), patches), RecoveryCommitment: U0.Commitment(ref.SHA256)}
						delta, req = s.Delta, s.Request()
					}
					return ref.MustJCS(req), len(ref.MustJCS(delta))
				}
				_, baseLen := mkReq(0)
				for _, limit := range []int{baseLen + 10, baseLen + 700} {
					p := base
					p.MaxDeltaSize = uint(limit)
					p.MaxOperationSize = 60000
					o.mut(&p)
					if strings.HasPrefix(o.name, "MaxDeltaSize") {
						p.MaxDeltaSize = uint(limit)
					}
					if strings.HasPrefix(o.name, "MaxOperationSize") {
						p.MaxOperationSize = 100000
					}
					at, atLen := mkReq(limit - baseLen)
					past, pastLen := mkReq(limit - baseLen + 1)
					if atLen != limit || pastLen != limit+1 {
						c.Violation("C10 harness defect: delta padding did not hit the boundary", map[string]interface{}{"at": atLen, "limit": limit})
						return false
					}
					if !expect("Parse", p, at, true, fmt.Sprintf("delta-size %s canonical delta exactly MaxDeltaSize=%d [%s]", typ, limit, o.name)) ||
						!expect("Parse", p, past, false, fmt.Sprintf("delta-size %s canonical delta one past MaxDeltaSize=%d [%s]", typ, limit, o.name)) {
						return false
					}
				}
				return true
			}})
		}
		// hash length: sha2-256 multihashes are 46 characters, sha2-512 88
		for _, hc := range []uint64{ref.SHA256, ref.SHA512} {
			hc := hc
			vals := c10Requests(br, hc, kt, false, 0)
			L := 46
			if hc == ref.SHA512 {
				L = 88
			}
			for _, v := range vals {
				v := v
				bjobs = append(bjobs, bjob{"hash-length " + v.typ + " " + kt, func(o protoVariant) bool {
					raw := ref.MustJCS(v.req)
					for _, lim := range []int{L, L - 1, L + 1} {
						p := base
						p.MaxOperationHashLength = uint(lim)
						o.mut(&p)
						if strings.HasPrefix(o.name, "MaxOperationHashLength") {
							p.MaxOperationHashLength = uint(lim)
						}
						if !expect("Parse", p, raw, lim >= L, fmt.Sprintf("hash-length %s %d-character multihashes vs MaxOperationHashLength=%d [%s]", v.typ, L, lim, o.name)) {
							return false
						}
					}
					return true
				}})
			}
		}
		// nonce size
		bjobs = append(bjobs, bjob{"nonce-size " + kt, func(o protoVariant) bool {
			for _, ns := range []int{16, 1, 33} {
				for _, d := range []int{0, -1, 1} {
					if ns+d <= 0 {
						continue
					}
					k := ref.NewKey(kt, "N", []byte(fmt.Sprint("nonce", ns, d)))
					k.Nonce = ref.B64(br.Bytes(ns + d))
					nk := ref.NewKey(kt, "N2", []byte("n2"))
					for _, op := range []string{"update", "recover", "deactivate"} {
						s := &ref.SignedSpec{Op: op, Code: ref.SHA256, Suffix: "EiAsuffix", RevealKey: k, RecoveryCommitment: nk.Commitment(ref.SHA256),
							Delta: ref.Delta(ref.NewKey(kt, "N3", []byte("n3")).Commitment(ref.SHA256), []interface{}{patchAddServices(svcEntry("s", "t", "https://n.example"))})}
						p := base
						p.NonceSize = uint64(ns)
						o.mut(&p)
						if !expect("Parse", p, ref.MustJCS(s.Request()), d == 0, fmt.Sprintf("nonce-size %s nonce of %d bytes vs NonceSize=%d [%s]", op, ns+d, ns, o.name)) {
							return false
						}
					}
				}
			}
			return true
		}})
	}
	// allow-lists: each algorithm / curve / patch action removed individually
	bjobs = append(bjobs, bjob{"allow-lists", func(o protoVariant) bool {
		for ti, kt := range ref.KeyTypes {
			// requests whose signing keys carry a (valid) nonce and requests whose keys do not
			vals := append(c10Requests(br, ref.SHA256, kt, false, 0), c10Requests(br, ref.SHA256, kt, true, 0)[1:]...)
			for ri, removed := range ref.KeyTypes {
				for _, which := range []string{"alg", "curve"} {
					p := base
					if which == "alg" {
						p.SignatureAlgorithms = without(hx.AllAlgs, ref.AlgFor(removed))
					} else {
						p.KeyAlgorithms = without(hx.AllCurves, removed)
					}
					o.mut(&p)
					for _, v := range vals[1:] {
						if !expect("Parse", p, ref.MustJCS(v.req), ti != ri, fmt.Sprintf("allow-list-%s %s signed with %s while %s is removed [%s]", which, v.typ, kt, removed, o.name)) {
							return false
						}
					}
				}
			}
		}
		// multihash algorithm list
		for _, hc := range []uint64{ref.SHA256, ref.SHA512} {
			vals := c10Requests(br, hc, "P-256", false, 0)
			for _, allowed := range [][]uint{{ref.SHA256}, {ref.SHA512}, {ref.SHA256, ref.SHA512}} {
				p := base
				p.MultihashAlgorithms = allowed
				o.mut(&p)
				for _, v := range vals {
					if !expect("Parse", p, ref.MustJCS(v.req), containsU(allowed, hc), fmt.Sprintf("allow-list-multihash %s hashed with %#x under algorithms %v [%s]", v.typ, hc, allowed, o.name)) {
						return false
					}
				}
			}
		}
		// patch actions
		k := ref.NewKey("P-256", "pa", []byte("pa"))
		samples := map[string]interface{}{
			"add-public-keys":      patchAddKeys(pubKeyEntry("k", k, "authentication")),
			"remove-public-keys":   patchRemoveKeys("k"),
			"add-services":         patchAddServices(svcEntry("s", "t", "https://p.example")),
			"remove-services":      map[string]interface{}{"action": "remove-services", "ids": []interface{}{"s"}},
			"ietf-json-patch":      patchJSON(map[string]interface{}{"op": "add", "path": "/m", "value": "v"}),
			"replace":              patchReplace([]interface{}{pubKeyEntry("k", k)}, nil),
			"add-also-known-as":    map[string]interface{}{"action": "add-also-known-as", "uris": []interface{}{"https://aka.example"}},
			"remove-also-known-as": map[string]interface{}{"action": "remove-also-known-as", "uris": []interface{}{"https://aka.example"}},
		}
		for act, pt := range samples {
			for _, removed := range hx.AllPatches {
				p := base
				p.Patches = without(hx.AllPatches, removed)
				o.mut(&p)
				cs := &ref.CreateSpec{Code: ref.SHA256, RecoveryCommitment: k.Commitment(ref.SHA256), Delta: ref.Delta(ref.NewKey("P-256", "pb", []byte("pb")).Commitment(ref.SHA256), []interface{}{pt})}
				if !expect("Parse", p, ref.MustJCS(cs.Request()), act != removed, fmt.Sprintf("allow-list-patch create with %s while %s is removed [%s]", act, removed, o.name)) {
					return false
				}
			}
		}
		return true
	}})
	type bj struct {
		b bjob
		o protoVariant
	}
	var all []bj
	for _, b := range bjobs {
		for _, o := range others {
			all = append(all, bj{b, o})
		}
	}
	hx.Parallel(len(all), 16, func(i int) {
		if c.Violations() > 10 {
			return
		}
		all[i].b.fn(all[i].o)
	})
	c.Sample(3, map[string]interface{}{"boundary_jobs": len(bjobs), "configurations_per_boundary": len(others), "example": bjobs[0].name})

	// ---------- (D0) directed: correctly signed requests whose delta carries JSON patch operations with null / non-string
	// members at every position of the list (the validators look at members before they know their type)
	{
		dr := c.Rng("null-members")
		du := NewUniverse(dr.Split("u"), ref.SHA256, base, []string{"P-256", "Ed25519"})
		valid := map[string]interface{}{"op": "add", "path": "/m", "value": "v"}
		var lists [][]interface{}
		for _, bad := range []map[string]interface{}{
			{"op": "add", "path": nil, "value": 1.0}, {"op": "copy", "from": nil, "path": "/x"}, {"op": "move", "from": nil, "path": "/x"}, {"op": "remove", "path": nil},
			{"op": nil, "path": "/x"}, {"op": "add", "path": 5.0, "value": 1.0}, {"op": "copy", "from": []interface{}{}, "path": "/x"}, {"op": "test", "path": nil, "value": nil},
			{"op": "replace", "path": nil}, {"path": nil}, {"op": "copy", "from": nil, "path": nil}} {
			lists = append(lists, []interface{}{bad}, []interface{}{valid, bad}, []interface{}{valid, valid, bad}, []interface{}{bad, valid})
		}
		lists = append(lists, []interface{}{nil}, []interface{}{valid, nil}, []interface{}{"x"}, []interface{}{[]interface{}{}})
		for li, l := range lists {
			patches := []interface{}{map[string]interface{}{"action": "ietf-json-patch", "patches": l}}
			if li%3 == 1 {
				patches = append([]interface{}{patchAddServices(svcEntry("s", "t", "https://s.example"))}, patches...)
			}
			cs := &ref.CreateSpec{Code: ref.SHA256, RecoveryCommitment: du.R[0].Commitment(ref.SHA256), Delta: ref.Delta(du.U[0].Commitment(ref.SHA256), patches)}
			reqs := [][]byte{ref.MustJCS(cs.Request()),
				du.MkSigned("u", "update", du.U[0], "", du.U[1].Commitment(ref.SHA256), patches, SignedOpts{}).Request,
				du.MkSigned("r", "recover", du.R[0], du.R[1].Commitment(ref.SHA256), du.U[1].Commitment(ref.SHA256), patches, SignedOpts{}).Request}
			for _, in := range reqs {
				for _, entry := range []string{"Parse", "ParseOperation", "ParseOperationBatch", "GetRevealValue", "GetCommitment"} {
					c.Eval()
					st, _, ok := call(entry, base, in)
					if !ok {
						return
					}
					c.Count("json_patch_members_null_" + st)
					if st == "OK" && (entry == "Parse" || entry == "ParseOperation") {
						if why := predicate(base, in); why != "" {
							c.Violation("C10 "+entry+" accepted a request whose JSON patch has null / mistyped members and that breaks a protocol rule: "+why, map[string]interface{}{"request": string(in), "broken_rule": why})
							return
						}
					}
				}
			}
		}
	}
	// ---------- (D) garbage
	nG := c.N(150000, 2000000)
	gs := c.Rng("garbage")
	gseeds := make([]uint64, 1+nG/400)
	for i := range gseeds {
		gseeds[i] = gs.U64()
	}
	var pool2 [][]byte
	for _, kt := range ref.KeyTypes {
		for _, v := range c10Requests(gs, ref.SHA256, kt, true, 0) {
			pool2 = append(pool2, ref.MustJCS(v.req))
		}
	}
	entries := []string{"Parse", "ParseOperation", "ParseOperationBatch", "GetRevealValue", "GetCommitment", "ParseDID"}
	hx.Parallel(len(gseeds), 16, func(bi int) {
		r := hx.NewRng(gseeds[bi], "g")
		for k := 0; k < 400; k++ {
			var in []byte
			src := append([]byte{}, hx.Pick(r, pool2)...)
			switch r.Intn(8) {
			case 0:
				in = r.Bytes(r.Intn(200))
			case 1:
				in = src[:r.Intn(len(src))]
			case 2:
				for n := 0; n < 1+r.Intn(3); n++ {
					src[r.Intn(len(src))] = byte(r.U64())
				}
				in = src
			case 3: // JSON with wrong types everywhere
				var t interface{}
				_ = json.Unmarshal(src, &t)
				in = ref.MustJCS(scramble(r, t))
			case 4:
				in = []byte(hx.Pick(r, []string{`{}`, `null`, `[]`, `{"type":"create"}`, `{"type":"update"}`, `{"type":"recover","delta":null}`, `{"type":"deactivate","signedData":"a.b.c"}`,
					`{"type":"update","didSuffix":"x","signedData":"..","revealValue":"x"}`, `{"type":"create","suffixData":null,"delta":null}`, `{"type":"create","suffixData":{},"delta":{"patches":[null]}}`,
					`{"type":"create","suffixData":{"deltaHash":"","recoveryCommitment":""},"delta":{"patches":[{"action":"ietf-json-patch","patches":[{"op":"add","path":null}]}]}}`, `""`, `0`, `{"type":5}`}))
			case 5: // DIDs
				in = []byte(hx.Pick(r, []string{"", ":", "a:b", "x:", "did:web:a", "did:sidetree", "did:sidetree:", "did:sidetree::", "did:sidetree:abc", "did:sidetree:abc:", "did:sidetree:abc:!!", "did:sidetree:abc:e30", "did:sidetree:did:sidetree:x:y",
					"did:sidetree:abc:" + ref.B64([]byte(`{"delta":null,"suffixData":null}`)), "did:sidetree:abc:" + ref.B64([]byte(`[]`)), "did:sidetree:abc:" + ref.B64([]byte(`{"delta":{},"suffixData":{}}`))}) + string(r.Bytes(r.Intn(3))))
			case 6: // delete a random member path
				var t map[string]interface{}
				_ = json.Unmarshal(src, &t)
				for _, key := range keysSorted(t) {
					if r.Chance(1, 3) {
						delete(t, key)
					} else if sub, ok := t[key].(map[string]interface{}); ok {
						for _, k2 := range keysSorted(sub) {
							if r.Chance(1, 3) {
								sub[k2] = nil
							}
						}
					}
				}
				in = ref.MustJCS(t)
			default:
				in = append(src, r.Bytes(r.Intn(4))...)
			}
			entry := hx.Pick(r, entries)
			c.Eval()
			st, _, ok := call(entry, base, in)
			if !ok {
				return
			}
			c.Count("garbage_" + entry + "_" + st)
			if st == "OK" && (entry == "Parse" || entry == "ParseOperation") {
				if why := predicate(base, in); why != "" {
					c.Violation("C10 "+entry+" accepted a damaged request that breaks a protocol rule: "+why, map[string]interface{}{"request": string(in), "input_b64": ref.B64(in), "broken_rule": why})
					return
				}
			}
		}
	})
	c.Set("worker_crashes", pool.Crashes)
	for _, t := range []string{"create", "update", "recover", "deactivate"} {
		c.Floor("valid_accepted:"+t, 10)
	}
	for _, b := range []string{"request-size", "delta-size", "hash-length", "nonce-size", "allow-list-alg", "allow-list-curve", "allow-list-patch", "allow-list-multihash", "request-size(GetRevealValue)"} {
		c.Floor("boundary_ok:"+b, 30)
	}
	for _, e := range entries {
		c.Floor("garbage_"+e+"_ERR", 500)
	}
	c.Floor("json_patch_members_null_ERR", 200)
	c.Floor("boundary_ok_after_batch_mode_calls", 100)
}

func without(xs []string, x string) []string {
	var out []string
	for _, v := range xs {
		if v != x {
			out = append(out, v)
		}
	}
	return out
}

func lookup(t map[string]interface{}, path []string) interface{} {
	var cur interface{} = t
	for _, k := range path {
		m, ok := cur.(map[string]interface{})
		if !ok {
			return nil
		}
		cur = m[k]
	}
	return ref.CopyTree(cur)
}

func setPath(t map[string]interface{}, path []string, v interface{}) {
	cur := t
	for _, k := range path[:len(path)-1] {
		next, ok := cur[k].(map[string]interface{})
		if !ok {
			return
		}
		cur = next
	}
	last := path[len(path)-1]
	if s, ok := v.(string); ok && s == "__remove__" {
		delete(cur, last)
		return
	}
	cur[last] = v
}

// scramble replaces random leaves / containers with values of another JSON type.
func scramble(r *hx.Rng, v interface{}) interface{} {
	if r.Chance(1, 6) {
		return hx.Pick(r, []interface{}{nil, float64(1), "s", true, []interface{}{}, map[string]interface{}{}, []interface{}{nil}, map[string]interface{}{"path": nil}})
	}
	switch t := v.(type) {
	case map[string]interface{}:
		m := map[string]interface{}{}
		for _, k := range keysSorted(t) {
			m[k] = scramble(r, t[k])
		}
		return m
	case []interface{}:
		a := make([]interface{}, len(t))
		for i := range t {
			a[i] = scramble(r, t[i])
		}
		return a
	}
	return v
}

func swapCase(s string) string {
	b := []byte(s)
	for i, ch := range b {
		switch {
		case ch >= 'a' && ch <= 'z':
			b[i] = ch - 32
		case ch >= 'A' && ch <= 'Z':
			b[i] = ch + 32
		}
	}
	return string(b)
}

// keysSorted: map members in a fixed order, so that a PRNG consumed while walking a JSON tree always sees the same sequence.
func keysSorted(m map[string]interface{}) []string {
	out := make([]string, 0, len(m))
	for k := range m {
		out = append(out, k)
	}
	sort.Strings(out)
	return out
}
