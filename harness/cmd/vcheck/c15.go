package main

import (
	"bytes"
	"compress/gzip"
	"encoding/json"
	"errors"
	"fmt"
	"io"
	"net/http"
	"net/http/httptest"
	"sort"
	"strings"
	"sync/atomic"
	"time"

	"github.com/trustbloc/sidetree-core-go/pkg/api/operation"
	"github.com/trustbloc/sidetree-core-go/pkg/api/protocol"
	"github.com/trustbloc/sidetree-core-go/pkg/api/txn"
	"github.com/trustbloc/sidetree-core-go/pkg/batch"
	"github.com/trustbloc/sidetree-core-go/pkg/batch/opqueue"
	"github.com/trustbloc/sidetree-core-go/pkg/dochandler"
	"github.com/trustbloc/sidetree-core-go/pkg/observer"
	"github.com/trustbloc/sidetree-core-go/pkg/processor"
	restdoc "github.com/trustbloc/sidetree-core-go/pkg/restapi/dochandler"
	"github.com/trustbloc/sidetree-core-go/pkg/versions/1_0/txnprocessor"
	"github.com/trustbloc/sidetree-core-go/pkg/versions/1_0/txnprovider"

	"verifharness/hx"
	"verifharness/ref"
)

func init() { register("C15", "fault_enumeration", checkC15) }

type chanLedger struct{ ch chan []txn.SidetreeTxn }

func (l *chanLedger) RegisterForSidetreeTxn() <-chan []txn.SidetreeTxn { return l.ch }

// stubProvider returns preset operations per anchor string (used for duplicate-carrying transactions, which the real
// provider refuses to produce).
type stubProvider struct {
	ops map[string][]*operation.AnchoredOperation
}

func (s *stubProvider) GetTxnOperations(t *txn.SidetreeTxn) ([]*operation.AnchoredOperation, error) {
	ops, ok := s.ops[t.AnchorString]
	if !ok {
		return nil, errors.New("stub: unknown anchor")
	}
	out := make([]*operation.AnchoredOperation, len(ops))
	for i, o := range ops {
		c := *o
		out[i] = &c
	}
	return out, nil
}

// txnPlan describes one delivered transaction and what the oracle expects from it.
type txnPlan struct {
	MirrorOnly map[string][]byte // content that only the alternate source "mirror" serves for a URI the local CAS does not hold
	Kind    string // valid | dup | malformed-anchor | missing-file | corrupt-file | unknown-namespace | unknown-version
	Txn     txn.SidetreeTxn
	Files   []string         // CAS URIs read for this transaction, in read order
	Expect  []expectedStored // operations that must be stored if the transaction is processable (one per suffix)
	FailURI string           // injected CAS read failure
	FailPut bool             // injected store failure for this transaction's Put
}

type expectedStored struct {
	Type, Suffix string
	Request      string // JSON-canonical request
}

func canonReq(b []byte) string {
	var v interface{}
	if err := jsonUnmarshal(b, &v); err != nil {
		return string(b)
	}
	return ref.MustJCSString(v)
}

// c15Hung is set when an observer did not return within the progress bound.
var c15Hung int32

func checkC15(c *hx.Ctx) {
	c.Rule("(1) sequences of 1-6 transactions (valid batches written by the real OperationHandler, malformed anchor strings, missing / corrupt batch files (not gzip, truncated body, damaged body, missing trailer, JSON document followed by further bytes), unknown namespace, unknown protocol version, duplicate-carrying transactions through a stub provider, hand-made batch files listing one DID twice or carrying one update proof too many, or whose core index references creates without naming a provisional index file, read by the real provider) delivered in 1-3 ledger notifications to the REAL Observer goroutine (race detector on) with ONE injected fault per run enumerated over every position (a third of the sequences name alternate sources - one down, one mirroring the local CAS - so that a local read failure must NOT cost the transaction; a file that only the mirror holds and that is larger than its limit still makes the transaction unreadable): each CAS file of each transaction, the store Put of each transaction; oracle over the recorded store.Put calls: per processable transaction exactly one Put holding one operation per suffix (the first) stamped with the transaction's time, number, protocol version, canonical and equivalent references, nothing for a failed one, later transactions still processed, configured unpublished operations deleted; (2) DocumentHandler.ProcessOperation over sequences of valid and refused operations with an unpublished-store Put failure / writer Add failure at every call index: refused or failed operations leave no trace in the writer and in the unpublished store (also a store configured for creates only and keyed by DID suffix: a failed enqueue of an update does not remove the pending create), also with the REAL batch.Writer (accepting, then stopped) in front of the real in-memory queue; non-trivial = run with a fault or a failing transaction; distinct = distinct (sequence, fault)")
	c.Set("race_detector_enabled", raceEnabled)
	p := c13Proto(ref.SHA256)
	p.MaxCoreIndexFileSize = 20000 // far above any core index file of these batches, small enough to build one that exceeds it
	p2 := c13Proto(ref.SHA256)
	p2.GenesisTime = 500 // second version served by the stub provider
	rng := c.Rng("pool")
	bp := batchPool(rng, ref.SHA256, 10, false)
	nSeq := c.N(60, 1200)
	seeds := make([]uint64, nSeq)
	for i := range seeds {
		seeds[i] = rng.U64()
	}
	hx.Parallel(nSeq, 8, func(si int) {
		if c.Violations() > 8 {
			return
		}
		r := hx.NewRng(seeds[si], "c15")
		withAlt := si%3 == 2
		// ---- build the transaction sequence once (fault-free), then enumerate faults
		cas := hx.NewMemCAS()
		build := hx.NewVersion(p, hx.VersionOpts{CAS: cas})
		stub := &stubProvider{ops: map[string][]*operation.AnchoredOperation{}}
		var plans []*txnPlan
		usedOps := map[string]bool{}
		n := 1 + r.Intn(6)
		for k := 0; k < n; k++ {
			t := txn.SidetreeTxn{Namespace: hx.Namespace, TransactionTime: uint64(100 + 10*k), TransactionNumber: uint64(r.Intn(9)),
				ProtocolVersion: p.GenesisTime, CanonicalReference: fmt.Sprintf("canon-%d-%d", si, k), EquivalentReferences: []string{fmt.Sprintf("eq-%d-a", k), fmt.Sprintf("eq-%d-b", k)}}
			if withAlt {
				// the ledger names other nodes that hold the batch files: the first one is down, the second one mirrors the local CAS
				t.AlternateSources = []string{"down", "mirror"}
			}
			switch r.Intn(8) {
			case 0, 1:
				t.EquivalentReferences = nil
			case 2:
				t.CanonicalReference = "" // a ledger that knows equivalent locations only
			case 3:
				t.CanonicalReference, t.EquivalentReferences = "", nil
			}
			pl := &txnPlan{Txn: t}
			kind := hx.Pick(r, []string{"valid", "valid", "valid", "dup", "dup-in-files", "creates-without-provisional-index", "malformed-core-index", "malformed-anchor", "missing-file", "oversized-file-at-the-mirror", "corrupt-file", "corrupt-file", "unknown-namespace", "unknown-version"})
			if si == 0 && k == 0 {
				kind = "dup-in-files" // (position (0,0) selects the surplus-proof shape: covered whatever the seed)
			}
			pl.Kind = kind
			// a batch of 1-5 operations on distinct DIDs
			var batch []*batchOp
			perm := r.Perm(len(bp))
			for _, d := range perm[:1+r.Intn(5)] {
				var cands []*batchOp
				for _, o := range bp[d] {
					if o.Until == 0 && !usedOps[o.ID] {
						cands = append(cands, o)
					}
				}
				if len(cands) == 0 {
					continue
				}
				b := hx.Pick(r, cands)
				usedOps[b.ID] = true // no operation is used twice in a sequence: content-addressed files are never shared
				batch = append(batch, b)
			}
			if len(batch) == 0 {
				continue
			}
			switch kind {
			case "malformed-core-index":
				body := hx.Pick(r, []string{`{"operations":{"create":[{"suffixData":null}]}}`, `{"operations":{"create":[{}]}}`, `{"operations":{"create":[null]}}`,
					`{"operations":{"recover":[null],"deactivate":[{}]},"coreProofFileUri":"x"}`, `{"operations":null,"provisionalIndexFileUri":null}`, `null`, `{"operations":{"create":{}}}`})
				uri := fmt.Sprintf("malformed-core-index-%d-%d", si, k)
				cas.M[uri] = gz([]byte(body), gzip.DefaultCompression)
				pl.Txn.AnchorString = "1." + uri
				pl.Expect = nil
			case "creates-without-provisional-index":
				// hand-made batch files: the core index file references a create and a deactivate, carries a valid core proof
				// file, but names no provisional index file (so no chunk file either); the anchor string counts both references.
				// Only the deactivate could be assembled: the transaction is malformed and contributes nothing
				var cre, dea *batchOp
				for _, d := range r.Perm(len(bp)) {
					for _, o := range bp[d] {
						if usedOps[o.ID] || o.Until != 0 {
							continue
						}
						if o.Type == "create" && cre == nil && (dea == nil || dea.Suffix != o.Suffix) {
							cre = o
						} else if o.Type == "deactivate" && dea == nil && (cre == nil || cre.Suffix != o.Suffix) {
							dea = o
						}
					}
				}
				if cre == nil || dea == nil {
					continue
				}
				usedOps[cre.ID], usedOps[dea.ID] = true, true
				fs, err := newFileSet(p, []*batchOp{cre, dea})
				if err != nil {
					c.Inconclusive("cannot build file set: %v", err)
					return
				}
				for role := range fs.Trees {
					retarget(fs, role, fmt.Sprintf("noprov-%d-%d-%s", si, k, role))
				}
				if ci, ok := fs.Trees["core-index"].(map[string]interface{}); ok {
					delete(ci, "provisionalIndexFileUri")
				}
				for uri, b64 := range fs.encode(nil) {
					raw, _ := ref.UnB64(b64)
					cas.M[uri] = raw
				}
				pl.Txn.AnchorString = "2." + fs.URI["core-index"]
				pl.Expect = nil
			case "dup-in-files":
				// hand-made batch files (read by the REAL provider) whose provisional index lists one DID twice: the whole
				// transaction is malformed and contributes nothing
				var ups []*batchOp
				for _, d := range r.Perm(len(bp)) {
					for _, o := range bp[d] {
						if o.Type == "update" && o.Until == 0 && !usedOps[o.ID] {
							ups = append(ups, o)
							usedOps[o.ID] = true
							break
						}
					}
					if len(ups) == 2 {
						break
					}
				}
				if len(ups) < 2 {
					continue
				}
				fs, err := newFileSet(p, ups)
				if err != nil {
					c.Inconclusive("cannot build file set: %v", err)
					return
				}
				for _, role := range []string{"core-index", "prov-index", "prov-proof", "chunk"} {
					retarget(fs, role, fmt.Sprintf("dupfiles-%d-%d-%s", si, k, role))
				}
				asMap := func(v interface{}) map[string]interface{} { m, _ := v.(map[string]interface{}); return m }
				asArr := func(v interface{}) []interface{} { a, _ := v.([]interface{}); return a }
				u := asArr(asMap(asMap(fs.Trees["prov-index"])["operations"])["update"])
				pp := asArr(asMap(asMap(fs.Trees["prov-proof"])["operations"])["update"])
				dl := asArr(asMap(fs.Trees["chunk"])["deltas"])
				if len(u) != 2 || len(pp) != 2 || len(dl) != 2 {
					c.Inconclusive("unexpected file set shape")
					return
				}
				if pick3 := (si + k) % 3; pick3 == 0 { // the shape follows from the position, so that every shape occurs whatever the seed
					// a third shape of a malformed file set: one update proof more than the provisional index has update references
					po := asMap(asMap(fs.Trees["prov-proof"])["operations"])
					po["update"] = append(append([]interface{}{}, pp...), pp[0])
					c.Count("txn_shape:surplus-update-proof")
				} else if pick3 == 1 {
					u[1], pp[1], dl[1] = ref.CopyTree(u[0]), pp[0], ref.CopyTree(dl[0])
				} else {
					// the other shape: a DID created in the core index file and updated in the provisional index file of the same
					// transaction (a create entry is added to the core index, its delta to the chunk file)
					var cre *batchOp
					for _, d := range r.Perm(len(bp)) {
						if bp[d][0].Type == "create" && bp[d][0].Suffix != ups[0].Suffix && bp[d][0].Suffix != ups[1].Suffix {
							cre = bp[d][0]
							break
						}
					}
					var creq map[string]interface{}
					if cre == nil || json.Unmarshal(cre.Req, &creq) != nil {
						continue
					}
					ci := asMap(fs.Trees["core-index"])
					ops, _ := ci["operations"].(map[string]interface{})
					if ops == nil {
						ops = map[string]interface{}{}
						ci["operations"] = ops
					}
					ops["create"] = []interface{}{map[string]interface{}{"suffixData": creq["suffixData"]}}
					asMap(fs.Trees["chunk"])["deltas"] = append([]interface{}{creq["delta"]}, dl...)
					asMap(u[0])["didSuffix"] = cre.Suffix
					pl.Txn.AnchorString = "3." + fs.URI["core-index"]
				}
				for uri, b64 := range fs.encode(nil) {
					raw, _ := ref.UnB64(b64)
					cas.M[uri] = raw
				}
				if pl.Txn.AnchorString == "" || !strings.HasPrefix(pl.Txn.AnchorString, "3.") {
					pl.Txn.AnchorString = fmt.Sprintf("2.%s", fs.URI["core-index"])
				}
				pl.Expect = nil
			case "dup":
				pl.Txn.ProtocolVersion = p2.GenesisTime
				pl.Txn.AnchorString = fmt.Sprintf("stub-%d-%d", si, k)
				var ops []*operation.AnchoredOperation
				seen := map[string]bool{}
				for i, b := range batch {
					ops = append(ops, &operation.AnchoredOperation{Type: operation.Type(b.Type), UniqueSuffix: b.Suffix, OperationRequest: b.Req})
					if !seen[b.Suffix] {
						seen[b.Suffix] = true
						pl.Expect = append(pl.Expect, expectedStored{b.Type, b.Suffix, canonReq(b.Req)})
					}
					// duplicate: another operation of the same DID right after / at the end
					if i%2 == 0 {
						for _, o := range bp[indexOfDID(bp, b.Suffix)] {
							if o != b && o.Until == 0 {
								ops = append(ops, &operation.AnchoredOperation{Type: operation.Type(o.Type), UniqueSuffix: o.Suffix, OperationRequest: o.Req})
								break
							}
						}
					}
				}
				stub.ops[pl.Txn.AnchorString] = ops
			default:
				before := map[string]bool{}
				for u := range cas.M {
					before[u] = true
				}
				q := make([]*operation.QueuedOperation, len(batch))
				for i, b := range batch {
					q[i] = b.queued()
				}
				info, err := build.Handler.PrepareTxnFiles(q)
				if err != nil {
					c.Inconclusive("PrepareTxnFiles failed while building a transaction: %v", err)
					return
				}
				pl.Txn.AnchorString = info.AnchorString
				for _, a := range info.Artifacts {
					pl.Files = append(pl.Files, a.ID)
				}
				sorted := append([]*batchOp{}, batch...)
				sort.SliceStable(sorted, func(i, j int) bool { return typeRank[sorted[i].Type] < typeRank[sorted[j].Type] })
				for _, b := range sorted {
					pl.Expect = append(pl.Expect, expectedStored{b.Type, b.Suffix, canonReq(b.Req)})
				}
				switch kind {
				case "malformed-anchor":
					pl.Txn.AnchorString = hx.Pick(r, []string{"", "garbage", "0." + strings.SplitN(info.AnchorString, ".", 2)[1], "x." + info.AnchorString, fmt.Sprintf("%d.%s", len(batch)+1, strings.SplitN(info.AnchorString, ".", 2)[1])})
					pl.Expect = nil
				case "missing-file":
					delete(cas.M, hx.Pick(r, pl.Files))
					pl.Expect = nil
				case "oversized-file-at-the-mirror":
					// the local CAS does not hold the core index file; the alternate source serves one that is one byte larger than
					// the limit for that file (same JSON document, padded; stored-block gzip): a transaction that cannot be read
					u := strings.SplitN(info.AnchorString, ".", 2)[1]
					zr, zerr := gzip.NewReader(bytes.NewReader(cas.M[u]))
					if zerr != nil {
						c.Inconclusive("batch file written by the handler is not gzip: %v", zerr)
						return
					}
					plain, _ := io.ReadAll(zr)
					var tree interface{}
					if json.Unmarshal(plain, &tree) != nil {
						continue
					}
					if big := storedGzipOfSize(tree, int(p.MaxCoreIndexFileSize)+1); big != nil {
						pl.MirrorOnly = map[string][]byte{u: big}
					}
					delete(cas.M, u)
					pl.Expect = nil
				case "corrupt-file":
					u := hx.Pick(r, pl.Files)
					orig := cas.M[u]
					pick := r.Intn(8)
					if pick >= 4 && r.Bool() {
						u = strings.SplitN(info.AnchorString, ".", 2)[1] // the core index file
						orig = cas.M[u]
					}
					switch pick {
					case 4, 5, 6, 7: // a well-formed gzip stream whose content is the original JSON document followed by more bytes: not a JSON document
						zr, zerr := gzip.NewReader(bytes.NewReader(orig))
						if zerr != nil {
							c.Inconclusive("batch file written by the handler is not gzip: %v", zerr)
							return
						}
						plain, _ := io.ReadAll(zr)
						plain = append(plain, hx.Pick(r, []string{`{"x":1}`, " garbage", "]", "\n{}", ` {"operations":{}}`, "\x00"})...)
						cas.M[u] = gz(plain, gzip.DefaultCompression)
						c.Count("corrupt_file_json_with_trailing_bytes")
					case 0: // not gzip at all
						cas.M[u] = append([]byte("corrupt"), orig...)
					case 1: // intact gzip header, body cut off
						cas.M[u] = append([]byte{}, orig[:len(orig)*3/5]...)
					case 2: // intact header and length, a byte of the body damaged (checksum / inflate error)
						b := append([]byte{}, orig...)
						b[len(b)/2] ^= 0x5a
						b[len(b)/2+1] ^= 0xa5
						cas.M[u] = b
					default: // trailer cut off
						cas.M[u] = append([]byte{}, orig[:len(orig)-5]...)
					}
					pl.Expect = nil
				case "unknown-namespace":
					pl.Txn.Namespace = "did:other"
					pl.Expect = nil
				case "unknown-version":
					pl.Txn.ProtocolVersion = 1 << 40
					pl.Expect = nil
				}
			}
			plans = append(plans, pl)
		}
		// fault positions: none, each file of each valid txn, the Put of each txn that would reach the store
		type fault struct {
			txn  int
			uri  string
			put  bool
			name string
		}
		faults := []fault{{-1, "", false, "no-fault"}}
		for ti, pl := range plans {
			if pl.Expect == nil {
				continue
			}
			for fi, u := range pl.Files {
				faults = append(faults, fault{ti, u, false, fmt.Sprintf("cas-read txn%d file%d", ti, fi)})
			}
			faults = append(faults, fault{ti, "", true, fmt.Sprintf("store-put txn%d", ti)})
		}
		if !c.Thorough() && len(faults) > 8 {
			// keep the first and a PRNG-chosen subset in quick
			keep := []fault{faults[0]}
			for _, idx := range r.Perm(len(faults) - 1)[:7] {
				keep = append(keep, faults[idx+1])
			}
			faults = keep
		}
		for _, f := range faults {
			if atomic.LoadInt32(&c15Hung) == 1 {
				return // a hung observer may hold process-wide resources: nothing after it can be trusted
			}
			c.Eval()
			// fresh components per run
			store := hx.NewOpStore()
			unpub := &recUnpub{}
			runCAS := hx.NewMemCAS()
			for u, b := range cas.M {
				runCAS.M[u] = b
				if withAlt {
					runCAS.M["mirror|"+u] = b
				}
			}
			if withAlt {
				for _, pl := range plans {
					for u, b := range pl.MirrorOnly {
						runCAS.M["mirror|"+u] = b
					}
				}
			}
			failTxnAnchor := ""
			if f.txn >= 0 {
				failTxnAnchor = plans[f.txn].Txn.AnchorString
			}
			if f.uri != "" {
				runCAS.ReadErr = func(_ int, addr string) error {
					if addr == f.uri {
						return errors.New("injected CAS read failure")
					}
					return nil
				}
			}
			var currentAnchor string
			if f.put {
				store.PutErr = func(_ int, ops []*operation.AnchoredOperation) error {
					if currentAnchor == failTxnAnchor {
						return errors.New("injected store failure")
					}
					return nil
				}
			}
			tpOpts := []txnprocessor.Option{txnprocessor.WithUnpublishedOperationStore(unpub, []operation.Type{operation.TypeUpdate, operation.TypeCreate})}
			var provOpts []txnprovider.Opt
			if withAlt {
				provOpts = []txnprovider.Opt{txnprovider.WithSourceCASURIFormatter(func(uri, source string) (string, error) { return source + "|" + uri, nil })}
				c.Count("runs_with_alternate_sources")
			}
			v1 := hx.NewVersion(p, hx.VersionOpts{CAS: runCAS, Store: store, TxnProcOpts: tpOpts, ProviderOpts: provOpts})
			// a panic while reading a transaction would kill the observer goroutine (and this process): catch it at the provider
			// boundary, report it, and let the run go on
			v1.TxnProc = txnprocessor.New(&txnprocessor.Providers{OpStore: store, OperationProtocolProvider: &safeProvider{inner: v1.Provider, onPanic: func(anchor string, r interface{}) {
				c.Violation(fmt.Sprintf("C15 reading the batch files of a transaction panicked (the observer goroutine would die and process nothing any more): %v", r), map[string]interface{}{"anchor": anchor, "panic": fmt.Sprint(r)})
			}}}, tpOpts...)
			v2 := hx.NewVersion(p2, hx.VersionOpts{CAS: runCAS})
			v2.TxnProc = txnprocessor.New(&txnprocessor.Providers{OpStore: store, OperationProtocolProvider: stub})
			// wrap processors to learn which transaction a Put belongs to
			v1.TxnProc = &tagProc{inner: v1.TxnProc, cur: &currentAnchor}
			v2.TxnProc = &tagProc{inner: v2.TxnProc, cur: &currentAnchor}
			pc := hx.NewClient(v1, v2)
			// pre-populate unpublished store with the operations that are about to be anchored (updates/creates) plus one stranger
			for _, pl := range plans {
				for _, e := range pl.Expect {
					_ = unpub.Put(&operation.AnchoredOperation{Type: operation.Type(e.Type), UniqueSuffix: e.Suffix, OperationRequest: []byte(e.Request)})
				}
			}
			_ = unpub.Put(&operation.AnchoredOperation{Type: "update", UniqueSuffix: "stranger", OperationRequest: []byte(`{"x":1}`)})
			unpubBefore := unpub.Len()
			ledger := &chanLedger{ch: make(chan []txn.SidetreeTxn)}
			obs := observer.New(&observer.Providers{Ledger: ledger, ProtocolClientProvider: &hx.ClientProvider{C: pc}})
			obs.Start()
			// deliver in 1-3 notifications
			cuts := []int{len(plans)}
			if len(plans) > 1 && r.Bool() {
				cuts = []int{1 + r.Intn(len(plans)-1), len(plans)}
			}
			delivered := make(chan struct{})
			go func() {
				start := 0
				for _, end := range cuts {
					var batch []txn.SidetreeTxn
					for _, pl := range plans[start:end] {
						batch = append(batch, pl.Txn)
					}
					ledger.ch <- batch
					start = end
				}
				ledger.ch <- nil // quiescence: returns only after everything before it has been processed
				close(delivered)
			}()
			select {
			case <-delivered:
			case <-time.After(3 * time.Minute):
				// bounded progress: at most six small transactions; three minutes is four orders of magnitude more than they need
				atomic.StoreInt32(&c15Hung, 1)
				var kinds []string
				for _, pl := range plans {
					kinds = append(kinds, pl.Kind)
				}
				c.Violation(fmt.Sprintf("C15 the observer did not finish a notification of %d transactions within 3 minutes: a transaction keeps later ones from being processed (sequence=%v fault=%s)", len(plans), kinds, f.name),
					map[string]interface{}{"sequence": kinds, "fault": f.name})
				return
			}
			obs.Stop()
			// ---- oracle
			hit := func(ti int, pl *txnPlan) bool {
				if f.put {
					return pl.Txn.AnchorString == failTxnAnchor
				}
				if f.uri != "" && !withAlt { // with alternate sources the mirror serves the file the local CAS cannot deliver
					for _, u := range pl.Files {
						if u == f.uri {
							return true // batches with identical content share content-addressed files
						}
					}
				}
				return false
			}
			var want [][]expectedStored
			var wantDeleted int
			for ti, pl := range plans {
				if pl.Expect == nil {
					continue
				}
				if hit(ti, pl) {
					continue // the injected fault makes this transaction fail
				}
				want = append(want, pl.Expect)
				if pl.Kind != "dup" {
					for _, e := range pl.Expect {
						if e.Type == "update" || e.Type == "create" {
							wantDeleted++
						}
					}
				}
			}
			desc := fmt.Sprintf("sequence=%v fault=%s", kindsOf(plans), f.name)
			replay := map[string]interface{}{"sequence": kindsOf(plans), "fault": f.name, "transactions": plans}
			store2 := store.PutLog
			if len(store2) != len(want) {
				replay["puts"] = summarizePuts(store2)
				c.Violation(fmt.Sprintf("C15 %d store writes, expected %d (one per processable transaction, none for a failed one): %s", len(store2), len(want), desc), replay)
				return
			}
			// match each Put to the transaction with the same (time, number, canonical ref) in order
			wi := 0
			for ti, pl := range plans {
				if pl.Expect == nil || hit(ti, pl) {
					continue
				}
				put := store2[wi]
				wi++
				if len(put) != len(pl.Expect) {
					replay["puts"] = summarizePuts(store2)
					c.Violation(fmt.Sprintf("C15 transaction %d stored %d operations, expected %d (one per DID suffix): %s", ti, len(put), len(pl.Expect), desc), replay)
					return
				}
				seen := map[string]bool{}
				for oi, o := range put {
					e := pl.Expect[oi]
					if seen[o.UniqueSuffix] {
						c.Violation(fmt.Sprintf("C15 transaction %d stored two operations for suffix %s: %s", ti, o.UniqueSuffix, desc), replay)
						return
					}
					seen[o.UniqueSuffix] = true
					if string(o.Type) != e.Type || o.UniqueSuffix != e.Suffix || canonReq(o.OperationRequest) != e.Request {
						c.Violation(fmt.Sprintf("C15 transaction %d operation %d stored as %s/%s, expected %s/%s: %s", ti, oi, o.Type, o.UniqueSuffix, e.Type, e.Suffix, desc), replay)
						return
					}
					if o.TransactionTime != pl.Txn.TransactionTime || o.TransactionNumber != pl.Txn.TransactionNumber || o.ProtocolVersion != pl.Txn.ProtocolVersion ||
						o.CanonicalReference != pl.Txn.CanonicalReference || fmt.Sprint(o.EquivalentReferences) != fmt.Sprint(pl.Txn.EquivalentReferences) {
						c.Violation(fmt.Sprintf("C15 stored operation is not stamped with its transaction's coordinates and references: got (time %d, number %d, version %d, canonical %q, equivalent %v), transaction (%d, %d, %d, %q, %v): %s",
							o.TransactionTime, o.TransactionNumber, o.ProtocolVersion, o.CanonicalReference, o.EquivalentReferences,
							pl.Txn.TransactionTime, pl.Txn.TransactionNumber, pl.Txn.ProtocolVersion, pl.Txn.CanonicalReference, pl.Txn.EquivalentReferences, desc), replay)
						return
					}
				}
			}
			if got := unpubBefore - unpub.Len(); got != wantDeleted {
				c.Violation(fmt.Sprintf("C15 %d unpublished operations deleted, expected %d (configured types of successfully stored transactions only): %s", got, wantDeleted, desc), replay)
				return
			}
			c.Count("runs:" + strings.SplitN(f.name, " ", 2)[0])
			c.CountN("transactions_delivered", len(plans))
			c.CountN("transactions_stored", len(want))
			for _, pl := range plans {
				c.Count("txn_kind:" + pl.Kind)
			}
			if f.txn >= 0 || len(want) < len(plans) {
				c.Distinct(desc + fmt.Sprint(si))
			}
		}
		if si == 0 {
			c.Sample(2, map[string]interface{}{"sequence": kindsOf(plans), "faults_enumerated": len(faults)})
		}
	})

	// ---------- (2) intake: refused or failed operations leave no trace
	nIn := c.N(120, 2500)
	iseeds := make([]uint64, nIn)
	for i := range iseeds {
		iseeds[i] = rng.U64()
	}
	hx.Parallel(nIn, 8, func(si int) {
		if c.Violations() > 8 {
			return
		}
		r := hx.NewRng(iseeds[si], "intake")
		pc := hx.NewClient(hx.NewVersion(p, hx.VersionOpts{}))
		// existing DIDs in the operation store: one live, one deactivated
		store := hx.NewOpStore()
		mkStored := func(deact bool) *CDid {
			d, cr, err := NewCDid(r.Split(fmt.Sprint("s", deact)), ref.SHA256, []string{"P-256", "Ed25519"}, 300, false, genPatches(r, 2, newIDPool(r)), nil, "o", "")
			if err != nil {
				panic(err)
			}
			d.Suffix = suffixOf(cr.Req, ref.SHA256)
			H := []*ref.Op{Place(cr.Desc, 10, 0, "c0", 0)}
			if deact {
				b, _ := d.Deactivate(0, 0)
				H = append(H, Place(b.Desc, 20, 0, "c1", 0))
			}
			store.Set(d.Suffix, ToAnchored(d.Suffix, H))
			return d
		}
		live, dead := mkStored(false), mkStored(true)
		type step struct {
			kind string
			req  []byte
			ok   bool
		}
		var steps []step
		ids := newIDPool(r)
		for k := 0; k < 4+r.Intn(8); k++ {
			switch r.Intn(8) {
			case 0, 1:
				_, cr, _ := NewCDid(r.Split(fmt.Sprint("n", k)), ref.SHA256, []string{"P-256"}, 300, false, genPatches(r, 2, ids), nil, nil, "")
				steps = append(steps, step{"create", cr.Req, true})
			case 2:
				b, _ := live.Update(genPatches(r, 2, ids), 0, 0)
				steps = append(steps, step{"update-live", b.Req, true})
			case 3:
				old := *dead
				b, _ := old.Update(genPatches(r, 2, ids), 0, 0)
				steps = append(steps, step{"update-deactivated", b.Req, false})
			case 4:
				ghost, _, _ := NewCDid(r.Split(fmt.Sprint("g", k)), ref.SHA256, []string{"P-256"}, 300, false, genPatches(r, 2, ids), nil, nil, "")
				ghost.Suffix = "EiGhostDoesNotExistxxxxxxxxxxxxxxxxxxxxxxxxxxxx"
				b, _ := ghost.Update(genPatches(r, 2, ids), 0, 0)
				steps = append(steps, step{"update-unknown-did", b.Req, false})
			case 7:
				// a create that the parser admits but whose initial document cannot be built / is not a valid document
				bad := hx.Pick(r, [][]interface{}{
					{patchJSON(map[string]interface{}{"op": "remove", "path": "/missing"})},
					{patchAddServices(genService(r, "okSvc")), patchJSON(map[string]interface{}{"op": "move", "from": "/nowhere", "path": "/x"})},
					{patchJSON(map[string]interface{}{"op": "add", "path": "/id", "value": "did:x:y"})},
				})
				_, cr, err := NewCDid(r.Split(fmt.Sprint("badcreate", k)), ref.SHA256, []string{"P-256"}, 300, false, bad, nil, nil, "")
				if err == nil {
					steps = append(steps, step{"create-refused-by-document-validation", cr.Req, false})
				}
			case 5:
				steps = append(steps, step{"garbage", []byte(hx.Pick(r, []string{`{}`, `{"type":"create"}`, `not json`, `{"type":"update","didSuffix":"x"}`})), false})
			default:
				b, _ := live.Update(genPatches(r, 2, ids), 0, 0)
				bad := append([]byte{}, b.Req...)
				bad = []byte(strings.Replace(string(bad), `"revealValue":"`, `"revealValue":"x`, 1))
				steps = append(steps, step{"update-bad-reveal", bad, false})
			}
		}
		nOK := 0
		for _, s := range steps {
			if s.ok {
				nOK++
			}
		}
		// fault plans: none; unpublished Put failure at each index; writer Add failure at each index
		type plan struct {
			putFail, addFail int
			name             string
		}
		plansI := []plan{{0, 0, "no-fault"}}
		for k := 1; k <= nOK; k++ {
			plansI = append(plansI, plan{k, 0, fmt.Sprintf("unpublished-put-fails-at-%d", k)}, plan{0, k, fmt.Sprintf("writer-add-fails-at-%d", k)})
		}
		for _, fp := range plansI {
			c.Eval()
			w := &hx.RecWriter{}
			unpub := &recUnpub{}
			if fp.putFail > 0 {
				unpub.PutErr = func(call int) error {
					if call == fp.putFail {
						return errors.New("injected unpublished store failure")
					}
					return nil
				}
			}
			if fp.addFail > 0 {
				w.AddErr = func(call int) error {
					if call == fp.addFail {
						return errors.New("injected enqueue failure")
					}
					return nil
				}
			}
			// a third of the sequences: the unpublished-operation store is configured for creates only and keyed by DID suffix
			cfgTypes := allOpTypes
			if si%3 == 2 {
				cfgTypes = []operation.Type{operation.TypeCreate}
				unpub.BySuffix = true
			}
			configured := func(req []byte) bool {
				var t struct {
					Type operation.Type `json:"type"`
				}
				_ = json.Unmarshal(req, &t)
				for _, ct := range cfgTypes {
					if ct == t.Type {
						return true
					}
				}
				return false
			}
			dh := dochandler.New(hx.Namespace, nil, pc, w, processor.New("verif", store, pc), hx.NopMetrics{}, dochandler.WithUnpublishedOperationStore(unpub, cfgTypes))
			var wantReqs, wantUnpub []string
			putAttempts, addAttempts := 0, 0
			rest := restdoc.NewUpdateHandler(dh, pc, hx.NopMetrics{})
			for _, s := range steps {
				var err error
				if si%2 == 1 {
					// through the REST front end: what is queued and stored must stay the bytes the client sent, whatever later
					// (accepted or refused) requests do to the handler's buffers
					rw := httptest.NewRecorder()
					rest.Update(rw, httptest.NewRequest(http.MethodPost, "/operations", bytes.NewReader(append([]byte{}, s.req...))))
					if rw.Code != http.StatusOK {
						err = fmt.Errorf("http %d", rw.Code)
					}
				} else {
					_, err = dh.ProcessOperation(s.req, p.GenesisTime)
				}
				expectOK := s.ok
				if s.ok {
					if configured(s.req) {
						putAttempts++
					}
					if configured(s.req) && putAttempts == fp.putFail {
						expectOK = false
					} else {
						addAttempts++
						if addAttempts == fp.addFail {
							expectOK = false
						}
					}
				}
				if (err == nil) != expectOK {
					c.Violation(fmt.Sprintf("C15 ProcessOperation(%s) returned err=%v, expected success=%v (fault plan %s)", s.kind, err, expectOK, fp.name),
						map[string]interface{}{"steps": stepKinds(steps), "fault": fp.name, "request": string(s.req)})
					return
				}
				if expectOK {
					wantReqs = append(wantReqs, string(s.req))
					if configured(s.req) {
						wantUnpub = append(wantUnpub, string(s.req))
					}
				}
			}
			var gotW []string
			for _, q := range w.Added {
				gotW = append(gotW, string(q.OperationRequest))
			}
			var gotU []string
			unpub.mu.Lock()
			for _, o := range unpub.ops {
				gotU = append(gotU, string(o.OperationRequest))
			}
			unpub.mu.Unlock()
			if strings.Join(gotW, "\x00") != strings.Join(wantReqs, "\x00") {
				c.Violation(fmt.Sprintf("C15 batch queue holds %d operations after the sequence, expected exactly the %d accepted ones (fault plan %s)", len(gotW), len(wantReqs), fp.name),
					map[string]interface{}{"steps": stepKinds(steps), "fault": fp.name})
				return
			}
			if strings.Join(gotU, "\x00") != strings.Join(wantUnpub, "\x00") {
				c.Violation(fmt.Sprintf("C15 unpublished-operation store (configured for %v) holds %d operations after the sequence, expected exactly the %d accepted ones of those types: a refused or failed operation left a trace or removed another one (fault plan %s)", cfgTypes, len(gotU), len(wantUnpub), fp.name),
					map[string]interface{}{"steps": stepKinds(steps), "fault": fp.name, "store": gotU})
				return
			}
			if si%3 == 2 {
				c.Count("intake_runs_with_store_for_creates_only")
			}
			c.Count("intake_runs:" + strings.SplitN(fp.name, "-at-", 2)[0])
			c.Distinct("intake|" + fp.name + fmt.Sprint(si))
		}
		// a pending create and a failed enqueue of an update for the same DID (store for creates only, keyed by DID suffix; the
		// processor sees pending operations, so the update passes the handler's decoration): the pending create stays
		if si%3 == 2 {
			unpubC := &recUnpub{BySuffix: true}
			wC := &hx.RecWriter{AddErr: func(call int) error {
				if call == 2 {
					return errors.New("injected enqueue failure")
				}
				return nil
			}}
			procC := processor.New("verif", hx.NewOpStore(), pc, processor.WithUnpublishedOperationStore(unpubC))
			dhC := dochandler.New(hx.Namespace, nil, pc, wC, procC, hx.NopMetrics{}, dochandler.WithUnpublishedOperationStore(unpubC, []operation.Type{operation.TypeCreate}))
			dX, crX, err := NewCDid(r.Split("pending-create"), ref.SHA256, []string{"P-256"}, 300, false, genPatches(r, 2, newIDPool(r)), nil, nil, "")
			if err == nil {
				dX.Suffix = suffixOf(crX.Req, ref.SHA256)
				upX, uerr := dX.Update(genPatches(r, 2, newIDPool(r)), 0, 0)
				c.Eval()
				_, e1 := dhC.ProcessOperation(crX.Req, p.GenesisTime)
				if e1 == nil && uerr == nil {
					_, e2 := dhC.ProcessOperation(upX.Req, p.GenesisTime)
					held := ""
					unpubC.mu.Lock()
					if len(unpubC.ops) == 1 {
						held = string(unpubC.ops[0].OperationRequest)
					}
					n := len(unpubC.ops)
					unpubC.mu.Unlock()
					if e2 == nil || n != 1 || held != string(crX.Req) || wC.Len() != 1 {
						c.Violation(fmt.Sprintf("C15 an update whose enqueueing failed (err=%v) changed what is pending for its DID: the unpublished-operation store (creates only, keyed by DID) holds %d entries, expected the accepted create alone; queue holds %d operations, expected 1", e2, n, wC.Len()),
							map[string]interface{}{"create": string(crX.Req), "update": string(upX.Req)})
						return
					}
					c.Count("failed_enqueue_after_pending_create")
				}
			}
		}
		// the REAL batch writer in front of the real in-memory queue: accepted while running, refused without any trace in queue
		// and unpublished store once it has been stopped
		{
			q := &opqueue.MemQueue{}
			pcW := hx.NewClient(hx.NewVersion(p, hx.VersionOpts{CAS: hx.NewMemCAS()}))
			w, err := batch.New(hx.Namespace, &pipeCtx{pc: pcW, l: &pipeLedger{ch: make(chan []txn.SidetreeTxn), refsOf: map[string][]*operation.Reference{}, step: func() uint64 { return 1 }}, q: q},
				batch.WithBatchTimeout(time.Hour), batch.WithMonitorInterval(time.Hour))
			if err != nil {
				c.Inconclusive("batch.New: %v", err)
				return
			}
			unpub := &recUnpub{}
			dh := dochandler.New(hx.Namespace, nil, pc, w, processor.New("verif", store, pc), hx.NopMetrics{}, dochandler.WithUnpublishedOperationStore(unpub, allOpTypes))
			var creates [][]byte
			for _, s := range steps {
				if s.kind == "create" {
					creates = append(creates, s.req)
				}
			}
			if len(creates) >= 2 {
				c.Eval()
				_, err1 := dh.ProcessOperation(creates[0], p.GenesisTime)
				l1, u1 := q.Len(), unpub.Len()
				w.Stop()
				_, err2 := dh.ProcessOperation(creates[1], p.GenesisTime)
				l2, u2 := q.Len(), unpub.Len()
				if err1 != nil || l1 != 1 || u1 != 1 {
					c.Violation(fmt.Sprintf("C15 batch writer not stopped: ProcessOperation err=%v, queue length %d, unpublished store %d (expected nil, 1, 1)", err1, l1, u1), map[string]interface{}{"request": string(creates[0])})
					return
				}
				if err2 == nil || l2 != l1 || u2 != u1 {
					c.Violation(fmt.Sprintf("C15 stopped batch writer: ProcessOperation err=%v, queue length %d -> %d, unpublished store %d -> %d: an operation whose enqueueing fails must be reported and leave no trace", err2, l1, l2, u1, u2),
						map[string]interface{}{"request": string(creates[1])})
					return
				}
				c.Count("intake_runs:real-writer-stopped")
			}
		}
		if si == 0 {
			c.Sample(3, map[string]interface{}{"intake_steps": stepKinds(steps), "fault_plans": len(plansI)})
		}
	})
	c.Floor("corrupt_file_json_with_trailing_bytes", 5)
	c.Floor("runs_with_alternate_sources", 50)
	c.Floor("intake_runs_with_store_for_creates_only", 20)
	c.Floor("failed_enqueue_after_pending_create", 5)
	c.Floor("runs:no-fault", 20)
	c.Floor("runs:cas-read", 50)
	c.Floor("runs:store-put", 20)
	c.Floor("txn_kind:dup", 10)
	c.Floor("txn_kind:dup-in-files", 5)
	c.Floor("txn_kind:oversized-file-at-the-mirror", 5)
	c.Floor("txn_shape:surplus-update-proof", 1)
	c.Floor("txn_kind:creates-without-provisional-index", 5)
	c.Floor("txn_kind:malformed-core-index", 5)
	c.Floor("txn_kind:valid", 50)
	c.Floor("intake_runs:unpublished-put-fails", 50)
	c.Floor("intake_runs:writer-add-fails", 50)
	c.Floor("intake_runs:real-writer-stopped", 10)
	_ = protocol.Protocol{}
}

// tagProc records which transaction is being processed (so that a store failure can be aimed at one transaction).
type tagProc struct {
	inner protocol.TxnProcessor
	cur   *string
}

func (t *tagProc) Process(sidetreeTxn txn.SidetreeTxn, suffixes ...string) (int, error) {
	*t.cur = sidetreeTxn.AnchorString
	return t.inner.Process(sidetreeTxn, suffixes...)
}

func indexOfDID(bp [][]*batchOp, suffix string) int {
	for i, ops := range bp {
		if ops[0].Suffix == suffix {
			return i
		}
	}
	return 0
}

func kindsOf(plans []*txnPlan) []string {
	var out []string
	for _, p := range plans {
		out = append(out, p.Kind)
	}
	return out
}

func summarizePuts(puts [][]*operation.AnchoredOperation) []string {
	var out []string
	for _, p := range puts {
		var s []string
		for _, o := range p {
			s = append(s, fmt.Sprintf("%s/%s@(%d,%d)", o.Type, o.UniqueSuffix[:8], o.TransactionTime, o.TransactionNumber))
		}
		out = append(out, strings.Join(s, " "))
	}
	return out
}

func stepKinds(steps interface{}) interface{} {
	return fmt.Sprintf("%v", steps)
}

// safeProvider turns a panic of the real operation provider into an error (after reporting it).
type safeProvider struct {
	inner   protocol.OperationProvider
	onPanic func(anchor string, r interface{})
}

func (p *safeProvider) GetTxnOperations(t *txn.SidetreeTxn) (ops []*operation.AnchoredOperation, err error) {
	defer func() {
		if r := recover(); r != nil {
			p.onPanic(t.AnchorString, r)
			ops, err = nil, fmt.Errorf("panic: %v", r)
		}
	}()
	return p.inner.GetTxnOperations(t)
}
