package main

import (
	"fmt"
	"sync"
	"sync/atomic"

	"github.com/trustbloc/sidetree-core-go/pkg/api/operation"
	"github.com/trustbloc/sidetree-core-go/pkg/api/txn"
	"github.com/trustbloc/sidetree-core-go/pkg/batch"
	"github.com/trustbloc/sidetree-core-go/pkg/versions/1_0/operationparser"

	"verifharness/hx"
	"verifharness/ref"
)

// taggedValidator is the server-time validator installed in one protocol version's parser: it records every window it is
// handed (with the version it belongs to) and judges it against a virtual clock shared by all versions.
type taggedValidator struct {
	ver   uint64
	now   *int64
	mu    *sync.Mutex
	calls *[]validatorCall
}

type validatorCall struct {
	Ver         uint64
	From, Until int64
}

func (v *taggedValidator) Validate(from, until int64) error {
	v.mu.Lock()
	*v.calls = append(*v.calls, validatorCall{v.ver, from, until})
	v.mu.Unlock()
	now := atomic.LoadInt64(v.now)
	if from != 0 && from > now {
		return operationparser.ErrOperationEarly
	}
	if until != 0 && until < now {
		return operationparser.ErrOperationExpired
	}
	return nil
}

// c05ThroughWriter: operations that declare only anchorFrom wait in the batch writer's queue across a protocol upgrade that
// changes MaxOperationTimeDelta (first version: genesis 0, the usual case). The batch is cut by the REAL cutter / writer and
// re-validated by the REAL operation handler of the version the operation was queued under. Oracles: (1) every window handed
// to a server-time validator for an operation is (anchorFrom, anchorFrom + delta of the version it was accepted under) - the
// same window intake saw - and it is handed to that version's validator; (2) an operation whose window (so defined) is closed
// at cut time is never anchored, one whose window is open is anchored, in a batch of its own version.
func c05ThroughWriter(c *hx.Ctx) {
	n := c.N(48, 600)
	root := c.Rng("writer")
	seeds := make([]uint64, n)
	for i := range seeds {
		seeds[i] = root.U64()
	}
	hx.Parallel(n, 8, func(i int) {
		if c.Violations() > 8 {
			return
		}
		r := hx.NewRng(seeds[i], "c05w")
		const G = 1000
		d0 := int64([]int{50, 300}[i%2])
		d1 := int64([]int{5000, 20, 100000}[(i/2)%3])
		pA := c13Proto(ref.SHA256)
		pA.MaxOperationCount = 5
		pA.MaxOperationTimeDelta = uint64(d0)
		pB := pA
		pB.GenesisTime = G
		pB.MaxOperationTimeDelta = uint64(d1)
		var now int64
		var mu sync.Mutex
		var calls []validatorCall
		cas := hx.NewMemCAS()
		l := &wlog{}
		yield := func(string) {}
		inclA, inclB := map[string][]string{}, map[string][]string{}
		vA := hx.NewVersion(pA, hx.VersionOpts{CAS: cas, ParserOpts: []operationparser.Option{operationparser.WithAnchorTimeValidator(&taggedValidator{0, &now, &mu, &calls})}})
		vB := hx.NewVersion(pB, hx.VersionOpts{CAS: cas, ParserOpts: []operationparser.Option{operationparser.WithAnchorTimeValidator(&taggedValidator{G, &now, &mu, &calls})}})
		pc := hx.NewClient(&handlerVersion{pA, &recRealHandler{inner: vA.Handler, log: l, yield: yield, ver: 0, included: inclA}},
			&handlerVersion{pB, &recRealHandler{inner: vB.Handler, log: l, yield: yield, ver: G, included: inclB}})
		anchor := &recAnchor{log: l, yield: yield}
		w, err := batch.New(hx.Namespace, &writerCtx{pc: pc, a: anchor, q: newRecQueue(l, yield)})
		if err != nil {
			c.Inconclusive("batch.New: %v", err)
			return
		}
		type qop struct {
			id       string
			ver      uint64
			from     int64
			wantOpen bool
		}
		// the queue: one to three operations accepted under version 0, then one or two accepted under version G
		cut := int64(900) + d0 + int64([]int{-5, 5}[(i/6)%2]) // just inside / just outside the window of the version-0 operations
		var qops []*qop
		nOld := 1 + r.Intn(3)
		nNew := 1 + r.Intn(2)
		for k := 0; k < nOld+nNew; k++ {
			ver, delta := uint64(0), d0
			if k >= nOld {
				ver, delta = G, d1
			}
			from := int64(890 + k) // distinct per operation: identifies the operation in the validator's record
			d, cr, err := NewCDid(r.Split(fmt.Sprint("did", k)), ref.SHA256, []string{hx.Pick(r, []string{"P-256", "Ed25519"})}, 300, false,
				[]interface{}{patchAddServices(svcEntry("s", "web", "https://example.com/s"))}, nil, "o", "")
			if err != nil {
				c.Violation("C05 client.NewCreateRequest refused valid inputs: "+err.Error(), nil)
				return
			}
			d.Suffix = suffixOf(cr.Req, ref.SHA256)
			var b *BuiltOp
			switch (i + k) % 3 {
			case 0:
				b, err = d.Update([]interface{}{patchAddServices(svcEntry("t", "web", "https://example.com/t"))}, from, 0)
			case 1:
				b, err = d.Deactivate(from, 0)
			default:
				b, err = d.Recover([]interface{}{patchAddServices(svcEntry("r", "web", "https://example.com/r"))}, nil, "o", from, 0)
			}
			if err != nil {
				c.Violation("C05 client builder refused valid inputs: "+err.Error(), nil)
				return
			}
			o := &qop{id: fmt.Sprintf("op%d-%s-v%d", k, b.Desc.Type, ver), ver: ver, from: from, wantOpen: from <= cut && cut <= from+delta}
			if cut == from+delta {
				continue // boundary: not judged here (the grid does that)
			}
			qops = append(qops, o)
			qo := &operation.QueuedOperation{Type: operation.Type(b.Desc.Type), OperationRequest: b.Req, UniqueSuffix: d.Suffix, Namespace: hx.Namespace,
				Properties: []operation.Property{{Key: "id", Value: o.id}}}
			if err := w.Add(qo, ver); err != nil {
				c.Violation("C05 batch writer refused a queued operation: "+err.Error(), nil)
				return
			}
		}
		c.Eval()
		atomic.StoreInt64(&now, cut)
		for k := 0; k < 6; k++ {
			w.VerifProcessAvailable(true)
		}
		replay := map[string]interface{}{"delta_v0": d0, "delta_vG": d1, "genesis_vG": G, "cut_time": cut, "validator_calls": calls, "log": logStrings(l.evs)}
		var descr []string
		for _, o := range qops {
			descr = append(descr, fmt.Sprintf("%s(from=%d)", o.id, o.from))
		}
		replay["queue"] = descr
		byFrom := map[int64]*qop{}
		for _, o := range qops {
			byFrom[o.from] = o
		}
		mu.Lock()
		seen := append([]validatorCall{}, calls...)
		mu.Unlock()
		for _, vc := range seen {
			o := byFrom[vc.From]
			if o == nil {
				continue
			}
			delta := d0
			if o.ver == G {
				delta = d1
			}
			if vc.Until != o.from+delta || vc.Ver != o.ver {
				c.Violation(fmt.Sprintf("C05 an operation declaring only anchorFrom=%d, accepted under the protocol version with genesis %d (MaxOperationTimeDelta %d), was handed to the server-time validator of version %d with window (%d, %d) at batch cut time; its window is (%d, %d) :: queue %v",
					o.from, o.ver, delta, vc.Ver, vc.From, vc.Until, o.from, o.from+delta, descr), replay)
				return
			}
		}
		anchoredIn := map[string]uint64{}
		for _, m := range []struct {
			ver  uint64
			incl map[string][]string
		}{{0, inclA}, {G, inclB}} {
			for a, ids := range m.incl {
				written := false
				for _, s := range anchor.Seen {
					written = written || s == a
				}
				if !written {
					continue
				}
				for _, id := range ids {
					anchoredIn[id] = m.ver + 1
				}
			}
		}
		for _, o := range qops {
			got := anchoredIn[o.id]
			switch {
			case o.wantOpen && got == 0:
				c.Violation(fmt.Sprintf("C05 operation %s whose window (%d, +delta of its version) is open at cut time %d was not anchored :: queue %v", o.id, o.from, cut, descr), replay)
				return
			case !o.wantOpen && got != 0:
				c.Violation(fmt.Sprintf("C05 operation %s was anchored at time %d, outside its window (anchorFrom %d + MaxOperationTimeDelta of the version it was accepted under) :: queue %v", o.id, cut, o.from, descr), replay)
				return
			case got != 0 && got-1 != o.ver:
				c.Violation(fmt.Sprintf("C05 operation %s accepted under version %d was anchored in a batch of version %d (its default window is then computed with another delta) :: queue %v", o.id, o.ver, got-1, descr), replay)
				return
			}
		}
		// a late reader on the same node (same parser objects): long after every window has closed the anchored batches still read
		// back - the anchoring time decides, not the reader's clock
		atomic.StoreInt64(&now, 1<<40)
		for _, m := range []struct {
			ver  uint64
			v    *hx.Version
			incl map[string][]string
		}{{0, vA, inclA}, {G, vB, inclB}} {
			for a, ids := range m.incl {
				written := false
				for _, s := range anchor.Seen {
					written = written || s == a
				}
				if !written || len(ids) == 0 {
					continue // (a cut whose operations had all expired is anchored with a count of 0: nothing to read back)
				}
				got, err := m.v.Provider.GetTxnOperations(&txn.SidetreeTxn{AnchorString: a, Namespace: hx.Namespace, TransactionTime: uint64(cut), ProtocolVersion: m.ver})
				if err != nil || len(got) != len(ids) {
					c.Violation(fmt.Sprintf("C05 a batch anchored at time %d (%d operations, all inside their windows) does not read back on the same node once the node's clock has passed the windows: %d operations, err=%v :: queue %v", cut, len(ids), len(got), err, descr), replay)
					return
				}
				c.Count("anchored_batches_read_back_after_their_windows_closed")
			}
		}
		c.Count("writer_runs_across_an_upgrade")
		if cut > 900+d0 {
			c.Count("writer_runs_with_stale_old_operation")
		}
		c.Distinct(fmt.Sprintf("c05w|%d|%d|%d|%v", d0, d1, cut, descr))
	})
}
