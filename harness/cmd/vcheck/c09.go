package main

import (
	"encoding/json"
	"fmt"
	"math/big"
	"strings"
	"sync"
	"time"

	"github.com/trustbloc/sidetree-core-go/pkg/jws"
	"github.com/trustbloc/sidetree-core-go/pkg/util/ecsigner"
	"github.com/trustbloc/sidetree-core-go/pkg/util/edsigner"
	"github.com/trustbloc/sidetree-core-go/pkg/verifhooks"
	"github.com/trustbloc/sidetree-core-go/pkg/versions/1_0/client"

	"verifharness/hx"
	"verifharness/ref"
)

func init() {
	register("C09", "exploration", checkC09)
	workers["jws"] = func(args []string) { hx.ServeWorker(args[0], probed(jwsCall, jwsProbe)) }
}

type jwsCase struct {
	Kind string            `json:"kind"` // verify | parse | verifysig | sign
	JWS  string            `json:"jws,omitempty"`
	JWK  map[string]string `json:"jwk,omitempty"`
	Sig  string            `json:"sig,omitempty"`
	Msg  string            `json:"msg,omitempty"`
	// seq: the cases are executed one after the other in the same process; the reply lists their outcomes
	Seq []jwsCase `json:"seq,omitempty"`
	// sign-twice: one library signer object for the key (KeyType, KeySeed) signs Msg, then Msg2; both raw signatures are
	// verified afterwards with VerifySignature
	KeyType string `json:"key_type,omitempty"`
	KeySeed string `json:"key_seed,omitempty"`
	Msg2    string `json:"msg2,omitempty"`
}

func jwsCall(p []byte) (reply []byte) {
	defer func() {
		if r := recover(); r != nil {
			reply = []byte(fmt.Sprintf("PANIC:%v", r))
		}
	}()
	var c jwsCase
	if err := json.Unmarshal(p, &c); err != nil {
		return []byte("SKIP:" + err.Error())
	}
	if c.Kind == "seq" {
		var outcomes []string
		for _, sc := range c.Seq {
			b, _ := json.Marshal(sc)
			r := string(jwsCall(b))
			if strings.HasPrefix(r, "PANIC:") {
				return []byte(r)
			}
			outcomes = append(outcomes, r[:strings.IndexByte(r, ':')])
		}
		return []byte("OK:" + strings.Join(outcomes, ","))
	}
	if c.Kind == "concurrent" {
		// the cases are first run one after the other, then by eight goroutines at once (different orders, many rounds);
		// every concurrent outcome must equal the sequential one. Half of the goroutines also sign fresh payloads with the
		// library's utilities and verify what they signed.
		want := make([]string, len(c.Seq))
		for i, sc := range c.Seq {
			b, _ := json.Marshal(sc)
			r := string(jwsCall(b))
			want[i] = r[:strings.IndexByte(r, ':')]
		}
		seed, _ := ref.UnB64(c.KeySeed)
		var wg sync.WaitGroup
		var mu sync.Mutex
		problem := ""
		// signer objects shared by all goroutines (one per key type): a signer holds a key, nothing a call may leave behind
		type sharedSigner struct {
			signer client.Signer
			pub    *jws.JWK
			typ    string
		}
		var shared []sharedSigner
		for ti, t := range ref.KeyTypes {
			k := ref.NewKey(t, fmt.Sprint("shared", ti), append(append([]byte{}, seed...), 0xf0, byte(ti)))
			kj := jwkStrings(k)
			shared = append(shared, sharedSigner{libSigner(k, ""), &jws.JWK{Kty: kj["kty"], Crv: kj["crv"], X: kj["x"], Y: kj["y"]}, t})
		}
		for g := 0; g < 8; g++ {
			wg.Add(1)
			go func(g int) {
				defer wg.Done()
				defer func() {
					if r := recover(); r != nil {
						mu.Lock()
						problem = fmt.Sprintf("panic in a concurrent caller: %v", r)
						mu.Unlock()
					}
				}()
				k := ref.NewKey([]string{"Ed25519", "P-256"}[g%2], fmt.Sprint("conc", g), append(append([]byte{}, seed...), byte(g)))
				kj := jwkStrings(k)
				pub := &jws.JWK{Kty: kj["kty"], Crv: kj["crv"], X: kj["x"], Y: kj["y"]}
				signer := libSigner(k, "")
				for round := 0; round < 30; round++ {
					for i := range c.Seq {
						n := (i*5 + g*3 + round) % len(c.Seq)
						b, _ := json.Marshal(c.Seq[n])
						r := string(jwsCall(b))
						if got := r[:strings.IndexByte(r, ':')]; got != want[n] {
							mu.Lock()
							if problem == "" {
								problem = fmt.Sprintf("verification #%d gave %s while other verifications were running, %s when run alone", n, got, want[n])
							}
							mu.Unlock()
							return
						}
					}
					for k := 0; k < 4; k++ {
						sh := shared[(g+round+k)%len(shared)]
						payload := []byte(fmt.Sprintf(`{"shared-signer":%d,"round":%d,"k":%d,"pad":"%s"}`, g, round, k, strings.Repeat("y", (round*7+k)%40)))
						j, err := verifhooks.SignPayload(payload, sh.signer)
						if err == nil {
							_, err = verifhooks.VerifyJWS(j, sh.pub)
						}
						if err != nil {
							mu.Lock()
							if problem == "" {
								problem = "a JWS signed with a signer object that other goroutines use at the same time (" + sh.typ + ") does not verify under its key: " + err.Error()
							}
							mu.Unlock()
							return
						}
					}
					if g%2 == 0 {
						payload := []byte(fmt.Sprintf(`{"goroutine":%d,"round":%d,"pad":"%s"}`, g, round, strings.Repeat("x", round)))
						j, err := verifhooks.SignPayload(payload, signer)
						if err == nil {
							_, err = verifhooks.VerifyJWS(j, pub)
						}
						if err != nil {
							mu.Lock()
							if problem == "" {
								problem = "a JWS signed by the library while other goroutines sign and verify does not verify under its key: " + err.Error()
							}
							mu.Unlock()
							return
						}
					}
				}
			}(g)
		}
		wg.Wait()
		if problem != "" {
			return []byte("ERR:" + problem)
		}
		return []byte("OK:")
	}
	if c.Kind == "sign-twice" {
		seed, _ := ref.UnB64(c.KeySeed)
		k := ref.NewKey(c.KeyType, "st", seed)
		signer := libSigner(k, "")
		m1, _ := ref.UnB64(c.Msg)
		m2, _ := ref.UnB64(c.Msg2)
		s1, err1 := signer.Sign(m1)
		s1copy := append([]byte{}, s1...)
		s2, err2 := signer.Sign(m2)
		if err1 != nil || err2 != nil {
			return []byte(fmt.Sprintf("ERR:sign failed: %v %v", err1, err2))
		}
		kj := jwkStrings(k)
		pub := &jws.JWK{Kty: kj["kty"], Crv: kj["crv"], X: kj["x"], Y: kj["y"]}
		if string(s1) != string(s1copy) {
			return []byte("ERR:the first signature returned by Sign was overwritten by the second Sign call on the same signer")
		}
		if e := verifhooks.VerifySignature(pub, s1, m1); e != nil {
			return []byte("ERR:first signature does not verify after a second Sign call: " + e.Error())
		}
		if e := verifhooks.VerifySignature(pub, s2, m2); e != nil {
			return []byte("ERR:second signature of the same signer object does not verify: " + e.Error())
		}
		if e := verifhooks.VerifySignature(pub, s1, m2); e == nil {
			return []byte("ERR:first signature verifies for the second message")
		}
		return []byte("OK:")
	}
	if c.Kind == "newjws-alias" {
		// NewJWS with all headers supplied by the caller (the signer object contributes none, or the other way round); the
		// header object is changed between construction and serialization: the serialized JWS still verifies under its key
		seed, _ := ref.UnB64(c.KeySeed)
		k := ref.NewKey(c.KeyType, "alias", seed)
		kj := jwkStrings(k)
		pub := &jws.JWK{Kty: kj["kty"], Crv: kj["crv"], X: kj["x"], Y: kj["y"]}
		msg, _ := ref.UnB64(c.Msg)
		var out []string
		// (1) signer without headers, caller's map mutated afterwards
		callerHeaders := jws.Headers{"alg": k.Alg(), "kid": "key-1"}
		j1, err := verifhooks.NewJWSCompact(callerHeaders, msg, libSignerNoHeaders(k), func() { callerHeaders["kid"] = "key-2"; callerHeaders["extra"] = "x" }, false)
		if err == nil {
			_, err = verifhooks.VerifyJWS(j1, pub)
		}
		if err != nil {
			out = append(out, "JWS built from caller-supplied headers does not verify after the caller changed its header object: "+err.Error())
		}
		// (2) no caller headers, signer returns one stored map which is changed afterwards
		sh := &storedHeaderSigner{inner: libSigner(k, "kid-a"), h: jws.Headers{"alg": k.Alg(), "kid": "kid-a"}}
		j2, err := verifhooks.NewJWSCompact(nil, msg, sh, func() { sh.h["kid"] = "kid-b" }, false)
		if err == nil {
			_, err = verifhooks.VerifyJWS(j2, pub)
		}
		if err != nil {
			out = append(out, "JWS built from the signer's headers does not verify after the signer's header object changed: "+err.Error())
		}
		// (3) the rarely used unprotected headers: they are not part of what is signed, and a JWS built with them verifies
		j3, err := verifhooks.NewJWSCompactUnprotected(jws.Headers{"alg": k.Alg(), "kid": "key-1"}, jws.Headers{"note": "unprotected", "x5u": "https://u.example"}, msg, libSigner(k, ""), false)
		if err == nil {
			_, err = verifhooks.VerifyJWS(j3, pub)
		}
		if err != nil {
			out = append(out, "JWS built with unprotected headers does not verify under its key: "+err.Error())
		}
		// (4) signer objects whose algorithm label is another registered name than the one that goes with the key's curve: the
		// label is a header value, the key decides how the signature is made and checked
		if k.Type != "Ed25519" {
			for _, label := range []string{"ES256", "ES384", "ES512", "ES256K"} {
				if label == k.Alg() {
					continue
				}
				j4, err := verifhooks.SignPayload(msg, ecsigner.New(k.ECDSAPrivate(), label, "k"))
				if err == nil {
					_, err = verifhooks.VerifyJWS(j4, pub)
				}
				if err != nil {
					out = append(out, "JWS signed by a "+k.Type+" signer labelled "+label+" does not verify under its key: "+err.Error())
					break
				}
			}
		}
		if len(out) > 0 {
			return []byte("ERR:" + strings.Join(out, "; "))
		}
		return []byte("OK:")
	}
	jwk := &jws.JWK{Kty: c.JWK["kty"], Crv: c.JWK["crv"], X: c.JWK["x"], Y: c.JWK["y"]}
	var err error
	switch c.Kind {
	case "verify-detached":
		msg, _ := ref.UnB64(c.Msg)
		_, err = verifhooks.VerifyJWSDetached(c.JWS, jwk, msg)
	case "verify":
		_, err = verifhooks.VerifyJWS(c.JWS, jwk)
	case "parse":
		_, err = verifhooks.ParseJWS(c.JWS)
	case "verifysig":
		sig, _ := ref.UnB64(c.Sig)
		msg, _ := ref.UnB64(c.Msg)
		err = verifhooks.VerifySignature(jwk, sig, msg)
	}
	if err != nil {
		return []byte("ERR:" + err.Error())
	}
	return []byte("OK:")
}

func jwkStrings(k *ref.Key) map[string]string {
	m := map[string]string{}
	for n, v := range k.JWK() {
		if s, ok := v.(string); ok && n != "nonce" {
			m[n] = s
		}
	}
	return m
}

func cloneJWK(m map[string]string) map[string]string {
	o := map[string]string{}
	for k, v := range m {
		o[k] = v
	}
	return o
}

func checkC09(c *hx.Ctx) {
	c.Rule("for each of the five key types: genuine compact JWS built independently (harness/ref) and by the library's SignPayload, headers {alg}, {alg,kid} and - signed by the library - {alg[,kid],b64:true|false}, several payload sizes; oracle (constructive): verifies under its key; every single-byte alteration (2 bit patterns) of the decoded protected header that changes its value or breaks it, headers with a repeated member name (first, last, equal value), every byte of the payload, the detached-payload option with the genuine and with another payload (whatever the payload segment holds), every byte of the signature, truncations/extensions/empty/swapped/zeroed r or s, every pairing with every other key of the universe, and JWKs made of the genuine characters split at another member boundary (verified in one process right after and right before the genuine JWK) must be rejected; a JWS whose header objects (the caller's or the signer's) are changed between construction and serialization still verifies, so does one built with unprotected headers or by a signer whose algorithm label does not go with its curve; a library signer object that signs twice must leave its first signature intact and valid; eight goroutines verifying genuine and altered JWS of equal length (and signing) at once must get the outcomes of the calls made alone (race detector in the thorough tier) (the ECDSA twin (r,n-s) is counted, not judged); malformed JWKs (missing/unknown kty or crv, coordinate length +-1, off-curve point, wrong Ed25519 size), headers without alg or with non-boolean b64, and structured-random compact strings must yield an error and never a panic; executed through the verif-tagged re-export of internal/jws in crash-isolated workers; non-trivial = altered or malformed input; distinct = distinct (jws, jwk) inputs")
	c.Assume("Go crypto and btcec are trusted; a header edit counts as an alteration only if the header value changes or stops parsing (DESIGN Appendix B)")
	pool := hx.NewPool(c, "jws", 16, 4*1024*1024, 30*time.Second)
	defer pool.Close()
	// the concurrent mode is one long call (seconds under the race detector, more on a loaded machine): it gets a pool of its
	// own with a generous watchdog, whose firing means "too slow to tell", not a violation
	slowPool := hx.NewPool(c, "jws", 2, 4*1024*1024, 15*time.Minute)
	defer slowPool.Close()
	call := func(cs jwsCase) (string, string, bool) {
		b, _ := json.Marshal(cs)
		pl := pool
		if cs.Kind == "concurrent" {
			pl = slowPool
		}
		reply, crash := pl.Call(b)
		if crash != nil && cs.Kind == "concurrent" && strings.HasPrefix(crash.CrashSig(), "watchdog") {
			c.Inconclusive("the concurrent JWS workload did not finish within its 15-minute watchdog")
			return "", "", false
		}
		if crash != nil {
			c.Violation("C09 JWS code crashed the process: "+crash.CrashSig(), map[string]interface{}{"case": cs, "stderr": crash.Detail})
			return "", "", false
		}
		i := strings.IndexByte(string(reply), ':')
		st, msg := string(reply[:i]), string(reply[i+1:])
		if st == "PANIC" {
			c.Violation("C09 JWS code panicked: "+msg, map[string]interface{}{"case": cs})
			return st, msg, false
		}
		return st, msg, true
	}
	mustAccept := func(what string, cs jwsCase) bool {
		c.Eval()
		st, msg, ok := call(cs)
		if ok && st != "OK" {
			c.Violation("C09 genuine JWS rejected ("+what+"): "+msg, map[string]interface{}{"case": cs})
			return false
		}
		if ok {
			c.Count("accepted:" + what)
		}
		return ok
	}
	mustReject := func(what string, cs jwsCase) bool {
		c.Eval()
		st, _, ok := call(cs)
		if ok && st == "OK" {
			c.Violation("C09 verification accepted what the key did not sign ("+what+")", map[string]interface{}{"case": cs})
			return false
		}
		if ok {
			c.Count("rejected:" + what)
			c.Distinct(cs.JWS + "|" + cs.JWK["x"] + cs.JWK["y"] + cs.Sig)
		}
		return ok
	}
	rng := c.Rng("keys")
	// key universe: 3 keys per type
	var universe []*ref.Key
	for _, t := range ref.KeyTypes {
		for k := 0; k < 3; k++ {
			universe = append(universe, ref.NewKey(t, fmt.Sprintf("%s#%d", t, k), rng.Bytes(32)))
		}
	}
	type genuine struct {
		key     *ref.Key
		jws     string
		by      string
		header  []byte
		payload []byte
	}
	var gens []genuine
	payloads := [][]byte{[]byte(`{"a":1}`), []byte(strings.Repeat("payload-€-", 12)), rng.Bytes(90)}
	if c.Thorough() {
		payloads = append(payloads, rng.Bytes(1), rng.Bytes(700))
	}
	for ti, t := range ref.KeyTypes {
		k := universe[ti*3]
		for hi, kid := range []string{"", "key-1", "did:example:123?service=keys&relativeRef=%2Fupdate#<key>"} {
			for pi, pl := range payloads {
				if hi == 2 && pi > 0 {
					continue // the key id with characters JSON encoders escape differently: one payload is enough
				}
				hdr := k.Header(kid)
				if hi < 2 {
					// (the independent signer is not used for the third key id: the library rebuilds the signing input from the parsed
					// header with its own serializer, which writes & < > as escapes; the statement fixes the serialization to the
					// one of the library's signing utilities, so only library-signed JWS are in scope for such a key id)
					j := ref.CompactJWS(k, hdr, pl)
					gens = append(gens, genuine{k, j, "ref", ref.MustJCS(hdr), pl})
				}
				if (hi+pi)%2 == 0 {
					lj, err := verifhooks.SignPayload(pl, libSigner(k, kid))
					if err != nil {
						c.Violation("C09 library SignPayload failed for "+t+": "+err.Error(), nil)
						continue
					}
					h, _, _ := ref.SplitJWS(lj)
					hb, _ := ref.UnB64(h)
					gens = append(gens, genuine{k, lj, "library", hb, pl})
				}
				if pi == 0 {
					// further header sets signed by the library's own utilities: explicit b64 true / false (RFC 7797 header)
					for _, b64 := range []bool{true, false} {
						lj, err := verifhooks.SignPayload(pl, &extraHeaderSigner{libSigner(k, kid), map[string]interface{}{"b64": b64}})
						if err != nil {
							c.Violation(fmt.Sprintf("C09 library SignPayload failed for %s with header b64=%v: %v", t, b64, err), nil)
							continue
						}
						h, _, _ := ref.SplitJWS(lj)
						hb, _ := ref.UnB64(h)
						gens = append(gens, genuine{k, lj, fmt.Sprintf("library-b64-%v", b64), hb, pl})
					}
				}
			}
		}
	}
	// the library's own JWK of a public key (pubkey.GetPublicKeyJWK) is the fixed-width big-endian encoding of the
	// coordinates - also when a coordinate starts with zero bytes - and a genuine JWS verifies under it
	for _, t := range ref.KeyTypes {
		found := 0
		for n := 0; n < 4000 && found < 3; n++ {
			k := ref.NewKey(t, "lz", []byte(fmt.Sprintf("%06d-leading-zero-coordinate-search", n))[:32])
			lead := t == "Ed25519" && n < 3
			if k.Curve() != nil {
				cs := k.CoordSize()
				lead = len(k.X.Bytes()) < cs || len(k.Y.Bytes()) < cs
			}
			if !lead {
				continue
			}
			found++
			c.Eval()
			lj, err := libJWK(k)
			want := jwkStrings(k)
			if err != nil || lj.Kty != want["kty"] || lj.Crv != want["crv"] || lj.X != want["x"] || lj.Y != want["y"] {
				c.Violation(fmt.Sprintf("C09 pubkey.GetPublicKeyJWK of a %s key whose coordinate starts with a zero byte differs from the fixed-width encoding (err=%v)", t, err),
					map[string]interface{}{"library_jwk": lj, "reference_jwk": want})
				return
			}
			j := ref.CompactJWS(k, k.Header(""), []byte(`{"lz":1}`))
			if !mustAccept("genuine-under-library-jwk-leading-zero:"+t, jwsCase{Kind: "verify", JWS: j, JWK: map[string]string{"kty": lj.Kty, "crv": lj.Crv, "x": lj.X, "y": lj.Y}}) {
				return
			}
			c.Count("library_jwk_of_key_with_leading_zero_coordinate:" + t)
		}
	}
	// concurrent verification and signing in one process: genuine and altered JWS of equal length, all key types
	{
		var cases []jwsCase
		for _, t := range ref.KeyTypes {
			k := ref.NewKey(t, "cc", rng.Bytes(32))
			for n := 0; n < 3; n++ {
				pl := []byte(fmt.Sprintf(`{"n":%d,"type":"%s"}`, n, t))
				j := ref.CompactJWS(k, k.Header(""), pl)
				h, _, sg := ref.SplitJWS(j)
				alt := h + "." + ref.B64([]byte(fmt.Sprintf(`{"n":%d,"type":"%s"}`, n+5, t))) + "." + sg
				cases = append(cases, jwsCase{Kind: "verify", JWS: j, JWK: jwkStrings(k)}, jwsCase{Kind: "verify", JWS: alt, JWK: jwkStrings(k)})
			}
			// one long payload per key type: hashing it takes long enough for concurrent calls to overlap in that phase
			pad := strings.Repeat("p", 96*1024)
			long := []byte(fmt.Sprintf(`{"long":"%s","type":"%s"}`, pad, t))
			j := ref.CompactJWS(k, k.Header(""), long)
			h, _, sg := ref.SplitJWS(j)
			alt := h + "." + ref.B64([]byte(fmt.Sprintf(`{"long":"%s","type":"%s"}`, strings.Repeat("q", 96*1024), t))) + "." + sg
			cases = append(cases, jwsCase{Kind: "verify", JWS: j, JWK: jwkStrings(k)}, jwsCase{Kind: "verify", JWS: alt, JWK: jwkStrings(k)})
		}
		for round := 0; round < c.N(2, 8); round++ {
			c.Eval()
			st, msg, ok := call(jwsCase{Kind: "concurrent", Seq: cases, KeySeed: ref.B64(rng.Bytes(16))})
			if !ok {
				return
			}
			if st != "OK" {
				c.Violation("C09 concurrent callers: "+msg, map[string]interface{}{"cases": len(cases)})
				return
			}
			c.Count("concurrent_rounds")
		}
	}
	// one signer object signing twice: the first signature stays valid and unchanged
	for _, t := range ref.KeyTypes {
		for k := 0; k < 3; k++ {
			c.Eval()
			st, msg, ok := call(jwsCase{Kind: "sign-twice", KeyType: t, KeySeed: ref.B64(rng.Bytes(32)), Msg: ref.B64(rng.Bytes(20 + 10*k)), Msg2: ref.B64(rng.Bytes(33))})
			if !ok {
				return
			}
			if st != "OK" {
				c.Violation("C09 signer object used twice ("+t+"): "+msg, map[string]interface{}{"key_type": t})
				return
			}
			c.Count("signer_used_twice:" + t)
		}
	}
	// header objects changed between construction and serialization of a JWS
	for _, t := range ref.KeyTypes {
		c.Eval()
		st, msg, ok := call(jwsCase{Kind: "newjws-alias", KeyType: t, KeySeed: ref.B64(rng.Bytes(32)), Msg: ref.B64(rng.Bytes(40))})
		if !ok {
			return
		}
		if st != "OK" {
			c.Violation("C09 ("+t+") "+msg, map[string]interface{}{"key_type": t})
			return
		}
		c.Count("header_object_changed_after_construction:" + t)
	}
	c.Sample(2, map[string]interface{}{"genuine_jws": gens[0].jws, "jwk": jwkStrings(gens[0].key)})
	hx.Parallel(len(gens), 16, func(gi int) {
		g := gens[gi]
		jwk := jwkStrings(g.key)
		kt := g.key.Type
		if !mustAccept("genuine:"+g.by+":"+kt, jwsCase{Kind: "verify", JWS: g.jws, JWK: jwk}) {
			return
		}
		h, p, s := ref.SplitJWS(g.jws)
		sig, _ := ref.UnB64(s)
		// ---- header alterations
		for i := range g.header {
			for _, pat := range []byte{0x01, 0x20} {
				alt := append([]byte{}, g.header...)
				alt[i] ^= pat
				var m map[string]interface{}
				if err := json.Unmarshal(alt, &m); err == nil {
					if re, err2 := json.Marshal(m); err2 == nil && string(re) == string(g.header) {
						c.Count("header_edit_not_changing_value")
						continue
					}
				}
				if !mustReject("header-byte:"+kt, jwsCase{Kind: "verify", JWS: ref.B64(alt) + "." + p + "." + s, JWK: jwk}) {
					return
				}
			}
		}
		// header member added / removed / reordered value
		// members with null values added to the genuine header: the decoded header differs from what was signed
		var withNull []map[string]interface{}
		for _, extra := range []string{"typ", "crit", "cty", "x5c", "zzz"} {
			var base map[string]interface{}
			if json.Unmarshal(g.header, &base) == nil {
				if _, has := base[extra]; !has {
					base[extra] = nil
					withNull = append(withNull, base)
				}
			}
		}
		for _, hv := range append(withNull, []map[string]interface{}{{"alg": g.key.Alg(), "kid": "other"}, {"alg": g.key.Alg(), "typ": "JWT"}, {"alg": "none"}, {"alg": g.key.Alg() + "x"}, {"kid": "key-1"}, {}}...) {
			hb := ref.MustJCS(hv)
			if string(hb) == string(g.header) {
				continue
			}
			if !mustReject("header-member:"+kt, jwsCase{Kind: "verify", JWS: ref.B64(hb) + "." + p + "." + s, JWK: jwk}) {
				return
			}
		}
		// a member name repeated in the protected header: the header that arrives is not the header that was signed, whichever
		// occurrence a lenient decoder would keep (first, last, equal value)
		if len(g.header) > 2 && g.header[0] == '{' {
			body := string(g.header[1 : len(g.header)-1])
			for _, dup := range []string{
				`{"alg":"none",` + body + `}`, `{"kid":"somebody-else",` + body + `}`, `{"alg":"` + g.key.Alg() + `",` + body + `}`,
				`{` + body + `,"alg":"none"}`, `{` + body + `,"alg":"` + g.key.Alg() + `"}`, `{"b64":false,` + body + `}`, `{` + body + `,` + body + `}`} {
				if !mustReject("header-repeated-member:"+kt, jwsCase{Kind: "verify", JWS: ref.B64([]byte(dup)) + "." + p + "." + s, JWK: jwk}) {
					return
				}
			}
		}
		// ---- detached payload option: the caller supplies the payload; whatever the payload segment holds, only the payload
		// the key signed verifies
		other := append([]byte{}, g.payload...)
		other[len(other)/2] ^= 0x01
		if g.by != "library-b64-false" {
			if !mustAccept("detached:"+kt, jwsCase{Kind: "verify-detached", JWS: h + ".." + s, JWK: jwk, Msg: ref.B64(g.payload)}) {
				return
			}
			for _, compact := range []string{h + ".." + s, h + "." + p + "." + s, h + "." + ref.B64(other) + "." + s} {
				if !mustReject("detached-other-payload:"+kt, jwsCase{Kind: "verify-detached", JWS: compact, JWK: jwk, Msg: ref.B64(other)}) {
					return
				}
			}
		}
		// ---- payload alterations
		stride := 1
		if len(g.payload) > 200 && !c.Thorough() {
			stride = 5
		}
		for i := 0; i < len(g.payload); i += stride {
			for _, pat := range []byte{0x01, 0x80} {
				alt := append([]byte{}, g.payload...)
				alt[i] ^= pat
				if !mustReject("payload-byte:"+kt, jwsCase{Kind: "verify", JWS: h + "." + ref.B64(alt) + "." + s, JWK: jwk}) {
					return
				}
			}
		}
		for _, alt := range [][]byte{append(append([]byte{}, g.payload...), 0), g.payload[:len(g.payload)-1], append([]byte{' '}, g.payload...), {}} {
			if len(alt) == len(g.payload) {
				continue
			}
			if !mustReject("payload-length:"+kt, jwsCase{Kind: "verify", JWS: h + "." + ref.B64(alt) + "." + s, JWK: jwk}) {
				return
			}
		}
		// ---- signature alterations
		for i := range sig {
			for _, pat := range []byte{0x01, 0x40} {
				alt := append([]byte{}, sig...)
				alt[i] ^= pat
				if !mustReject("signature-byte:"+kt, jwsCase{Kind: "verify", JWS: h + "." + p + "." + ref.B64(alt), JWK: jwk}) {
					return
				}
			}
		}
		half := len(sig) / 2
		alts := map[string][]byte{
			"empty": {}, "truncated-1": sig[:len(sig)-1], "truncated-half": sig[:half], "extended-1": append(append([]byte{}, sig...), 0),
			"extended-zero-prefix": append([]byte{0}, sig...), "extended-copy": append(append([]byte{}, sig...), sig...),
			"swapped-halves": append(append([]byte{}, sig[half:]...), sig[:half]...),
			"zero-r":         append(make([]byte, half), sig[half:]...), "zero-s": append(append([]byte{}, sig[:half]...), make([]byte, half)...),
			"all-zero": make([]byte, len(sig)), "all-ff": []byte(strings.Repeat("\xff", len(sig))),
		}
		for name, alt := range alts {
			if !mustReject("signature-"+name+":"+kt, jwsCase{Kind: "verify", JWS: h + "." + p + "." + ref.B64(alt), JWK: jwk}) {
				return
			}
		}
		if g.key.Curve() != nil {
			// r+n, s+n (when they still fit) and the twin
			n := g.key.Order()
			r, sv := new(big.Int).SetBytes(sig[:half]), new(big.Int).SetBytes(sig[half:])
			twin := append(append([]byte{}, sig[:half]...), fixedBytes(new(big.Int).Sub(n, sv), half)...)
			c.Eval()
			st, _, ok := call(jwsCase{Kind: "verify", JWS: h + "." + p + "." + ref.B64(twin), JWK: jwk})
			if !ok {
				return
			}
			c.Count("ecdsa_twin_" + st + ":" + kt)
			for name, v := range map[string][2]*big.Int{"r-plus-n": {new(big.Int).Add(r, n), sv}, "s-plus-n": {r, new(big.Int).Add(sv, n)}} {
				if len(v[0].Bytes()) > half || len(v[1].Bytes()) > half {
					continue
				}
				alt := append(fixedBytes(v[0], half), fixedBytes(v[1], half)...)
				if !mustReject("signature-"+name+":"+kt, jwsCase{Kind: "verify", JWS: h + "." + p + "." + ref.B64(alt), JWK: jwk}) {
					return
				}
			}
		}
		// direct VerifySignature on the same material
		signingInput := h + "." + p
		if g.by == "library-b64-false" {
			signingInput = h + "." + string(g.payload) // RFC 7797: the payload enters the signing input unencoded
		}
		if !mustAccept("verifysig:"+kt, jwsCase{Kind: "verifysig", JWK: jwk, Sig: s, Msg: ref.B64([]byte(signingInput))}) {
			return
		}
		if !mustReject("verifysig-other-message:"+kt, jwsCase{Kind: "verifysig", JWK: jwk, Sig: s, Msg: ref.B64([]byte(signingInput + "x"))}) {
			return
		}
		// ---- JWKs whose members are the genuine ones with a moved boundary (same characters, other split), verified in
		// the same process right after / right before the genuine JWK (nothing may be remembered between verifications)
		if g.by == "ref" && len(g.payload) < 40 {
			var resplit []map[string]string
			x, y := jwk["x"], jwk["y"]
			if y != "" {
				resplit = append(resplit, map[string]string{"kty": jwk["kty"], "crv": jwk["crv"], "x": x + y[:1], "y": y[1:]},
					map[string]string{"kty": jwk["kty"], "crv": jwk["crv"], "x": x[:len(x)-1], "y": x[len(x)-1:] + y})
			} else {
				resplit = append(resplit, map[string]string{"kty": jwk["kty"], "crv": jwk["crv"], "x": x[:40], "y": x[40:]},
					map[string]string{"kty": jwk["kty"], "crv": jwk["crv"] + x[:1], "x": x[1:]},
					map[string]string{"kty": jwk["kty"] + jwk["crv"][:1], "crv": jwk["crv"][1:], "x": x})
			}
			gen := jwsCase{Kind: "verify", JWS: g.jws, JWK: jwk}
			for ri, rj := range resplit {
				bad := jwsCase{Kind: "verify", JWS: g.jws, JWK: rj}
				for _, plan := range []struct {
					seq  []jwsCase
					want string
				}{{[]jwsCase{gen, bad, gen}, "OK,ERR,OK"}, {[]jwsCase{bad, gen, bad}, "ERR,OK,ERR"}} {
					c.Eval()
					st, msg, ok := call(jwsCase{Kind: "seq", Seq: plan.seq})
					if !ok {
						return
					}
					if st != "OK" || msg != plan.want {
						c.Violation(fmt.Sprintf("C09 a sequence of verifications in one process gave %s, expected %s (genuine JWK / JWK with the same characters split differently, variant %d, %s)", msg, plan.want, ri, kt),
							map[string]interface{}{"sequence": plan.seq, "outcomes": msg})
						return
					}
					c.Count("resplit_jwk_sequences")
					c.Distinct(fmt.Sprintf("seq|%s|%d|%s", kt, ri, plan.want))
				}
			}
		}
		// ---- every other key
		for _, o := range universe {
			if o == g.key {
				continue
			}
			if !mustReject("foreign-key:"+kt+"-under-"+o.Type, jwsCase{Kind: "verify", JWS: g.jws, JWK: jwkStrings(o)}) {
				return
			}
		}
		// ---- malformed JWKs with a genuine signature
		bad := func(name string, f func(m map[string]string)) bool {
			m := cloneJWK(jwk)
			f(m)
			return mustReject("jwk-"+name+":"+kt, jwsCase{Kind: "verify", JWS: g.jws, JWK: m})
		}
		pad := func(v string) string { b, _ := ref.UnB64(v); return ref.B64(append([]byte{0}, b...)) }
		cut := func(v string) string { b, _ := ref.UnB64(v); return ref.B64(b[1:]) }
		okAll := bad("missing-kty", func(m map[string]string) { delete(m, "kty") }) &&
			bad("unknown-kty", func(m map[string]string) { m["kty"] = "RSA" }) &&
			bad("swapped-kty", func(m map[string]string) {
				if m["kty"] == "EC" {
					m["kty"] = "OKP"
				} else {
					m["kty"] = "EC"
				}
			}) &&
			bad("missing-crv", func(m map[string]string) { delete(m, "crv") }) &&
			bad("unknown-crv", func(m map[string]string) { m["crv"] = "P-999" }) &&
			bad("other-crv", func(m map[string]string) {
				if m["crv"] == "P-256" {
					m["crv"] = "secp256k1"
				} else {
					m["crv"] = "P-256"
				}
			}) &&
			bad("missing-x", func(m map[string]string) { delete(m, "x") }) &&
			bad("x-plus-one-byte", func(m map[string]string) { m["x"] = pad(m["x"]) }) &&
			bad("x-minus-one-byte", func(m map[string]string) { m["x"] = cut(m["x"]) }) &&
			bad("x-not-base64", func(m map[string]string) { m["x"] = "!" + m["x"] }) &&
			bad("x-bit-flipped", func(m map[string]string) { b, _ := ref.UnB64(m["x"]); b[len(b)/2] ^= 1; m["x"] = ref.B64(b) })
		if !okAll {
			return
		}
		if g.key.Curve() != nil {
			okAll = bad("missing-y", func(m map[string]string) { delete(m, "y") }) &&
				bad("y-plus-one-byte", func(m map[string]string) { m["y"] = pad(m["y"]) }) &&
				bad("y-minus-one-byte", func(m map[string]string) { m["y"] = cut(m["y"]) }) &&
				bad("y-plus-seven-bytes", func(m map[string]string) { b, _ := ref.UnB64(m["y"]); m["y"] = ref.B64(append(make([]byte, 7), b...)) }) &&
				bad("off-curve-y", func(m map[string]string) { b, _ := ref.UnB64(m["y"]); b[len(b)-1] ^= 1; m["y"] = ref.B64(b) }) &&
				bad("x-y-swapped", func(m map[string]string) { m["x"], m["y"] = m["y"], m["x"] }) &&
				bad("zero-point", func(m map[string]string) {
					b, _ := ref.UnB64(m["x"])
					z := ref.B64(make([]byte, len(b)))
					m["x"], m["y"] = z, z
				})
			if !okAll {
				return
			}
		}
		// case variants of the curve name are not among the supported names: unknown curve -> error
		for _, variant := range []string{strings.ToUpper(jwk["crv"]), strings.ToLower(jwk["crv"]), strings.Title(strings.ToLower(jwk["crv"])), strings.Replace(jwk["crv"], "k1", "K1", 1), " " + jwk["crv"], jwk["crv"] + " "} {
			if variant == jwk["crv"] {
				continue
			}
			v := variant
			if !bad("crv-spelling-variant", func(m map[string]string) { m["crv"] = v }) {
				return
			}
		}
		// ---- headers the statement lists: missing alg, non-boolean b64 (genuinely signed with such a header)
		for name, hv := range map[string]map[string]interface{}{
			"header-missing-alg":   {"kid": "k"},
			"header-empty-object":  {},
			"header-b64-string":    {"alg": g.key.Alg(), "b64": "false"},
			"header-b64-number":    {"alg": g.key.Alg(), "b64": float64(0)},
			"header-b64-null":      {"alg": g.key.Alg(), "b64": nil},
			"header-not-an-object": nil,
		} {
			var hb []byte
			if hv == nil {
				hb = []byte(`["alg"]`)
			} else {
				hb = ref.MustJCS(hv)
			}
			input := ref.B64(hb) + "." + p
			forged := input + "." + ref.B64(g.key.Sign([]byte(input)))
			if !mustReject(name+":"+kt, jwsCase{Kind: "verify", JWS: forged, JWK: jwk}) {
				return
			}
		}
		// structural damage of the compact form
		for name, js := range map[string]string{"two-parts": h + "." + p, "four-parts": g.jws + "." + s, "empty": "", "dots": "..", "empty-payload": h + ".." + s,
			"empty-signature": h + "." + p + ".", "json-serialization": `{"payload":"` + p + `"}`, "header-not-base64": "*" + h + "." + p + "." + s,
			"payload-not-base64": h + ".*" + p + "." + s, "signature-not-base64": h + "." + p + ".*" + s, "padded": h + "=." + p + "." + s} {
			if !mustReject("compact-"+name+":"+kt, jwsCase{Kind: "verify", JWS: js, JWK: jwk}) {
				return
			}
		}
	})
	// ---- structured-random compact strings
	nRand := c.N(60000, 1500000)
	rs := c.Rng("random")
	seeds := make([]uint64, 1+nRand/500)
	for i := range seeds {
		seeds[i] = rs.U64()
	}
	hx.Parallel(len(seeds), 16, func(bi int) {
		r := hx.NewRng(seeds[bi], "rand")
		for k := 0; k < 500; k++ {
			g := hx.Pick(r, gens)
			h, p, s := ref.SplitJWS(g.jws)
			part := func(orig string) string {
				switch r.Intn(6) {
				case 0:
					return orig
				case 1:
					return ref.B64(r.Bytes(r.Intn(80)))
				case 2:
					return orig[:r.Intn(len(orig)+1)]
				case 3:
					return ref.B64([]byte(hx.Pick(r, []string{`{}`, `{"alg":null}`, `{"alg":5}`, `{"alg":"ES256","b64":false}`, `null`, `[]`, `"x"`, `{"alg":"ES256"`, `{"alg":"EdDSA","crit":["b64"],"b64":true}`, "\xff\xfe", `{"alg":"ES256","alg":"ES384"}`, `{"ALG":"ES256"}`})))
				case 4:
					b := []byte(orig)
					if len(b) > 0 {
						b[r.Intn(len(b))] = byte(r.U64())
					}
					return string(b)
				}
				return strings.Repeat(hx.Pick(r, []string{"A", ".", "-", "_", "=", " "}), r.Intn(5))
			}
			js := part(h) + "." + part(p) + "." + part(s)
			if r.Chance(1, 10) {
				js = string(r.Bytes(r.Intn(60)))
			}
			jwk := jwkStrings(hx.Pick(r, universe))
			if r.Chance(1, 4) {
				delete(jwk, hx.Pick(r, []string{"kty", "crv", "x", "y"}))
			}
			if r.Chance(1, 3) {
				// arbitrary JWK member values: random coordinates of random length, foreign kty/crv combinations, garbage
				for _, m := range []string{"x", "y"} {
					if r.Bool() {
						jwk[m] = hx.Pick(r, []string{ref.B64(r.Bytes(r.Intn(70))), "", "AA", "!!!", ref.B64(make([]byte, 32)), ref.B64(r.Bytes(32)), ref.B64(r.Bytes(66)), strings.Repeat("_", 43)})
					}
				}
				if r.Bool() {
					jwk["kty"] = hx.Pick(r, []string{"EC", "OKP", "RSA", "oct", "", "ec", "okp"})
				}
				if r.Bool() {
					jwk["crv"] = hx.Pick(r, []string{"P-256", "P-384", "P-521", "secp256k1", "Ed25519", "X25519", "Ed448", "P-224", "", "p-256"})
				}
				if r.Chance(1, 2) {
					js = g.jws // a genuine JWS under an arbitrary JWK must not verify unless the JWK is the genuine key
					if sameJWK(jwk, jwkStrings(g.key)) {
						continue
					}
				}
			}
			if (js == g.jws || sameDecodedJWS(js, g.jws)) && sameJWK(jwk, jwkStrings(g.key)) {
				continue // textual variants that decode to the same header, payload and signature are not alterations
			}
			c.Eval()
			kind := hx.Pick(r, []string{"verify", "verify", "parse"})
			cs := jwsCase{Kind: kind, JWS: js, JWK: jwk}
			st, _, ok := call(cs)
			if !ok {
				return
			}
			if kind == "verify" && st == "OK" {
				c.Violation("C09 a structured-random compact string verified", map[string]interface{}{"case": cs})
				return
			}
			// a random string can only verify if it equals a genuine JWS for that key up to header whitespace; treat OK on verify as violation
			c.Count("random_" + st)
		}
	})
	c.Set("worker_crashes", pool.Crashes)
	for _, t := range ref.KeyTypes {
		c.Floor("accepted:genuine:ref:"+t, 4)
		c.Floor("signer_used_twice:"+t, 3)
		c.Floor("library_jwk_of_key_with_leading_zero_coordinate:"+t, 1)
		c.Floor("accepted:genuine:library:"+t, 2)
		c.Floor("rejected:header-byte:"+t, 50)
		c.Floor("rejected:payload-byte:"+t, 50)
		c.Floor("rejected:signature-byte:"+t, 100)
	}
	c.Floor("random_ERR", 10000)
	c.Floor("resplit_jwk_sequences", 20)
	c.Floor("concurrent_rounds", 2)
}

func fixedBytes(b *big.Int, size int) []byte {
	out := make([]byte, size)
	bb := b.Bytes()
	copy(out[size-len(bb):], bb)
	return out
}

// sameDecodedJWS reports whether two compact strings decode (lenient base64url, as the library decodes) to the same three segments.
func sameDecodedJWS(a, b string) bool {
	pa, pb := strings.Split(a, "."), strings.Split(b, ".")
	if len(pa) != 3 || len(pb) != 3 {
		return false
	}
	for i := 0; i < 3; i++ {
		da, e1 := ref.UnB64(pa[i])
		db, e2 := ref.UnB64(pb[i])
		if e1 != nil || e2 != nil || string(da) != string(db) {
			return false
		}
	}
	return true
}

func sameJWK(a, b map[string]string) bool {
	for _, m := range []string{"kty", "crv", "x", "y"} {
		da, e1 := ref.UnB64(a[m])
		db, e2 := ref.UnB64(b[m])
		if m == "kty" || m == "crv" {
			if a[m] != b[m] {
				return false
			}
			continue
		}
		if m == "y" && b["kty"] == "OKP" {
			continue // an OKP key has no y coordinate; a stray y member does not make it another key
		}
		if e1 != nil || e2 != nil || string(da) != string(db) {
			return false
		}
	}
	return true
}

// extraHeaderSigner adds protected header members to a library signer.
type extraHeaderSigner struct {
	inner interface {
		Sign(data []byte) ([]byte, error)
		Headers() jws.Headers
	}
	extra map[string]interface{}
}

func (s *extraHeaderSigner) Sign(data []byte) ([]byte, error) { return s.inner.Sign(data) }
func (s *extraHeaderSigner) Headers() jws.Headers {
	h := jws.Headers{}
	for k, v := range s.inner.Headers() {
		h[k] = v
	}
	for k, v := range s.extra {
		h[k] = v
	}
	return h
}

// storedHeaderSigner hands out one stored header object on every call (a signer is free to do that).
type storedHeaderSigner struct {
	inner client.Signer
	h     jws.Headers
}

func (s *storedHeaderSigner) Sign(data []byte) ([]byte, error) { return s.inner.Sign(data) }
func (s *storedHeaderSigner) Headers() jws.Headers             { return s.h }

func libSignerNoHeaders(k *ref.Key) client.Signer {
	if k.Type == "Ed25519" {
		return edsigner.New(k.EdPrivate(), "", "")
	}
	return ecsigner.New(k.ECDSAPrivate(), "", "")
}
