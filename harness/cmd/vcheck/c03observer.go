package main

import (
	"fmt"
	"time"

	"github.com/trustbloc/sidetree-core-go/pkg/api/operation"
	"github.com/trustbloc/sidetree-core-go/pkg/api/txn"
	"github.com/trustbloc/sidetree-core-go/pkg/observer"
	"github.com/trustbloc/sidetree-core-go/pkg/processor"
	"github.com/trustbloc/sidetree-core-go/pkg/versions/1_0/txnprovider"

	"verifharness/hx"
	"verifharness/ref"
)

// c03ThroughObserver: histories that span a protocol upgrade reach the operation store through the REAL observer: batch files
// written by the operation handler of the version in force, transactions delivered by the ledger in notifications of one or
// several transactions (a node that catches up gets many blocks at once, old and new versions mixed). The second version admits
// a patch action and a hash algorithm the first one does not, so an operation that is legal under its own version is illegal
// under the other. After every notification the DID resolves to the reference state.
func c03ThroughObserver(c *hx.Ctx) {
	n := c.N(60, 1000)
	root := c.Rng("observer")
	seeds := make([]uint64, n)
	for i := range seeds {
		seeds[i] = root.U64()
	}
	hx.Parallel(n, 16, func(i int) {
		if c.Violations() > 8 {
			return
		}
		r := hx.NewRng(seeds[i], "c03o")
		p0 := hx.BaseProtocol()
		p0.MaxDeltaSize, p0.MaxOperationSize = 9000, 20000
		p0.Patches = without(without(hx.AllPatches, "add-also-known-as"), "remove-also-known-as")
		p1 := p0
		p1.GenesisTime = 100
		p1.Patches = append([]string{}, hx.AllPatches...)
		cas, store := hx.NewMemCAS(), hx.NewOpStore()
		v0 := hx.NewVersion(p0, hx.VersionOpts{CAS: cas, Store: store})
		v1 := hx.NewVersion(p1, hx.VersionOpts{CAS: cas, Store: store})
		pc := hx.NewClient(v0, v1)
		// every second node holds no batch file itself: the transactions name two other nodes, the first one unreachable
		var altSources []string
		if i%2 == 1 {
			altSources = []string{"unreachable-node", "remote"}
			format := []txnprovider.Opt{txnprovider.WithSourceCASURIFormatter(func(uri, source string) (string, error) { return source + "|" + uri, nil })}
			r0 := hx.NewVersion(p0, hx.VersionOpts{CAS: &remoteOnlyCAS{remote: cas}, Store: store, ProviderOpts: format})
			r1 := hx.NewVersion(p1, hx.VersionOpts{CAS: &remoteOnlyCAS{remote: cas}, Store: store, ProviderOpts: format})
			pc = hx.NewClient(r0, r1)
			c.Count("observer_nodes_reading_from_alternate_sources")
		}
		d, cr, err := NewCDid(r.Split("did"), ref.SHA256, []string{hx.Pick(r, ref.KeyTypes), "P-256"}, int64(p0.MaxOperationTimeDelta), false,
			[]interface{}{patchAddServices(svcEntry("s0", "web", "https://example.com/s0"))}, nil, nil, "")
		if err != nil {
			c.Violation("C03 client.NewCreateRequest refused valid inputs: "+err.Error(), nil)
			return
		}
		d.Suffix = suffixOf(cr.Req, ref.SHA256)
		// the chain: create and 0-2 updates under version 0, then 1-3 operations under version 100 that use what only it admits
		type step struct {
			b   *BuiltOp
			ver uint64
		}
		steps := []step{{cr, 0}}
		for k := 0; k < r.Intn(3); k++ {
			b, err := d.Update([]interface{}{patchAddServices(svcEntry(fmt.Sprint("old", k), "web", "https://example.com/old"))}, 0, 0)
			if err != nil {
				return
			}
			steps = append(steps, step{b, 0})
		}
		for k := 0; k < 1+r.Intn(3); k++ {
			aka := map[string]interface{}{"action": "add-also-known-as", "uris": []interface{}{fmt.Sprintf("https://alias.example/%d", k)}}
			var b *BuiltOp
			if r.Chance(1, 4) {
				b, err = d.Recover([]interface{}{aka}, nil, nil, 0, 0)
			} else {
				b, err = d.Update([]interface{}{aka}, 0, 0)
			}
			if err != nil {
				return
			}
			steps = append(steps, step{b, 100})
		}
		var txns []txn.SidetreeTxn
		var H []*ref.Op
		for k, s := range steps {
			v := v0
			t := uint64(50 + 10*k)
			if s.ver == 100 {
				v, t = v1, uint64(100+10*k)
			}
			info, err := v.Handler.PrepareTxnFiles([]*operation.QueuedOperation{{Type: operation.Type(s.b.Desc.Type), OperationRequest: s.b.Req, UniqueSuffix: d.Suffix, Namespace: hx.Namespace}})
			if err != nil {
				c.Violation(fmt.Sprintf("C03 the operation handler of version %d refused a client-built %s that is valid under that version: %v", s.ver, s.b.Desc.Type, err), nil)
				return
			}
			txns = append(txns, txn.SidetreeTxn{Namespace: hx.Namespace, AnchorString: info.AnchorString, TransactionTime: t, TransactionNumber: uint64(k % 3),
				ProtocolVersion: s.ver, CanonicalReference: fmt.Sprintf("ref%d", k), AlternateSources: altSources})
			H = append(H, Place(s.b.Desc, t, uint64(k%3), fmt.Sprintf("ref%d", k), s.ver))
		}
		// notifications: everything at once / one per transaction / cut at a PRNG-chosen point
		var cuts []int
		switch i % 3 {
		case 0:
			cuts = []int{len(txns)}
		case 1:
			for k := 1; k <= len(txns); k++ {
				cuts = append(cuts, k)
			}
		default:
			cuts = []int{1 + r.Intn(len(txns)), len(txns)}
		}
		ledger := &chanLedger{ch: make(chan []txn.SidetreeTxn)}
		obs := observer.New(&observer.Providers{Ledger: ledger, ProtocolClientProvider: &hx.ClientProvider{C: pc}})
		obs.Start()
		defer obs.Stop()
		c.Eval()
		start := 0
		for _, end := range cuts {
			if end <= start {
				continue
			}
			done := make(chan struct{})
			go func(batch []txn.SidetreeTxn) {
				ledger.ch <- batch
				ledger.ch <- nil // returns only after the notification before it has been processed
				close(done)
			}(append([]txn.SidetreeTxn{}, txns[start:end]...))
			select {
			case <-done:
			case <-time.After(3 * time.Minute):
				c.Inconclusive("observer did not finish a notification of %d transactions within 3 minutes", end-start)
				return
			}
			st, merr := ref.Resolve(H[:end], ref.ResolveOpts{})
			rm, err := processor.New("verif", store, pc).Resolve(d.Suffix)
			if want, got := stKey(st, merr), rmKey(rm, err); want != got {
				var vers []uint64
				for _, t := range txns[start:end] {
					vers = append(vers, t.ProtocolVersion)
				}
				c.Violation(fmt.Sprintf("C03 history delivered through the observer (notification with transactions %d..%d, protocol versions %v) does not resolve to the reference state: %s\n   model:   %s\n   library: %s",
					start+1, end, vers, histString(H[:end]), want, got), map[string]interface{}{"history": replayOps(H[:end]), "notification_cuts": cuts, "model": want, "library": got})
				return
			}
			if end-start > 1 {
				mixed := false
				for _, t := range txns[start:end] {
					mixed = mixed || t.ProtocolVersion != txns[start].ProtocolVersion
				}
				if mixed {
					c.Count("notifications_mixing_protocol_versions")
				}
			}
			start = end
		}
		c.Count("histories_through_the_observer")
		c.Distinct(fmt.Sprintf("c03obs|%v|%v", labelsOf(H), cuts))
	})
}
