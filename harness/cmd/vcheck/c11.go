package main

import (
	"encoding/json"
	"fmt"
	"time"

	"github.com/trustbloc/sidetree-core-go/pkg/api/operation"
	"github.com/trustbloc/sidetree-core-go/pkg/api/protocol"
	"github.com/trustbloc/sidetree-core-go/pkg/api/txn"
	"github.com/trustbloc/sidetree-core-go/pkg/observer"
	"github.com/trustbloc/sidetree-core-go/pkg/processor"

	"verifharness/hx"
	"verifharness/ref"
)

func init() { register("C11", "exploration", checkC11) }

func jsonEq(a, b interface{}) bool {
	ja, e1 := ref.JCS(roundTrip(a))
	jb, e2 := ref.JCS(roundTrip(b))
	return e1 == nil && e2 == nil && ja == jb
}

func roundTrip(v interface{}) interface{} {
	b, err := json.Marshal(v)
	if err != nil {
		return fmt.Sprintf("marshal error %v", err)
	}
	var out interface{}
	_ = json.Unmarshal(b, &out)
	return out
}

// suffixOf computes the DID suffix from a create request with ref.
func suffixOf(req []byte, code uint64) string {
	var m map[string]interface{}
	_ = json.Unmarshal(req, &m)
	return ref.HashModel(code, m["suffixData"])
}

func checkC11(c *hx.Ctx) {
	c.Rule("chains of 3-6 requests produced by the client builders (create from patches or opaque document, update, recover from patches or opaque document, deactivate) with generated documents, patch lists, anchor origins of several JSON shapes, windows, nonces, kid headers, over the five key types/signature algorithms and both hash algorithms; oracle 1: the real parser (protocol enabling the algorithm) accepts each request and parses back exactly the supplied suffix, commitments, patches, reveal value, window, anchor origin; oracle 2: anchored in window in order, the real processor resolves to the state the reference model predicts from the builder inputs after every prefix; oracle 3: two chains anchored round by round through the REAL OperationHandler, CAS files, OperationProvider and TxnProcessor (round k = k-th request of both DIDs in one batch, creates with and without suffix-data type; every third pair of chains reaches the node through the REAL observer, each batch in one ledger notification behind an unreadable transaction) resolve to the predicted states after every round; non-trivial = chain with >=3 applied operations; distinct = key types x hash x chain shape")
	nCases := c.N(1500, 20000)
	root := c.Rng("cases")
	seeds := make([]uint64, nCases)
	for i := range seeds {
		seeds[i] = root.U64()
	}
	hx.Parallel(nCases, 16, func(i int) {
		r := hx.NewRng(seeds[i], "c11")
		code := uint64(ref.SHA256)
		p := hx.BaseProtocol()
		p.MaxDeltaSize, p.MaxOperationSize = 6000, 12000
		if i%2 == 1 {
			code = ref.SHA512
			p.MultihashAlgorithms = []uint{ref.SHA512}
		}
		if i%6 >= 4 {
			// a version that enables both algorithms, the controller's one second: suffixes are computed with the first, everything
			// the controller hashes (commitments, reveal values, delta hashes) with its own
			other := uint(ref.SHA512)
			if code == ref.SHA512 {
				other = ref.SHA256
			}
			p.MultihashAlgorithms = []uint{other, uint(code)}
			c.Count("chains_hashed_with_the_second_enabled_algorithm")
		}
		sfxCode := uint64(p.MultihashAlgorithms[0])
		types := []string{ref.KeyTypes[i%5]}
		if i%3 == 0 {
			types = ref.KeyTypes
		}
		shortDelta := i%4 == 2
		if shortDelta {
			// the protocol's time delta is only the DEFAULT length of a window: explicit windows may be far longer
			p.MaxOperationTimeDelta = 7
			c.Count("chains_with_windows_longer_than_the_time_delta")
		}
		v := hx.NewVersion(p, hx.VersionOpts{})
		pc := hx.NewClient(v)
		maxDelta := int64(p.MaxOperationTimeDelta)
		ids := newIDPool(r)
		fail := func(what string, extra map[string]interface{}) {
			extra["multihash"], extra["key_types"] = code, types
			c.Violation("C11 "+what, extra)
		}
		// ----- create
		var opaque map[string]interface{}
		var patches []interface{}
		if r.Bool() {
			opaque = genDoc(r)
		} else {
			patches = genPatches(r, 3, ids)
		}
		origin := genOrigin(r)
		typ := ""
		if r.Chance(1, 4) {
			typ = "t" + fmt.Sprint(r.Intn(9))
		}
		d, cr, err := NewCDid(r.Split("did"), code, types, maxDelta, r.Bool(), patches, opaque, origin, typ)
		if err != nil {
			fail("client.NewCreateRequest refused valid inputs: "+err.Error(), map[string]interface{}{"patches": patches, "opaque": opaque})
			return
		}
		switch r.Intn(4) {
		case 0:
			d.Kid = "key-" + genID(r, "")
		case 1:
			// key ids as DID URLs / with characters JSON encoders like to escape
			d.Kid = hx.Pick(r, []string{"did:example:123?service=keys&relativeRef=%2Fupdate#key-1", "<key>", "a&b", "k>1", "quote\"k", "é\u2028"})
			c.Count("chains_with_unusual_key_ids")
		}
		if i%2 == 0 {
			d.ReuseSigners = true
			c.Count("dids_with_reused_signer_objects")
		}
		d.Suffix = suffixOf(cr.Req, sfxCode)
		built := []*BuiltOp{cr}
		nOps := 2 + r.Intn(4)
		t := uint64(1000)
		window := func() (int64, int64) {
			switch r.Intn(4) {
			case 0:
				return int64(t), int64(t) + 500
			case 1:
				if shortDelta {
					return int64(t), int64(t) + 500
				}
				return int64(t) + 5, 0
			case 2:
				return 0, int64(t) + 500
			}
			return 0, 0
		}
		for k := 0; k < nOps && !d.Deact; k++ {
			from, until := window()
			var b *BuiltOp
			var err error
			switch {
			case k == nOps-1 && r.Chance(1, 3):
				b, err = d.Deactivate(from, until)
			case r.Chance(1, 3):
				if r.Bool() {
					b, err = d.Recover(nil, genDoc(r), genOrigin(r), from, until)
				} else {
					b, err = d.Recover(genPatches(r, 3, ids), nil, genOrigin(r), from, until)
				}
			default:
				ups := genPatches(r, 3, ids)
				if r.Chance(1, 4) {
					ups = append(ups, copyThenChange(r))
					c.Count("updates_copying_a_member_and_changing_the_copy")
				}
				if r.Chance(1, 5) {
					// a replace patch in the middle of an update, after patches that put aliases and custom members into the
					// document: replace resets the document to exactly the keys and services it names
					ups = append(ups, map[string]interface{}{"action": "add-also-known-as", "uris": []interface{}{"https://alias.example/" + genID(r, "")}},
						patchJSON(map[string]interface{}{"op": "add", "path": "/note", "value": "n"}),
						patchReplace([]interface{}{genKeyEntry(r, "rk")}, []interface{}{genService(r, "rs")}))
					c.Count("updates_with_a_replace_patch_after_other_patches")
				}
				b, err = d.Update(ups, from, until)
			}
			if err != nil {
				fail("client builder refused valid inputs: "+err.Error(), map[string]interface{}{"step": k})
				return
			}
			built = append(built, b)
		}
		// ----- oracle 1: parse back
		for k, b := range built {
			c.Eval()
			op, err := v.Parser.ParseOperation(hx.Namespace, b.Req, false)
			rp := map[string]interface{}{"request": string(b.Req), "inputs": b.Inputs, "step": k}
			if err != nil {
				fail(fmt.Sprintf("parser rejected a client-built %s request: %v", b.Desc.Type, err), rp)
				return
			}
			bad := func(f string, a ...interface{}) {
				fail(fmt.Sprintf("client-built %s parses back differently: ", b.Desc.Type)+fmt.Sprintf(f, a...), rp)
			}
			if op.UniqueSuffix != d.Suffix {
				bad("suffix %s != %s", op.UniqueSuffix, d.Suffix)
				return
			}
			if string(op.Type) != b.Desc.Type || op.ID != hx.Namespace+":"+d.Suffix {
				bad("type/id %s %s", op.Type, op.ID)
				return
			}
			switch b.Desc.Type {
			case "create":
				if op.SuffixData.RecoveryCommitment != b.Inputs["recoveryCommitment"] || op.Delta.UpdateCommitment != b.Inputs["updateCommitment"] ||
					!jsonEq(op.SuffixData.AnchorOrigin, b.Inputs["anchorOrigin"]) || op.SuffixData.Type != b.Inputs["type"] {
					bad("suffix data / commitments differ")
					return
				}
				if patches != nil {
					if !jsonEq(op.Delta.Patches, patches) {
						bad("patches differ")
						return
					}
					// fully independent suffix
					delta := ref.Delta(b.Inputs["updateCommitment"].(string), patches)
					sd := map[string]interface{}{"deltaHash": ref.HashModel(code, delta), "recoveryCommitment": b.Inputs["recoveryCommitment"]}
					if origin != nil {
						sd["anchorOrigin"] = origin
					}
					if typ != "" {
						sd["type"] = typ
					}
					if want := ref.HashModel(sfxCode, sd); want != op.UniqueSuffix {
						bad("suffix %s differs from independently computed %s", op.UniqueSuffix, want)
						return
					}
				}
			case "update":
				sd, err := v.Parser.ParseSignedDataForUpdate(op.SignedData)
				if err != nil {
					bad("signed data: %v", err)
					return
				}
				if op.RevealValue != b.Inputs["revealValue"] || op.Delta.UpdateCommitment != b.Inputs["updateCommitment"] ||
					!jsonEq(op.Delta.Patches, b.Inputs["patches"]) || sd.AnchorFrom != b.Inputs["anchorFrom"] || sd.AnchorUntil != b.Inputs["anchorUntil"] ||
					!jsonEq(jwkNoEmptyY(sd.UpdateKey), jwkNoEmptyY(b.Inputs["key"])) || sd.DeltaHash != ref.HashModel(code, roundTrip(op.Delta)) {
					bad("reveal/commitment/patches/window/key differ: from=%d until=%d", sd.AnchorFrom, sd.AnchorUntil)
					return
				}
			case "recover":
				sd, err := v.Parser.ParseSignedDataForRecover(op.SignedData)
				if err != nil {
					bad("signed data: %v", err)
					return
				}
				if op.RevealValue != b.Inputs["revealValue"] || op.Delta.UpdateCommitment != b.Inputs["updateCommitment"] ||
					sd.RecoveryCommitment != b.Inputs["recoveryCommitment"] || !jsonEq(sd.AnchorOrigin, b.Inputs["anchorOrigin"]) ||
					!jsonEq(op.AnchorOrigin, b.Inputs["anchorOrigin"]) ||
					sd.AnchorFrom != b.Inputs["anchorFrom"] || sd.AnchorUntil != b.Inputs["anchorUntil"] ||
					!jsonEq(jwkNoEmptyY(sd.RecoveryKey), jwkNoEmptyY(b.Inputs["key"])) || sd.DeltaHash != ref.HashModel(code, roundTrip(op.Delta)) {
					bad("reveal/commitments/origin/window/key differ")
					return
				}
				if ps, _ := b.Inputs["patches"].([]interface{}); len(ps) > 0 && !jsonEq(op.Delta.Patches, ps) {
					bad("patches differ")
					return
				}
			case "deactivate":
				sd, err := v.Parser.ParseSignedDataForDeactivate(op.SignedData)
				if err != nil {
					bad("signed data: %v", err)
					return
				}
				if op.RevealValue != b.Inputs["revealValue"] || sd.DidSuffix != d.Suffix || sd.AnchorFrom != b.Inputs["anchorFrom"] || sd.AnchorUntil != b.Inputs["anchorUntil"] ||
					!jsonEq(jwkNoEmptyY(sd.RecoveryKey), jwkNoEmptyY(b.Inputs["key"])) {
					bad("reveal/suffix/window/key differ")
					return
				}
			}
			c.Count("parsed_back:" + b.Desc.Type)
			if kt, ok := b.Inputs["keyType"].(string); ok {
				c.Count("signed_with:" + kt)
			}
		}
		// ----- oracle 2: anchored in window, resolves as intended after every prefix. In a third of the cases a second
		// protocol version (other algorithms, other hash) takes over at time 1025: operations accepted under the first version
		// are still validated and applied under the version they were accepted under (their ProtocolVersion)
		if i%3 == 1 {
			p1 := hx.BaseProtocol()
			p1.GenesisTime = 1025
			p1.SignatureAlgorithms, p1.KeyAlgorithms = []string{"ES384"}, []string{"P-384"}
			p1.MultihashAlgorithms = []uint{ref.SHA512}
			if code == ref.SHA512 {
				p1.MultihashAlgorithms = []uint{ref.SHA256}
			}
			p1.Patches = []string{"replace"}
			p1.MaxDeltaSize, p1.MaxOperationSize = 700, 1500
			pc = hx.NewClient(hx.NewVersion(p, hx.VersionOpts{ParserOpts: hx.StrictResolution()}), hx.NewVersion(p1, hx.VersionOpts{ParserOpts: hx.StrictResolution()}))
			c.Count("chains_crossing_a_protocol_upgrade")
		} else {
			// resolution happens long after intake: a server-time / origin validator that now refuses everything must not
			// matter for operations that are already anchored
			pc = hx.NewClient(hx.NewVersion(p, hx.VersionOpts{ParserOpts: hx.StrictResolution()}))
		}
		var H []*ref.Op
		for k, b := range built {
			if i%4 == 3 && k >= 1 {
				// anyone can anchor anything for this DID: a worthless request (no usable reveal value) of the same kind of
				// operation, anchored just before the client's one, is skipped and changes nothing
				kind := b.Desc.Type
				if kind != "update" {
					kind = hx.Pick(r, []string{"recover", "deactivate"})
				}
				junk := &ref.Op{Label: fmt.Sprintf("junk-%s#%d", kind, k), Type: kind,
					Request: []byte(hx.Pick(r, []string{fmt.Sprintf(`{"type":%q,"didSuffix":%q,"revealValue":"EiAAAA","signedData":"a.b.c"}`, kind, d.Suffix), `{"type":"` + kind + `"}`, `not json`}))}
				H = append(H, Place(junk, t+uint64(10*k)-3, uint64(r.Intn(5)), fmt.Sprintf("junk%d", k), p.GenesisTime))
				c.Count("client_operations_after_a_worthless_neighbour")
			}
			H = append(H, Place(b.Desc, t+uint64(10*k), uint64(r.Intn(5)), fmt.Sprintf("ref%d", k), p.GenesisTime))
			c.Eval()
			st, merr := ref.Resolve(H, ref.ResolveOpts{})
			rm, err := SUTResolve(pc, d.Suffix, H, r.Perm(len(H)))
			want, got := stKey(st, merr), rmKey(rm, err)
			if merr != nil || len(st.Applied) == 0 || st.Applied[len(st.Applied)-1] != b.Desc.Label {
				fail("harness defect: the model did not apply the client-built operation just anchored", map[string]interface{}{"history": replayOps(H)})
				return
			}
			if want != got {
				fail(fmt.Sprintf("anchored client-built %s did not produce the intended state (step %d of %s)\n   intended: %s\n   resolved: %s", b.Desc.Type, k, histString(H), want, got),
					map[string]interface{}{"history": replayOps(H), "inputs": b.Inputs, "intended": want, "resolved": got})
				return
			}
		}
		if len(H) >= 3 {
			c.Distinct(fmt.Sprintf("%v|%d|%v", types, code, labelsOf(H)))
		}
		if i < 2 {
			c.Sample(2, map[string]interface{}{"chain": labelsOf(H), "key_types": types, "multihash": code, "first_request": string(cr.Req)})
		}
	})
	c11ThroughBatchFiles(c)
	// client-built creates posted one after the other through the REST handler: what is queued for each is what was posted
	c08ThroughREST(c)
	c.Floor("rest_runs_with_several_creates", 10)
	c.Floor("batch_file_rounds_with_recover_and_update", 10)
	c.Floor("batch_file_rounds_with_deferred_request", 20)
	c.Floor("batch_file_chains_with_suffix_data_type", 20)
	for _, t := range ref.KeyTypes {
		c.Floor("signed_with:"+t, 20)
	}
	for _, t := range []string{"create", "update", "recover", "deactivate"} {
		c.Floor("parsed_back:"+t, 20)
	}
	c.Floor("chains_crossing_a_protocol_upgrade", 50)
	c.Floor("chains_with_windows_longer_than_the_time_delta", 100)
	c.Floor("updates_copying_a_member_and_changing_the_copy", 50)
	c.Floor("chains_with_unusual_key_ids", 100)
	c.Floor("chains_hashed_with_the_second_enabled_algorithm", 100)
	c.Floor("updates_with_a_replace_patch_after_other_patches", 50)
	c.Floor("client_operations_after_a_worthless_neighbour", 100)
	_ = protocol.Protocol{}
}

// jwkNoEmptyY normalises a JWK (struct or map) to a map without empty members.
func jwkNoEmptyY(v interface{}) interface{} {
	m, ok := roundTrip(v).(map[string]interface{})
	if !ok {
		return v
	}
	for k, x := range m {
		if s, isS := x.(string); isS && s == "" {
			delete(m, k)
		}
	}
	return m
}

// c11ThroughBatchFiles: "once anchored" goes through batch files. Two client-built chains (different DIDs) are anchored round
// by round - round k holds the k-th request of both - through the REAL OperationHandler, CAS, OperationProvider and
// TxnProcessor into an operation store; after every round both DIDs must resolve to the state the builder inputs predict.
func c11ThroughBatchFiles(c *hx.Ctx) { chainsThroughBatchFiles(c, c.N(150, 3000)) }

// chainsThroughBatchFiles is shared by C11 (client-built requests take effect once anchored) and C03 (histories anchored
// through batch files resolve to the reference state).
func chainsThroughBatchFiles(c *hx.Ctx, nPairs int) {
	root := c.Rng("batch-files")
	seeds := make([]uint64, nPairs)
	for i := range seeds {
		seeds[i] = root.U64()
	}
	hx.Parallel(nPairs, 16, func(i int) {
		if c.Violations() > 8 {
			return
		}
		r := hx.NewRng(seeds[i], "c11b")
		p := hx.BaseProtocol()
		p.MaxDeltaSize, p.MaxOperationSize = 9000, 20000
		p.MaxChunkFileSize, p.MaxCoreIndexFileSize, p.MaxProofFileSize, p.MaxProvisionalIndexFileSize = 2000000, 2000001, 2000002, 2000003
		cas, store := hx.NewMemCAS(), hx.NewOpStore()
		v := hx.NewVersion(p, hx.VersionOpts{CAS: cas, Store: store})
		pc := hx.NewClient(v)
		type chain struct {
			d     *CDid
			built []*BuiltOp
		}
		var chains []*chain
		for k := 0; k < 2; k++ {
			ids := newIDPool(r)
			typ := ""
			if (i+k)%2 == 0 {
				typ = fmt.Sprintf("t%d", r.Intn(9))
				c.Count("batch_file_chains_with_suffix_data_type")
			}
			var patches []interface{}
			var opaque map[string]interface{}
			if r.Bool() {
				opaque = genDoc(r)
			} else {
				patches = genPatches(r, 3, ids)
			}
			d, cr, err := NewCDid(r.Split(fmt.Sprint("did", k)), ref.SHA256, []string{hx.Pick(r, ref.KeyTypes), "P-256"}, int64(p.MaxOperationTimeDelta), false, patches, opaque, genOrigin(r), typ)
			if err != nil {
				c.Violation(c.ID+" client.NewCreateRequest refused valid inputs: "+err.Error(), nil)
				return
			}
			d.Suffix = suffixOf(cr.Req, ref.SHA256)
			ch := &chain{d: d, built: []*BuiltOp{cr}}
			for n := 0; n < 2+r.Intn(3) && !d.Deact; n++ {
				var b *BuiltOp
				switch r.Intn(5) {
				case 0:
					b, err = d.Recover(genPatches(r, 2, ids), nil, genOrigin(r), 0, 0)
				case 1:
					b, err = d.Recover(nil, genDoc(r), genOrigin(r), 0, 0)
				case 2:
					if n > 1 {
						b, err = d.Deactivate(0, 0)
						break
					}
					fallthrough
				default:
					b, err = d.Update(genPatches(r, 2, ids), 0, 0)
				}
				if err != nil {
					c.Violation(c.ID+" client builder refused valid inputs: "+err.Error(), nil)
					return
				}
				ch.built = append(ch.built, b)
			}
			chains = append(chains, ch)
		}
		H := map[*chain][]*ref.Op{}
		next := map[*chain]int{}
		for round := 0; round < 40; round++ {
			var q []*operation.QueuedOperation
			var kinds []string
			type cand struct {
				ch *chain
				b  *BuiltOp
			}
			var cands []cand
			order := []int{0, 1}
			if r.Bool() {
				order = []int{1, 0}
			}
			for _, ci := range order {
				ch := chains[ci]
				if next[ch] >= len(ch.built) {
					continue
				}
				cands = append(cands, cand{ch, ch.built[next[ch]]})
				// two consecutive requests of one DID sent back to back land in the same cut: the second one is deferred by
				// the handler and has to go into the next batch
				if next[ch]+1 < len(ch.built) && r.Chance(1, 3) {
					cands = append(cands, cand{ch, ch.built[next[ch]+1]})
				}
			}
			if len(cands) == 0 {
				break
			}
			for _, cd := range cands {
				q = append(q, &operation.QueuedOperation{Type: operation.Type(cd.b.Desc.Type), OperationRequest: cd.b.Req, UniqueSuffix: cd.ch.d.Suffix, Namespace: hx.Namespace})
				kinds = append(kinds, cd.b.Desc.Type)
			}
			c.Eval()
			replay := map[string]interface{}{"round": round, "batch": kinds}
			info, err := v.Handler.PrepareTxnFiles(q)
			if err != nil {
				c.Violation(fmt.Sprintf(c.ID+" batch of client-built requests %v refused by the operation handler: %v", kinds, err), replay)
				return
			}
			deferred := map[string]bool{}
			for _, a := range info.AdditionalOperations {
				deferred[string(a.OperationRequest)] = true
			}
			if len(info.ExpiredOperations) != 0 {
				c.Violation(fmt.Sprintf(c.ID+" the operation handler discarded %d client-built requests without window as expired", len(info.ExpiredOperations)), replay)
				return
			}
			var includedKinds []string
			for _, cd := range cands {
				if deferred[string(cd.b.Req)] {
					c.Count("batch_file_rounds_with_deferred_request")
					continue
				}
				H[cd.ch] = append(H[cd.ch], Place(cd.b.Desc, uint64(1000+10*round), uint64(round%4), fmt.Sprintf("ref%d", round), p.GenesisTime))
				next[cd.ch]++
				includedKinds = append(includedKinds, cd.b.Desc.Type)
			}
			t := txn.SidetreeTxn{Namespace: hx.Namespace, AnchorString: info.AnchorString, TransactionTime: uint64(1000 + 10*round), TransactionNumber: uint64(round % 4),
				ProtocolVersion: p.GenesisTime, CanonicalReference: fmt.Sprintf("ref%d", round)}
			if i%3 == 0 {
				// the transaction reaches the node through the REAL observer, in one ledger notification with an unreadable
				// transaction in front of it (seeded C11-19: a bad neighbour must not keep the anchored request from taking effect)
				junk := txn.SidetreeTxn{Namespace: hx.Namespace, AnchorString: []string{"garbage", "3.EiMissingCoreIndexFilexxxxxxxxxxxxxxxxxxxxxxxxx"}[round%2], TransactionTime: t.TransactionTime - 1,
					TransactionNumber: 9, ProtocolVersion: p.GenesisTime, CanonicalReference: fmt.Sprintf("junk%d", round)}
				ok, late := observeNotification(pc, []txn.SidetreeTxn{junk, t})
				if late {
					c.Inconclusive("observer did not finish a notification within 3 minutes")
					return
				}
				_ = ok
				c.Count("batch_file_rounds_through_the_observer_behind_an_unreadable_transaction")
			} else if _, err := v.TxnProc.Process(t); err != nil {
				c.Violation(fmt.Sprintf(c.ID+" anchored batch of client-built requests %v (included %v) cannot be processed: %v", kinds, includedKinds, err), replay)
				return
			}
			if len(includedKinds) == 2 && ((includedKinds[0] == "recover" && includedKinds[1] == "update") || (includedKinds[0] == "update" && includedKinds[1] == "recover")) {
				c.Count("batch_file_rounds_with_recover_and_update")
			}
			for _, ch := range chains {
				if len(H[ch]) == 0 {
					continue
				}
				st, merr := ref.Resolve(H[ch], ref.ResolveOpts{})
				rm, err := processor.New("verif", store, pc).Resolve(ch.d.Suffix)
				if want, got := stKey(st, merr), rmKey(rm, err); want != got {
					replay["history"], replay["intended"], replay["resolved"] = replayOps(H[ch]), want, got
					c.Violation(fmt.Sprintf(c.ID+" client-built requests anchored through batch files did not produce the intended state (after round %d, batch %v, history %s)\n   intended: %s\n   resolved: %s", round, kinds, histString(H[ch]), want, got), replay)
					return
				}
			}
			c.Count("batch_file_rounds")
		}
		for _, ch := range chains {
			if next[ch] != len(ch.built) {
				c.Violation(fmt.Sprintf(c.ID+" %d client-built requests of a chain were never included in a batch", len(ch.built)-next[ch]), nil)
				return
			}
		}
		c.Distinct(fmt.Sprintf("bf|%v|%v", labelsOf(H[chains[0]]), labelsOf(H[chains[1]])))
	})
	c.Floor("batch_file_rounds_through_the_observer_behind_an_unreadable_transaction", 20)
}

// copyThenChange is one ietf-json-patch that adds an object-valued member, copies it and then changes the copy and / or the
// source: RFC 6902 copies values, so source and copy are independent afterwards.
func copyThenChange(r *hx.Rng) map[string]interface{} {
	src := hx.Pick(r, []string{"profile", "settings", "m1"})
	dst := hx.Pick(r, []string{"backup", "archive", "m2"})
	ops := []map[string]interface{}{
		{"op": "add", "path": "/" + src, "value": map[string]interface{}{"name": fmt.Sprint("n", r.Intn(50)), "tags": []interface{}{"a", "b"}, "nested": map[string]interface{}{"k": 1.0}}},
		{"op": "copy", "from": "/" + src, "path": "/" + dst},
	}
	for k := 0; k < 1+r.Intn(3); k++ {
		target := hx.Pick(r, []string{src, dst})
		switch r.Intn(3) {
		case 0:
			ops = append(ops, map[string]interface{}{"op": "add", "path": "/" + target + "/" + hx.Pick(r, []string{"archived", "extra"}), "value": r.Bool()})
		case 1:
			ops = append(ops, map[string]interface{}{"op": "replace", "path": "/" + target + "/name", "value": fmt.Sprint("changed", k)})
		default:
			ops = append(ops, map[string]interface{}{"op": "add", "path": "/" + target + "/tags", "value": []interface{}{"c"}})
		}
	}
	return patchJSON(ops...)
}

// observeNotification hands one ledger notification to a fresh REAL observer over the protocol client and waits until the
// observer has taken the next (empty) notification, i.e. has finished with this one. late = wall-clock watchdog fired.
func observeNotification(pc protocol.Client, batch []txn.SidetreeTxn) (ok bool, late bool) {
	ledger := &chanLedger{ch: make(chan []txn.SidetreeTxn)}
	obs := observer.New(&observer.Providers{Ledger: ledger, ProtocolClientProvider: &hx.ClientProvider{C: pc}})
	obs.Start()
	defer obs.Stop()
	done := make(chan struct{})
	go func() {
		ledger.ch <- batch
		ledger.ch <- nil
		close(done)
	}()
	select {
	case <-done:
		return true, false
	case <-time.After(3 * time.Minute):
		return false, true
	}
}
