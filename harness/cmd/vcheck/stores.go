package main

import (
	"encoding/json"
	"fmt"
	"sync"

	"github.com/trustbloc/sidetree-core-go/pkg/api/operation"
)

var allOpTypes = []operation.Type{operation.TypeCreate, operation.TypeUpdate, operation.TypeRecover, operation.TypeDeactivate}

// recUnpub is a recording unpublished-operation store (Put/Delete/DeleteAll/Get) with fault injection.
type recUnpub struct {
	mu       sync.Mutex
	ops      []*operation.AnchoredOperation
	puts     int
	attempts int
	deletes  int
	PutErr   func(call int) error
	DelErr   func(call int) error
	// BySuffix: a store keyed by DID suffix (one pending entry per DID): Delete removes the entry of the operation's DID
	BySuffix bool
}

func (s *recUnpub) Put(op *operation.AnchoredOperation) error {
	s.mu.Lock()
	defer s.mu.Unlock()
	s.attempts++
	if s.PutErr != nil {
		if err := s.PutErr(s.attempts); err != nil {
			return err // a failed put stores nothing
		}
	}
	s.puts++
	c := *op
	s.ops = append(s.ops, &c)
	return nil
}

func (s *recUnpub) Delete(op *operation.AnchoredOperation) error {
	s.mu.Lock()
	defer s.mu.Unlock()
	if s.DelErr != nil {
		if err := s.DelErr(s.deletes + 1); err != nil {
			return err
		}
	}
	for i, o := range s.ops {
		if o.UniqueSuffix == op.UniqueSuffix && (s.BySuffix || string(o.OperationRequest) == string(op.OperationRequest)) {
			s.ops = append(s.ops[:i], s.ops[i+1:]...)
			s.deletes++
			return nil
		}
	}
	return fmt.Errorf("not found")
}

func (s *recUnpub) DeleteAll(ops []*operation.AnchoredOperation) error {
	for _, o := range ops {
		_ = s.Delete(o)
	}
	return nil
}

func (s *recUnpub) Get(suffix string) ([]*operation.AnchoredOperation, error) {
	s.mu.Lock()
	defer s.mu.Unlock()
	var out []*operation.AnchoredOperation
	for _, o := range s.ops {
		if o.UniqueSuffix == suffix {
			c := *o
			out = append(out, &c)
		}
	}
	if len(out) == 0 {
		return nil, fmt.Errorf("not found")
	}
	return out, nil
}

func (s *recUnpub) Len() int { s.mu.Lock(); defer s.mu.Unlock(); return len(s.ops) }

func jsonUnmarshal(b []byte, v interface{}) error { return json.Unmarshal(b, v) }
