package main

import (
	"encoding/json"
	"fmt"
	"net/url"
	"regexp"
	"strings"
	"time"

	"github.com/trustbloc/sidetree-core-go/pkg/api/protocol"

	"verifharness/hx"
	"verifharness/ref"
)

func init() { register("C18", "exploration", checkC18) }

var idRe = regexp.MustCompile(`^[A-Za-z0-9_-]{1,50}$`)

var keyTypeAllowed = map[string]map[string]bool{} // type -> purpose -> allowed ("" = general, no purposes)

func init() {
	for _, t := range keyTypeTable {
		m := map[string]bool{"": true}
		for _, p := range verifPurposes {
			m[p] = t.Verif
		}
		m["keyAgreement"] = t.Agreement
		keyTypeAllowed[t.Type] = m
	}
}

// ruleViolations lists every structural rule of C18 that a patch (generic JSON) breaks. Empty = obeys the rules.
func ruleViolations(enabled []string, p map[string]interface{}) []string {
	var out []string
	bad := func(f string, a ...interface{}) { out = append(out, fmt.Sprintf(f, a...)) }
	action, _ := p["action"].(string)
	if !containsS(enabled, action) {
		bad("action %q is not enabled", action)
		return out
	}
	checkKeys := func(v interface{}) {
		arr, _ := v.([]interface{})
		seen := map[string]bool{}
		for _, e := range arr {
			k, ok := e.(map[string]interface{})
			if !ok {
				continue // non-object entries are dropped by the composer
			}
			id, _ := k["id"].(string)
			if !idRe.MatchString(id) {
				bad("key id %q is not 1-50 URL-safe characters", id)
			}
			if seen[id] {
				bad("duplicate key id %q", id)
			}
			seen[id] = true
			typ, _ := k["type"].(string)
			allowed := keyTypeAllowed[typ]
			if allowed == nil {
				bad("key type %q not permitted", typ)
			} else {
				purposes, _ := k["purposes"].([]interface{})
				for _, pu := range purposes {
					ps, isStr := pu.(string)
					if !isStr {
						continue // non-string entries are not purposes (the library ignores them)
					}
					if !allowed[ps] || ps == "" {
						bad("key type %q not permitted for purpose %q", typ, ps)
					}
				}
			}
			_, hasJ := k["publicKeyJwk"]
			_, hasB := k["publicKeyBase58"]
			if hasJ == hasB {
				bad("key %q does not have exactly one key-material member", id)
			}
		}
	}
	checkServices := func(v interface{}) {
		arr, _ := v.([]interface{})
		seen := map[string]bool{}
		for _, e := range arr {
			s, ok := e.(map[string]interface{})
			if !ok {
				continue
			}
			id, _ := s["id"].(string)
			if !idRe.MatchString(id) {
				bad("service id %q is not 1-50 URL-safe characters", id)
			}
			if seen[id] {
				bad("duplicate service id %q", id)
			}
			seen[id] = true
			typ, _ := s["type"].(string)
			if len(typ) > 30 {
				bad("service type longer than 30 characters")
			}
			uriOK := func(u string) bool {
				if u == "" {
					return false
				}
				_, err := url.ParseRequestURI(u)
				return err == nil
			}
			switch ep := s["serviceEndpoint"].(type) {
			case string:
				if !uriOK(ep) {
					bad("service endpoint %q is not a valid URI", ep)
				}
			case []interface{}:
				for _, x := range ep {
					if u, isS := x.(string); isS && !uriOK(u) {
						bad("service endpoint list contains %q which is not a valid URI", u)
					}
				}
			}
		}
	}
	switch action {
	case "add-public-keys":
		checkKeys(p["publicKeys"])
	case "add-services":
		checkServices(p["services"])
	case "replace":
		d, _ := p["document"].(map[string]interface{})
		checkKeys(d["publicKeys"])
		checkServices(d["services"])
	case "remove-public-keys", "remove-services":
		ids, _ := p["ids"].([]interface{})
		for _, x := range ids {
			if s, ok := x.(string); ok && !idRe.MatchString(s) {
				bad("removed id %q is not 1-50 URL-safe characters", s)
			}
		}
	case "ietf-json-patch":
		ops, _ := p["patches"].([]interface{})
		for _, o := range ops {
			om, _ := o.(map[string]interface{})
			for _, member := range []string{"path", "from"} {
				if s, ok := om[member].(string); ok && addressesProtected(s) {
					bad("json patch %s %q addresses the public-key or service section", member, s)
				}
			}
		}
	}
	return out
}

// addressesProtected: the pointer's first reference token (as the JSON patch engine resolves it) is, or starts with, a protected section name.
func addressesProtected(ptr string) bool {
	parts := strings.Split(ptr, "/")
	if len(parts) < 2 {
		return false
	}
	tok := strings.NewReplacer("~1", "/", "~0", "~").Replace(parts[1])
	return tok == "publicKey" || tok == "service"
}

func sectionsKey(doc map[string]interface{}) string {
	return string(ref.MustJCS(map[string]interface{}{"k": doc["publicKey"], "s": doc["service"], "hk": hasKey(doc, "publicKey"), "hs": hasKey(doc, "service")}))
}

func hasKey(m map[string]interface{}, k string) bool { _, ok := m[k]; return ok }

func checkC18(c *hx.Ctx) {
	c.Rule("(1) patches generated around each structural rule - every violation singly and in pairs on top of a valid patch: id empty / 51 characters / non URL-safe / duplicated (over every pairing of key-entry kinds: type x JWK / base58 material), key type not permitted for a declared purpose, zero or two key-material members (the surplus one also null or empty), service type 31 characters, invalid URI endpoint (single, second of a list, after an object), disabled action, JSON-patch path / from addressing /publicKey or /service in every pointer spelling - rule-conforming deltas whose objects have member names that are prefixes of each other (validation canonicalizes the delta), plus random mutations of valid patches; oracle: whenever patchvalidator.Validate / ValidateDelta accepts, an independent rule checker finds no violation (and every generated violation is rejected); (2) every accepted delta, and every JSON patch over all six RFC 6902 operations x 34 pointer shapes for path and from x present/absent/null/ill-typed value (exhaustive for single operations, random lists of 1-3), is applied to 3 small documents in crash-isolated workers with a per-call watchdog: must return a document or an error, never panic, crash or hang, and an accepted JSON patch must leave the publicKey and service sections unchanged; (3) published operations put straight into the operation store whose correctly signed delta breaks a structural rule: resolution treats the delta as unusable (compared with the reference state machine); non-trivial = rule-violating or RFC 6902 case; distinct = distinct (document, patch list)")
	c.Assume("the key-type/purpose table and the limits 50/30 are frozen from the statement and the pinned tree; URI validity = net/url.ParseRequestURI; the watchdog (30 s per call, normal calls take < 1 ms) counts as a violation of the termination clause")
	pool := hx.NewPool(c, "compose", 16, 4*1024*1024, 30*time.Second)
	defer pool.Close()
	base := hx.BaseProtocol()
	k1 := ref.NewKey("P-256", "k", []byte("c18"))
	goodKey := func(id string) map[string]interface{} { return pubKeyEntry(id, k1, "authentication") }
	goodSvc := func(id string) map[string]interface{} { return svcEntry(id, "hub", "https://example.com/ok") }
	docs := []map[string]interface{}{
		{},
		{"arr": []interface{}{map[string]interface{}{"a": 1.0}, 2.0}, "o": map[string]interface{}{"k": "v"}, "a": "s",
			"publicKey": []interface{}{goodKey("k1")}, "service": []interface{}{goodSvc("s1")}, "~": map[string]interface{}{"t": 1.0}, "a/b": map[string]interface{}{"s": 2.0},
			"~1": map[string]interface{}{"u": 3.0}, "0": map[string]interface{}{"z": 4.0}},
		{"arr": []interface{}{}, "o": map[string]interface{}{}, "n": nil, "publicKey": []interface{}{goodKey("k1"), goodKey("k2")}},
		// sections holding elements that are not entries (reachable when a validated replace patch carries such elements, see the
		// replace-with-non-object-elements jobs below)
		{"publicKey": []interface{}{"junk", 5.0, nil, goodKey("k1"), []interface{}{}}, "service": []interface{}{"junk", goodSvc("s1"), nil}, "alsoKnownAs": []interface{}{"https://a.example", 7.0, map[string]interface{}{}}},
	}
	// evaluate: validate + (if accepted) apply to every doc; rules oracle; effect monitor
	evaluate := func(patches []interface{}, class string, mustReject string, p *protocol.Protocol) bool {
		enabled := base.Patches
		if p != nil {
			enabled = p.Patches
		}
		var viol []string
		for _, pt := range patches {
			if pm, ok := pt.(map[string]interface{}); ok {
				viol = append(viol, ruleViolations(enabled, pm)...)
			}
		}
		for di, doc := range docs {
			c.Eval()
			rep, ok := composeRun(c, pool, composeCase{Proto: p, Doc: mustJSON(doc), Patches: mustJSON(patches)}, class)
			if !ok {
				return false
			}
			if rep == nil {
				return true
			}
			replay := map[string]interface{}{"doc": doc, "patches": patches, "class": class}
			accepted := rep.DeltaErr == ""
			if accepted && len(viol) > 0 {
				replay["rule_violations"] = viol
				c.Violation(fmt.Sprintf("C18 validation accepted a delta that breaks a structural rule (%s): %s", class, strings.Join(viol, "; ")), replay)
				return false
			}
			if mustReject != "" && accepted {
				c.Violation(fmt.Sprintf("C18 validation accepted a delta built to violate: %s (%s)", mustReject, class), replay)
				return false
			}
			// per-patch validator must agree with the rules too
			for i, ve := range rep.Validate {
				if ve == "" {
					if pm, ok := patches[i].(map[string]interface{}); ok {
						if pv := ruleViolations(hx.AllPatches, pm); len(pv) > 0 {
							c.Violation(fmt.Sprintf("C18 patchvalidator.Validate accepted a patch that breaks a structural rule (%s): %s", class, strings.Join(pv, "; ")), replay)
							return false
						}
					}
				}
			}
			if di == 0 {
				if accepted {
					c.Count("accepted:" + class)
				} else {
					c.Count("rejected:" + class)
				}
			}
			if !accepted {
				if mustReject != "" && di == 0 {
					c.Distinct(class + "|" + string(mustJSON(patches)))
				}
				return true // not applied: only accepted deltas reach the composer
			}
			// accepted: application outcome
			if rep.ApplyErr == "" {
				c.Count("applied_ok")
				res, _ := rawTree(rep.Result).(map[string]interface{})
				onlyJSON := true
				for _, pt := range patches {
					if pm, _ := pt.(map[string]interface{}); pm["action"] != "ietf-json-patch" {
						onlyJSON = false
					}
				}
				if onlyJSON && sectionsKey(res) != sectionsKey(rawTree(mustJSON(doc)).(map[string]interface{})) {
					replay["result"] = res
					c.Violation(fmt.Sprintf("C18 an accepted JSON patch changed the public-key or service section (%s)", class), replay)
					return false
				}
			} else {
				c.Count("applied_err")
			}
			c.Distinct(fmt.Sprintf("%d|%s", di, string(mustJSON(patches))))
		}
		return true
	}

	// ---------- (1) rule violations around valid patches
	type viol struct {
		name string
		f    func(e map[string]interface{})
	}
	long51 := strings.Repeat("a", 51)
	keyViol := []viol{
		{"id empty", func(e map[string]interface{}) { e["id"] = "" }},
		{"id missing", func(e map[string]interface{}) { delete(e, "id") }},
		{"id 51 characters", func(e map[string]interface{}) { e["id"] = long51 }},
		{"id with space", func(e map[string]interface{}) { e["id"] = "a b" }},
		{"id with slash", func(e map[string]interface{}) { e["id"] = "a/b" }},
		{"id with dot", func(e map[string]interface{}) { e["id"] = "a.b" }},
		{"id non-ascii", func(e map[string]interface{}) { e["id"] = "clé" }},
		{"id with newline", func(e map[string]interface{}) { e["id"] = "ab\n" }},
		{"id with percent", func(e map[string]interface{}) { e["id"] = "a%41" }},
		{"type unknown", func(e map[string]interface{}) { e["type"] = "RsaVerificationKey2018" }},
		{"type missing", func(e map[string]interface{}) { delete(e, "type") }},
		{"Ed25519-2018 for keyAgreement", func(e map[string]interface{}) {
			e["type"], e["purposes"] = "Ed25519VerificationKey2018", []interface{}{"authentication", "keyAgreement"}
		}},
		{"Ed25519-2020 for keyAgreement", func(e map[string]interface{}) {
			e["type"], e["purposes"] = "Ed25519VerificationKey2020", []interface{}{"keyAgreement"}
		}},
		{"X25519 for authentication", func(e map[string]interface{}) {
			e["type"], e["purposes"] = "X25519KeyAgreementKey2019", []interface{}{"authentication"}
		}},
		{"X25519 for capabilityInvocation after keyAgreement", func(e map[string]interface{}) {
			e["type"], e["purposes"] = "X25519KeyAgreementKey2019", []interface{}{"keyAgreement", "capabilityInvocation"}
		}},
		{"purpose unknown", func(e map[string]interface{}) { e["purposes"] = []interface{}{"authentication", "signing"} }},
		{"both key materials", func(e map[string]interface{}) { e["publicKeyBase58"] = "3M5RCDjPTWPkKSN3sxUmmMqHbmRPegYP1tjcKyrDbt9J" }},
		{"no key material", func(e map[string]interface{}) { delete(e, "publicKeyJwk") }},
		{"second key material null", func(e map[string]interface{}) { e["publicKeyBase58"] = nil }},
		{"base58 key with null jwk member", func(e map[string]interface{}) {
			e["type"], e["purposes"] = "Ed25519VerificationKey2018", []interface{}{"authentication"}
			e["publicKeyBase58"], e["publicKeyJwk"] = "3M5RCDjPTWPkKSN3sxUmmMqHbmRPegYP1tjcKyrDbt9J", nil
		}},
		{"second key material empty string", func(e map[string]interface{}) { e["publicKeyBase58"] = "" }},
	}
	svcViol := []viol{
		{"id empty", func(e map[string]interface{}) { e["id"] = "" }},
		{"id 51 characters", func(e map[string]interface{}) { e["id"] = long51 }},
		{"id with colon", func(e map[string]interface{}) { e["id"] = "did:x" }},
		{"id with hash", func(e map[string]interface{}) { e["id"] = "#s" }},
		{"type 31 characters", func(e map[string]interface{}) { e["type"] = strings.Repeat("t", 31) }},
		{"endpoint not a URI", func(e map[string]interface{}) { e["serviceEndpoint"] = "not a uri" }},
		{"endpoint empty", func(e map[string]interface{}) { e["serviceEndpoint"] = "" }},
		{"endpoint relative", func(e map[string]interface{}) { e["serviceEndpoint"] = "relative/path" }},
		{"endpoint list second invalid", func(e map[string]interface{}) {
			e["serviceEndpoint"] = []interface{}{"https://ok.example", "not a uri"}
		}},
		{"endpoint list third invalid", func(e map[string]interface{}) {
			e["serviceEndpoint"] = []interface{}{"https://ok.example", "https://ok2.example", "::bad"}
		}},
		{"endpoint list invalid after object", func(e map[string]interface{}) {
			e["serviceEndpoint"] = []interface{}{map[string]interface{}{"uri": "https://a.example"}, "not a uri"}
		}},
		{"endpoint list empty string after object", func(e map[string]interface{}) {
			e["serviceEndpoint"] = []interface{}{map[string]interface{}{"uri": "https://a.example"}, ""}
		}},
		{"endpoint list first invalid", func(e map[string]interface{}) { e["serviceEndpoint"] = []interface{}{"%%%", "https://ok.example"} }},
	}
	type job struct {
		patches []interface{}
		class   string
		must    string
		proto   *protocol.Protocol
	}
	var jobs []job
	// single and pairwise violations, at first / last position, in add-* and in replace
	mkKeys := func(fs ...func(e map[string]interface{})) []interface{} {
		es := []interface{}{goodKey("a1"), goodKey("a2"), goodKey("a3")}
		for i, f := range fs {
			f(es[(i*2)%3].(map[string]interface{}))
		}
		return es
	}
	mkSvcs := func(fs ...func(e map[string]interface{})) []interface{} {
		es := []interface{}{goodSvc("b1"), goodSvc("b2"), goodSvc("b3")}
		for i, f := range fs {
			f(es[2-(i*2)%3].(map[string]interface{}))
		}
		return es
	}
	for i, v := range keyViol {
		jobs = append(jobs, job{[]interface{}{map[string]interface{}{"action": "add-public-keys", "publicKeys": mkKeys(v.f)}}, "key-rule", "key " + v.name, nil})
		jobs = append(jobs, job{[]interface{}{patchReplace(mkKeys(v.f), []interface{}{goodSvc("s")})}, "key-rule-in-replace", "key " + v.name, nil})
		jobs = append(jobs, job{[]interface{}{patchAddServices(goodSvc("ok")), map[string]interface{}{"action": "add-public-keys", "publicKeys": mkKeys(v.f)}}, "key-rule-second-patch", "key " + v.name, nil})
		for j, w := range keyViol {
			if j > i && (i+j)%3 == 0 {
				jobs = append(jobs, job{[]interface{}{map[string]interface{}{"action": "add-public-keys", "publicKeys": mkKeys(v.f, w.f)}}, "key-rule-pair", "key " + v.name + " + " + w.name, nil})
			}
		}
	}
	for i, v := range svcViol {
		jobs = append(jobs, job{[]interface{}{map[string]interface{}{"action": "add-services", "services": mkSvcs(v.f)}}, "service-rule", "service " + v.name, nil})
		jobs = append(jobs, job{[]interface{}{patchReplace([]interface{}{goodKey("k")}, mkSvcs(v.f))}, "service-rule-in-replace", "service " + v.name, nil})
		for j, w := range svcViol {
			if j > i && (i+j)%3 == 0 {
				jobs = append(jobs, job{[]interface{}{map[string]interface{}{"action": "add-services", "services": mkSvcs(v.f, w.f)}}, "service-rule-pair", "service " + v.name + " + " + w.name, nil})
			}
		}
		jobs = append(jobs, job{[]interface{}{map[string]interface{}{"action": "add-public-keys", "publicKeys": mkKeys(keyViol[i%len(keyViol)].f)}, map[string]interface{}{"action": "add-services", "services": mkSvcs(v.f)}},
			"key-and-service-rule", "key " + keyViol[i%len(keyViol)].name + " + service " + v.name, nil})
	}
	// every printable ASCII character outside [A-Za-z0-9_-] at the start, in the middle and at the end of key and service ids
	for ch := 0x20; ch < 0x7f; ch++ {
		cs := string(rune(ch))
		if idRe.MatchString(cs) {
			continue
		}
		for pi, id := range []string{cs + "ab", "a" + cs + "b", "ab" + cs} {
			id := id
			kf := func(e map[string]interface{}) { e["id"] = id }
			switch (ch + pi) % 3 {
			case 0:
				jobs = append(jobs, job{[]interface{}{map[string]interface{}{"action": "add-public-keys", "publicKeys": mkKeys(kf)}}, "id-charset", fmt.Sprintf("key id %q", id), nil})
				jobs = append(jobs, job{[]interface{}{patchReplace(nil, mkSvcs(kf))}, "id-charset", fmt.Sprintf("service id %q in replace", id), nil})
			case 1:
				jobs = append(jobs, job{[]interface{}{map[string]interface{}{"action": "add-services", "services": mkSvcs(kf)}}, "id-charset", fmt.Sprintf("service id %q", id), nil})
				jobs = append(jobs, job{[]interface{}{patchRemoveKeys("ok", id)}, "id-charset", fmt.Sprintf("removed key id %q", id), nil})
			default:
				jobs = append(jobs, job{[]interface{}{patchReplace(mkKeys(kf), nil)}, "id-charset", fmt.Sprintf("key id %q in replace", id), nil})
				jobs = append(jobs, job{[]interface{}{map[string]interface{}{"action": "remove-services", "ids": []interface{}{id}}}, "id-charset", fmt.Sprintf("removed service id %q", id), nil})
			}
		}
	}
	// duplicate ids over every pairing of key-entry kinds (type x material encoding) and service-endpoint shapes, adjacent and
	// separated, in add-* and in replace: the rule does not depend on what the entries look like
	{
		dr := c.Rng("dup-kinds")
		var kinds []map[string]interface{}
		seenKind := map[string]bool{}
		for n := 0; n < 400 && len(kinds) < 14; n++ {
			e := genKeyEntry(dr, "dupId")
			_, b58 := e["publicKeyBase58"]
			sig := fmt.Sprint(e["type"], b58)
			if !seenKind[sig] {
				seenKind[sig] = true
				kinds = append(kinds, e)
			}
		}
		for ai, a := range kinds {
			for bi, b := range kinds {
				first, second := ref.CopyTree(a).(map[string]interface{}), ref.CopyTree(b).(map[string]interface{})
				what := fmt.Sprintf("duplicate key id, first entry %v, second entry %v", a["type"], b["type"])
				switch (ai + bi) % 3 {
				case 0:
					jobs = append(jobs, job{[]interface{}{map[string]interface{}{"action": "add-public-keys", "publicKeys": []interface{}{first, second}}}, "duplicate-id-kinds", what, nil})
				case 1:
					jobs = append(jobs, job{[]interface{}{map[string]interface{}{"action": "add-public-keys", "publicKeys": []interface{}{first, goodKey("between"), second}}}, "duplicate-id-kinds", what, nil})
				default:
					jobs = append(jobs, job{[]interface{}{patchReplace([]interface{}{goodKey("before"), first, second}, nil)}, "duplicate-id-kinds", what + " (replace)", nil})
				}
			}
		}
		var svcs []map[string]interface{}
		for n := 0; n < 6; n++ {
			svcs = append(svcs, genService(dr, "dupSvc"))
		}
		for ai, a := range svcs {
			for bi, b := range svcs {
				first, second := ref.CopyTree(a).(map[string]interface{}), ref.CopyTree(b).(map[string]interface{})
				if (ai+bi)%2 == 0 {
					jobs = append(jobs, job{[]interface{}{map[string]interface{}{"action": "add-services", "services": []interface{}{first, goodSvc("between"), second}}}, "duplicate-id-kinds", "duplicate service id", nil})
				} else {
					jobs = append(jobs, job{[]interface{}{patchReplace(nil, []interface{}{first, second})}, "duplicate-id-kinds", "duplicate service id (replace)", nil})
				}
			}
		}
		c.Set("duplicate_id_key_entry_kinds", len(kinds))
	}
	// replace patches whose arrays carry elements that are not entries, followed by ordinary patches on the resulting document
	for _, junk := range []interface{}{"junk", 5.0, nil, []interface{}{}, true} {
		rp := patchReplace([]interface{}{junk, goodKey("rk1")}, []interface{}{goodSvc("rs1"), junk})
		jobs = append(jobs,
			job{[]interface{}{rp}, "replace-with-non-object-elements", "", nil},
			job{[]interface{}{rp, map[string]interface{}{"action": "add-public-keys", "publicKeys": []interface{}{goodKey("rk1"), goodKey("new")}}}, "replace-with-non-object-elements", "", nil},
			job{[]interface{}{rp, patchRemoveKeys("rk1")}, "replace-with-non-object-elements", "", nil},
			job{[]interface{}{rp, patchAddServices(goodSvc("rs1"), goodSvc("s9"))}, "replace-with-non-object-elements", "", nil},
			job{[]interface{}{rp, map[string]interface{}{"action": "remove-services", "ids": []interface{}{"rs1"}}}, "replace-with-non-object-elements", "", nil})
	}
	// duplicates
	jobs = append(jobs,
		job{[]interface{}{map[string]interface{}{"action": "add-public-keys", "publicKeys": []interface{}{goodKey("dup"), goodKey("x"), goodKey("dup")}}}, "duplicate-id", "duplicate key id", nil},
		job{[]interface{}{map[string]interface{}{"action": "add-services", "services": []interface{}{goodSvc("dup"), goodSvc("dup")}}}, "duplicate-id", "duplicate service id", nil},
		job{[]interface{}{patchReplace([]interface{}{goodKey("d"), goodKey("d")}, nil)}, "duplicate-id", "duplicate key id in replace", nil},
		job{[]interface{}{patchReplace(nil, []interface{}{goodSvc("e"), goodSvc("f"), goodSvc("e")})}, "duplicate-id", "duplicate service id in replace", nil},
		job{[]interface{}{patchRemoveKeys("ok", long51)}, "remove-id-rule", "removed key id 51 characters", nil},
		job{[]interface{}{map[string]interface{}{"action": "remove-services", "ids": []interface{}{"a b"}}}, "remove-id-rule", "removed service id with space", nil},
	)
	// boundary values that must be ACCEPTED (so the oracle is not vacuous)
	fifty := strings.Repeat("Z", 50)
	jobs = append(jobs,
		job{[]interface{}{map[string]interface{}{"action": "add-public-keys", "publicKeys": []interface{}{goodKey(fifty), goodKey("a"), goodKey("_-")}}}, "valid-boundary", "", nil},
		job{[]interface{}{map[string]interface{}{"action": "add-services", "services": []interface{}{svcEntry(fifty, strings.Repeat("t", 30), "https://x.example"),
			map[string]interface{}{"id": "lst", "type": "t", "serviceEndpoint": []interface{}{"https://a.example", "did:example:1", map[string]interface{}{"o": 1.0}}}}}}, "valid-boundary", "", nil},
	)
	// disabled actions
	samples := map[string]interface{}{
		"add-public-keys": patchAddKeys(goodKey("k")), "remove-public-keys": patchRemoveKeys("k"), "add-services": patchAddServices(goodSvc("s")),
		"remove-services":   map[string]interface{}{"action": "remove-services", "ids": []interface{}{"s"}},
		"ietf-json-patch":   patchJSON(map[string]interface{}{"op": "add", "path": "/m", "value": "v"}),
		"replace":           patchReplace([]interface{}{goodKey("k")}, nil),
		"add-also-known-as": map[string]interface{}{"action": "add-also-known-as", "uris": []interface{}{"https://aka.example"}}, "remove-also-known-as": map[string]interface{}{"action": "remove-also-known-as", "uris": []interface{}{"https://aka.example"}},
	}
	for act, pt := range samples {
		for _, removed := range hx.AllPatches {
			pp := base
			pp.Patches = without(hx.AllPatches, removed)
			must := ""
			if act == removed {
				must = "action " + act + " disabled"
			}
			jobs = append(jobs, job{[]interface{}{patchAddServices(goodSvc("first")), pt}, "action-enablement", must, &pp})
		}
	}
	// an empty or absent allow-list enables nothing
	for act, pt := range samples {
		for _, empty := range [][]string{{}, nil} {
			pp := base
			pp.Patches = empty
			jobs = append(jobs, job{[]interface{}{pt}, "action-enablement-empty-list", "action " + act + " with an empty allow-list", &pp})
		}
	}
	// ---------- (2) RFC 6902: exhaustive single operations
	ptrs := []interface{}{"", "/", "/a", "/arr", "/arr/0", "/arr/1", "/arr/-", "/arr/-1", "/arr/99999999999999999999", "/arr/00", "/arr/2", "/arr/0/a", "/o", "/o/k", "/o/k/x", "/o/new",
		"/missing", "/missing/x", "/~0", "/~1", "/a~1b", "/~", "/~01", "/~0/t", "/~/t", "/a~1b/s", "a", "x/service", "x/publicKey", "/service", "/publicKey", "/publicKey/0", "/service/0/id", "/publicKey/-", "//", "/o/", "/n", "/n/x",
		"/servicex", "/Service", "/ service", "/service~0", "service", "/~1service", nil, 5.0}
	vals := []interface{}{"__absent__", "v", nil, map[string]interface{}{"k": nil}, []interface{}{1.0}}
	kinds := []interface{}{"add", "remove", "replace", "move", "copy", "test"}
	for _, kind := range kinds {
		for _, path := range ptrs {
			froms := []interface{}{"__absent__"}
			if kind == "move" || kind == "copy" {
				froms = append(append([]interface{}{}, ptrs...), "__absent__")
			}
			for _, from := range froms {
				for _, val := range vals {
					if (kind == "remove" || kind == "move" || kind == "copy") && val != "__absent__" && val != nil {
						continue
					}
					op := map[string]interface{}{"op": kind}
					if s, isS := path.(string); !isS || s != "__absent__" {
						op["path"] = path
					}
					if s, isS := from.(string); !isS || s != "__absent__" {
						op["from"] = from
					}
					if s, isS := val.(string); !isS || s != "__absent__" {
						op["value"] = val
					}
					must := ""
					for _, m := range []string{"path", "from"} {
						if s, ok := op[m].(string); ok && addressesProtected(s) {
							must = "json patch " + m + " addresses a protected section"
						}
					}
					jobs = append(jobs, job{[]interface{}{patchJSON(op)}, "rfc6902-single:" + kind.(string), must, nil})
				}
			}
		}
	}
	// aliasing chains: a copied value must never end up nested inside itself
	for _, a := range []string{"/o", "/arr", "/arr/0"} {
		for _, b := range []string{"/alias", "/o/alias", "/arr/-", "/arr/0"} {
			for _, k2 := range []string{"copy", "move"} {
				for _, suf := range []string{"c", "0", "-", "k"} {
					chain := []map[string]interface{}{{"op": "copy", "from": a, "path": b}, {"op": k2, "from": b, "path": a + "/" + suf}}
					jobs = append(jobs, job{[]interface{}{patchJSON(chain...)}, "rfc6902-alias-chain", "", nil})
					jobs = append(jobs, job{[]interface{}{patchJSON(chain[0]), patchJSON(chain[1])}, "rfc6902-alias-chain", "", nil})
					jobs = append(jobs, job{[]interface{}{patchJSON(append(chain, map[string]interface{}{"op": "copy", "from": a, "path": "/final"})...)}, "rfc6902-alias-chain", "", nil})
				}
			}
		}
	}
	// a value copied / moved into its own child where source and target spell the same member differently (escapes are
	// decoded by the engine: "~0" and a lone "~" are the member "~", "~1" is "/", array indices are parsed as numbers)
	for _, sp := range [][]string{{"/~", "/~0"}, {"/a~1b"}, {"/~01"}, {"/o"}, {"/arr/0", "/arr/00", "/arr/+0", "/arr/-0"}, {"/0", "/00"}, {"/arr"}} {
		for _, from := range sp {
			for _, to := range sp {
				for _, suf := range []string{"/x", "/0", "/-", "/x/y"} {
					for _, k2 := range []string{"copy", "move"} {
						jobs = append(jobs, job{[]interface{}{patchJSON(map[string]interface{}{"op": k2, "from": from, "path": to + suf})}, "rfc6902-into-own-child", "", nil})
					}
					chain := []map[string]interface{}{{"op": "copy", "from": from, "path": "/alias"}, {"op": "copy", "from": "/alias", "path": to + suf}, {"op": "copy", "from": to, "path": "/final"}}
					jobs = append(jobs, job{[]interface{}{patchJSON(chain...)}, "rfc6902-into-own-child", "", nil})
				}
			}
		}
	}
	// rule-conforming deltas whose objects have member names that are prefixes of each other, share long prefixes, or are
	// empty / non-ASCII (validation canonicalizes the delta to measure it; creation and long-form resolution canonicalize documents)
	{
		withMembers := func(m map[string]interface{}, extra map[string]interface{}) map[string]interface{} {
			for k, v := range extra {
				m[k] = v
			}
			return m
		}
		nameSets := []map[string]interface{}{
			{"routing": "r", "routingKeys": []interface{}{"k"}},
			{"a": 1.0, "ab": 2.0, "abc": map[string]interface{}{"x": 1.0, "xy": 2.0}},
			{"": 0.0, "a": 1.0},
			{"name": "n", "nameHistory": []interface{}{"a"}, "names": nil},
			{"é": 1.0, "éé": 2.0, "\U0001F600": 3.0, "\U0001F600x": 4.0},
		}
		for _, ns := range nameSets {
			jobs = append(jobs, job{[]interface{}{patchAddServices(withMembers(goodSvc("sv"), ns))}, "member-names-prefix-of-each-other", "", nil})
			jobs = append(jobs, job{[]interface{}{patchReplace([]interface{}{goodKey("k9")}, []interface{}{withMembers(goodSvc("sv"), ns)})}, "member-names-prefix-of-each-other", "", nil})
			jobs = append(jobs, job{[]interface{}{patchJSON(map[string]interface{}{"op": "add", "path": "/profile", "value": ns})}, "member-names-prefix-of-each-other", "", nil})
			var ops []map[string]interface{}
			for _, k := range keysSorted(ns) {
				if k != "" {
					ops = append(ops, map[string]interface{}{"op": "add", "path": "/" + k, "value": ns[k]})
				}
			}
			jobs = append(jobs, job{[]interface{}{patchJSON(ops...)}, "member-names-prefix-of-each-other", "", nil})
		}
	}
	for _, extra := range []map[string]interface{}{{"op": "bogus", "path": "/a"}, {"path": "/a"}, {"op": nil, "path": "/a"}, {"op": 5.0, "path": "/a"}, {"op": "add"}, {}} {
		jobs = append(jobs, job{[]interface{}{patchJSON(extra)}, "rfc6902-malformed-op", "", nil})
	}
	hx.Parallel(len(jobs), 16, func(i int) {
		if c.Violations() > 12 {
			return
		}
		j := jobs[i]
		evaluate(j.patches, j.class, j.must, j.proto)
	})
	c.Set("enumerated_cases", len(jobs))
	c.Sample(2, map[string]interface{}{"patches": jobs[0].patches, "built_to_violate": jobs[0].must})
	c.Sample(3, map[string]interface{}{"patches": jobs[len(jobs)-50].patches, "class": jobs[len(jobs)-50].class})

	// ---------- random: lists of 1-3 RFC 6902 operations, aliasing chains, and random mutations of valid patches
	nRand := c.N(6000, 400000)
	rs := c.Rng("random")
	seeds := make([]uint64, nRand)
	for i := range seeds {
		seeds[i] = rs.U64()
	}
	hx.Parallel(nRand, 16, func(i int) {
		if c.Violations() > 12 {
			return
		}
		r := hx.NewRng(seeds[i], "c18")
		switch r.Intn(3) {
		case 0, 1:
			var ops []map[string]interface{}
			for n := 0; n < 1+r.Intn(3); n++ {
				op := map[string]interface{}{"op": hx.Pick(r, kinds), "path": hx.Pick(r, ptrs)}
				if op["op"] == "move" || op["op"] == "copy" || r.Chance(1, 6) {
					op["from"] = hx.Pick(r, ptrs)
				}
				if r.Chance(2, 3) {
					op["value"] = hx.Pick(r, vals[1:])
				}
				ops = append(ops, op)
			}
			if r.Chance(1, 5) { // aliasing chains that must not build cyclic values
				a, b := hx.Pick(r, []string{"/o", "/arr", "/arr/0"}), hx.Pick(r, []string{"/alias", "/o/alias", "/arr/-"})
				ops = []map[string]interface{}{{"op": "copy", "from": a, "path": b}, {"op": hx.Pick(r, []string{"copy", "move"}), "from": b, "path": a + "/" + hx.Pick(r, []string{"c", "0", "-"})},
					{"op": "copy", "from": a, "path": a + hx.Pick(r, []string{"/0", "/00", "/x/y", "/-"})}}
			}
			evaluate([]interface{}{patchJSON(ops...)}, "rfc6902-random-list", "", nil)
		default:
			ids := newIDPool(r)
			ps := genPatches(r, 3, ids)
			if r.Chance(1, 3) {
				ps = append(ps, patchReplace([]interface{}{genKeyEntry(r, "rk")}, []interface{}{genService(r, "rs")}))
			}
			t := scramble(r, ref.CopyTree(ps))
			if arr, ok := t.([]interface{}); ok {
				evaluate(arr, "random-mutation-of-valid-patches", "", nil)
			}
		}
	})
	// ---- (3) resolution never applies a delta that validation rejects, wherever the operation comes from: published operations
	// handed straight to the operation store (a store filled by an integrator, operations passed with the resolution request)
	// whose correctly signed delta breaks a structural rule behave like operations without a usable delta
	{
		rr := c.Rng("resolution")
		u := NewUniverse(rr.Split("u"), ref.SHA256, base, []string{"P-256", "Ed25519"})
		u.BuildAlphabet(1, 2)
		cm := func(k *ref.Key) string { return k.Commitment(ref.SHA256) }
		rpc := hx.NewClient(hx.NewVersion(base, hx.VersionOpts{ParserOpts: hx.StrictResolution()}))
		nth := 0
		for _, j := range jobs {
			if j.must == "" || j.proto != nil || !(strings.HasPrefix(j.class, "key-rule") || strings.HasPrefix(j.class, "service-rule") || j.class == "id-charset" || strings.HasPrefix(j.class, "duplicate-id")) {
				continue
			}
			nth++
			if nth%9 != 0 && !c.Thorough() {
				continue
			}
			var H []*ref.Op
			if nth%2 == 0 {
				bad := u.MkSigned("upd-rule-breaking-delta", "update", u.U[0], "", cm(u.U[1]), j.patches, SignedOpts{})
				bad.DeltaStatus = ref.DeltaInvalid
				H = []*ref.Op{Place(u.Ops["C"], 10, 0, "ref0", 0), Place(bad, 20, 1, "ref1", 0), Place(u.Ops["u12"], 30, 0, "ref2", 0), Place(u.Ops["u01"], 40, 2, "ref3", 0)}
			} else {
				bad := u.MkSigned("rec-rule-breaking-delta", "recover", u.R[0], cm(u.R[1]), cm(u.U[1]), j.patches, SignedOpts{})
				bad.DeltaStatus = ref.DeltaInvalid
				H = []*ref.Op{Place(u.Ops["C"], 10, 0, "ref0", 0), Place(bad, 20, 1, "ref1", 0), Place(u.Ops["u12"], 30, 0, "ref2", 0), Place(u.Ops["r12"], 40, 2, "ref3", 0)}
			}
			c.Eval()
			st, merr := ref.Resolve(H, ref.ResolveOpts{})
			rm, err := SUTResolve(rpc, u.Suffix, H, nil)
			if want, got := stKey(st, merr), rmKey(rm, err); want != got {
				c.Violation(fmt.Sprintf("C18 resolution of a history holding a published operation whose delta breaks a structural rule (%s) differs from the reference (the delta must be treated as unusable): %s\n   model:   %s\n   library: %s", j.must, histString(H), want, got),
					map[string]interface{}{"patches": j.patches, "history": replayOps(H), "model": want, "library": got})
				break
			}
			c.Count("resolutions_with_rule_breaking_published_delta")
		}
		c.Floor("resolutions_with_rule_breaking_published_delta", 20)
	}
	c.Set("worker_crashes", pool.Crashes)
	for _, k := range []string{"rejected:key-rule", "rejected:service-rule", "rejected:key-rule-in-replace", "rejected:service-rule-in-replace", "rejected:duplicate-id", "rejected:duplicate-id-kinds", "rejected:action-enablement", "accepted:action-enablement"} {
		c.Floor(k, 4)
	}
	c.Floor("accepted:valid-boundary", 2)
	c.Floor("rejected:id-charset", 150)
	c.Floor("rejected:action-enablement-empty-list", 16)
	c.Floor("applied_ok", 500)
	c.Floor("applied_err", 500)
	for _, k := range kinds {
		c.Floor("accepted:rfc6902-single:"+k.(string), 20)
	}
	_ = json.Valid
}
