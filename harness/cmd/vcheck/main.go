// vcheck: one binary, one sub-command per property.
package main

import (
	"encoding/json"
	"fmt"
	"os"
	"path/filepath"
	"runtime"
	"runtime/debug"
	"sort"
	"strconv"
	"time"

	"github.com/trustbloc/logutil-go/pkg/log"

	"verifharness/hx"
)

type checkFn func(c *hx.Ctx)

type checkDef struct {
	level string
	fn    checkFn
}

var checks = map[string]checkDef{}

func register(id, level string, fn checkFn) { checks[id] = checkDef{level, fn} }

func main() {
	log.SetDefaultLevel(log.PANIC)
	if len(os.Args) >= 2 && os.Args[1] == "worker" {
		workerMain(os.Args[2:])
		return
	}
	if len(os.Args) >= 5 && os.Args[1] == "c16stress" {
		stressMain(os.Args[2:])
		return
	}
	if len(os.Args) < 3 {
		ids := make([]string, 0, len(checks))
		for id := range checks {
			ids = append(ids, id)
		}
		sort.Strings(ids)
		fmt.Fprintf(os.Stderr, "usage: vcheck <id> <quick|thorough> [--replay file]\nchecks: %v\n", ids)
		os.Exit(2)
	}
	id, tier := os.Args[1], os.Args[2]
	def, ok := checks[id]
	if !ok {
		fmt.Fprintf(os.Stderr, "unknown check %s\n", id)
		os.Exit(2)
	}
	c := hx.NewCtx(id, tier, def.level)
	for i := 3; i+1 < len(os.Args); i++ {
		if os.Args[i] == "--replay" {
			// a replay file records the seed and tier of the run that produced the witness; every workload is a function
			// of (seed, tier), so the replay re-runs exactly that workload through the same monitors (the witness itself -
			// requests, coordinates, schedule, files - is stored in the file for inspection)
			var rf struct {
				Seed uint64 `json:"seed"`
				Tier string `json:"tier"`
				What string `json:"what"`
			}
			if b, err := os.ReadFile(os.Args[i+1]); err == nil && json.Unmarshal(b, &rf) == nil && rf.Tier != "" {
				c.Seed, c.Tier = rf.Seed, rf.Tier
				fmt.Printf("replaying %s: seed=%d tier=%s (recorded violation: %.200s)\n", os.Args[i+1], rf.Seed, rf.Tier, rf.What)
			} else {
				fmt.Fprintf(os.Stderr, "cannot read replay file %s\n", os.Args[i+1])
				os.Exit(2)
			}
			c.Set("replay_of", os.Args[i+1])
		}
	}
	curCtx = c
	hx.PanicHook = func(item int, r interface{}, stack string) {
		c.Violation(fmt.Sprintf("%s library code panicked in-process (work item %d): %v", id, item, r), map[string]interface{}{"panic": fmt.Sprint(r), "stack": stack})
	}
	go watchdog(c)
	func() {
		defer func() {
			if r := recover(); r != nil {
				c.Violation(fmt.Sprintf("%s library code panicked in-process: %v", id, r), map[string]interface{}{"panic": fmt.Sprint(r), "stack": string(debug.Stack())})
			}
		}()
		def.fn(c)
	}()
	os.Exit(c.Finish())
}

// watchdog is the generous wall-clock guard around a whole check: when no evaluation, counter or violation has been
// recorded for VERIF_WATCHDOG_MIN minutes (default 45) it writes all goroutine stacks next to the evidence and ends the run
// as inconclusive - never as a violation (non-termination of library calls is decided by logical step budgets instead).
func watchdog(c *hx.Ctx) {
	limit := 45
	if v, err := strconv.Atoi(os.Getenv("VERIF_WATCHDOG_MIN")); err == nil && v > 0 {
		limit = v
	}
	last, idle := c.Progress(), 0
	for {
		time.Sleep(time.Minute)
		if p := c.Progress(); p != last {
			last, idle = p, 0
			continue
		}
		idle++
		if idle >= limit {
			buf := make([]byte, 8<<20)
			buf = buf[:runtime.Stack(buf, true)]
			path := filepath.Join(os.TempDir(), fmt.Sprintf("vcheck-watchdog-%s-%d.txt", c.ID, os.Getpid()))
			_ = os.WriteFile(path, buf, 0o644)
			c.Inconclusive("wall-clock watchdog: no progress for %d minutes (goroutine stacks in %s)", limit, path)
			os.Exit(c.Finish())
		}
	}
}
