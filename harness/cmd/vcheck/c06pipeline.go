package main

import (
	"fmt"
	"sync/atomic"
	"time"

	"github.com/trustbloc/sidetree-core-go/pkg/api/operation"
	"github.com/trustbloc/sidetree-core-go/pkg/api/protocol"
	"github.com/trustbloc/sidetree-core-go/pkg/api/txn"
	"github.com/trustbloc/sidetree-core-go/pkg/dochandler"
	"github.com/trustbloc/sidetree-core-go/pkg/document"
	"github.com/trustbloc/sidetree-core-go/pkg/processor"
	"github.com/trustbloc/sidetree-core-go/pkg/versions/1_0/txnprocessor"

	"verifharness/hx"
	"verifharness/ref"
)

// c06ThroughBatchFiles: the history is produced the way it is in production - batch files written by the REAL operation handler,
// read by the operation provider and stored by the transaction processor - and the result of the latest resolution is recorded
// after every transaction. Later one earlier anchor string is anchored AGAIN (anyone may do that), more operations follow. At the
// end every recorded state must be what its version id and its time resolve to: the past does not change.
func c06ThroughBatchFiles(c *hx.Ctx) {
	n := c.N(60, 1200)
	root := c.Rng("batch-files")
	seeds := make([]uint64, n)
	for i := range seeds {
		seeds[i] = root.U64()
	}
	hx.Parallel(n, 16, func(i int) {
		if c.Violations() > 8 {
			return
		}
		r := hx.NewRng(seeds[i], "c06b")
		p := hx.BaseProtocol()
		p.MaxDeltaSize, p.MaxOperationSize = 9000, 20000
		cas, store := hx.NewMemCAS(), hx.NewOpStore()
		store.KeepPointers = i%2 == 0
		v := hx.NewVersion(p, hx.VersionOpts{CAS: cas, Store: store})
		pc := hx.NewClient(v)
		mk := func(tag string) (*CDid, *BuiltOp) {
			d, cr, err := NewCDid(r.Split(tag), ref.SHA256, []string{hx.Pick(r, ref.KeyTypes), "P-256"}, int64(p.MaxOperationTimeDelta), false,
				[]interface{}{patchAddServices(svcEntry("s"+tag, "web", "https://example.com/"+tag))}, nil, nil, "")
			if err != nil {
				return nil, nil
			}
			d.Suffix = suffixOf(cr.Req, ref.SHA256)
			return d, cr
		}
		X, crX := mk("x")
		Y, crY := mk("y")
		if X == nil || Y == nil {
			c.Violation("C06 client.NewCreateRequest refused valid inputs", nil)
			return
		}
		type item struct {
			d *CDid
			b *BuiltOp
		}
		type rec struct {
			ref, state string
			time       uint64
		}
		var recs []rec
		var anchors []string
		round := 0
		proc := func() *processor.OperationProcessor { return processor.New("verif", store, pc) }
		process := func(anchorString, cref string) bool {
			round++
			t := txn.SidetreeTxn{Namespace: hx.Namespace, AnchorString: anchorString, TransactionTime: uint64(1000 + 100*round), TransactionNumber: uint64(round % 3),
				ProtocolVersion: p.GenesisTime, CanonicalReference: cref}
			if _, err := v.TxnProc.Process(t); err != nil {
				c.Violation(fmt.Sprintf("C06 transaction %s cannot be processed: %v", cref, err), nil)
				return false
			}
			rm, err := proc().Resolve(X.Suffix)
			recs = append(recs, rec{cref, fullKey(rm, err), t.TransactionTime})
			return true
		}
		anchorBatch := func(items []item) bool {
			var q []*operation.QueuedOperation
			for _, it := range items {
				if it.b == nil {
					c.Violation("C06 client builder refused valid inputs", nil)
					return false
				}
				q = append(q, &operation.QueuedOperation{Type: operation.Type(it.b.Desc.Type), OperationRequest: it.b.Req, UniqueSuffix: it.d.Suffix, Namespace: hx.Namespace})
			}
			info, err := v.Handler.PrepareTxnFiles(q)
			if err != nil || len(info.AdditionalOperations) != 0 || len(info.ExpiredOperations) != 0 {
				c.Violation(fmt.Sprintf("C06 batch of client-built requests was not written as a whole: %v", err), nil)
				return false
			}
			anchors = append(anchors, info.AnchorString)
			return process(info.AnchorString, fmt.Sprintf("ref%d", round+1))
		}
		upd := func(d *CDid, tag string) *BuiltOp {
			b, err := d.Update([]interface{}{patchAddServices(svcEntry(tag, "web", "https://example.com/"+tag))}, 0, 0)
			if err != nil {
				return nil
			}
			return b
		}
		c.Eval()
		first := []item{{X, crX}}
		if r.Bool() {
			first = append(first, item{Y, crY})
		}
		if !anchorBatch(first) {
			return
		}
		nBefore := 1 + r.Intn(3)
		for k := 0; k < nBefore; k++ {
			batchItems := []item{{X, upd(X, fmt.Sprint("a", k))}}
			if k == 0 && len(first) == 2 && r.Bool() {
				batchItems = append(batchItems, item{Y, upd(Y, "ya")})
			}
			if !anchorBatch(batchItems) {
				return
			}
		}
		// an earlier anchor string is anchored again
		again := r.Intn(len(anchors))
		if !process(anchors[again], "replay") {
			return
		}
		for k := 0; k < r.Intn(3); k++ {
			if !anchorBatch([]item{{X, upd(X, fmt.Sprint("b", k))}}) {
				return
			}
		}
		replay := map[string]interface{}{"suffix": X.Suffix, "transactions": len(recs), "anchor_string_anchored_again": again + 1, "store_keeps_pointers": store.KeepPointers}
		for k, rc := range recs {
			for qi, q := range []struct {
				name string
				opt  document.ResolutionOption
			}{{"versionId=" + rc.ref, document.WithVersionID(rc.ref)}, {fmt.Sprintf("versionTime=%d", rc.time+50), document.WithVersionTime(rfc3339(rc.time + 50))}} {
				if qi == 0 && rc.ref == "replay" {
					continue // the repeated operations have no effect: their reference need not be a version of the DID
				}
				rm, err := proc().Resolve(X.Suffix, q.opt)
				if got := fullKey(rm, err); got != rc.state {
					c.Violation(fmt.Sprintf("C06 %s does not give the state that was the latest one after transaction %d of %d (anchor string of transaction %d anchored again as transaction %d)\n   then:  %s\n   now:   %s",
						q.name, k+1, len(recs), again+1, nBefore+2, rc.state, got), replay)
					return
				}
			}
		}
		c.Count("histories_through_batch_files_with_repeated_anchor_string")
		c.Distinct(fmt.Sprintf("c06bf|%d|%d|%d|%v", len(recs), again, nBefore, store.KeepPointers))
	})
}

// syncWriter is a batch writer whose Add cuts, anchors and observes the operation before it returns (the fastest possible
// schedule of cutter, anchor writer and observer - a legal one).
type syncWriter struct {
	v     *hx.Version
	p     protocol.Protocol
	round int64
	base  uint64
	err   error
	times []uint64
	refs  []string
}

func (w *syncWriter) Add(op *operation.QueuedOperation, ver uint64) error {
	info, err := w.v.Handler.PrepareTxnFiles([]*operation.QueuedOperation{op})
	if err != nil {
		return err
	}
	k := atomic.AddInt64(&w.round, 1)
	t := txn.SidetreeTxn{Namespace: hx.Namespace, AnchorString: info.AnchorString, TransactionTime: w.base + uint64(1000*k), TransactionNumber: uint64(k % 3),
		ProtocolVersion: ver, CanonicalReference: fmt.Sprintf("ref%d", k)}
	if _, err := w.v.TxnProc.Process(t); err != nil {
		w.err = err
		return err
	}
	w.times = append(w.times, t.TransactionTime)
	w.refs = append(w.refs, t.CanonicalReference)
	return nil
}

// c06FastAnchoring: requests go through DocumentHandler.ProcessOperation with an unpublished-operation store configured
// everywhere; the writer anchors and the observer stores each operation before Add returns. The anchoring times lie well after the
// (wall-clock) submission time. The state recorded after each operation must be what a version time between this and the next
// anchoring resolves to at the end - whatever is left in the unpublished store by then.
func c06FastAnchoring(c *hx.Ctx) {
	n := c.N(40, 600)
	root := c.Rng("fast-anchoring")
	seeds := make([]uint64, n)
	for i := range seeds {
		seeds[i] = root.U64()
	}
	now := uint64(time.Now().Unix())
	hx.Parallel(n, 16, func(i int) {
		if c.Violations() > 8 {
			return
		}
		r := hx.NewRng(seeds[i], "c06f")
		p := hx.BaseProtocol()
		p.MaxDeltaSize, p.MaxOperationSize = 9000, 20000
		cas, store, unpub := hx.NewMemCAS(), hx.NewOpStore(), &recUnpub{}
		v := hx.NewVersion(p, hx.VersionOpts{CAS: cas, Store: store, TxnProcOpts: []txnprocessor.Option{txnprocessor.WithUnpublishedOperationStore(unpub, allOpTypes)}})
		pc := hx.NewClient(v)
		w := &syncWriter{v: v, p: p, base: now + 100000}
		proc := func() *processor.OperationProcessor {
			return processor.New("verif", store, pc, processor.WithUnpublishedOperationStore(unpub))
		}
		dh := dochandler.New(hx.Namespace, nil, pc, w, proc(), hx.NopMetrics{}, dochandler.WithUnpublishedOperationStore(unpub, allOpTypes))
		d, cr, err := NewCDid(r.Split("did"), ref.SHA256, []string{hx.Pick(r, ref.KeyTypes), "P-256"}, int64(p.MaxOperationTimeDelta), false,
			[]interface{}{patchAddServices(svcEntry("s0", "web", "https://example.com/s0"))}, nil, nil, "")
		if err != nil {
			c.Violation("C06 client.NewCreateRequest refused valid inputs: "+err.Error(), nil)
			return
		}
		d.Suffix = suffixOf(cr.Req, ref.SHA256)
		c.Eval()
		var states []string
		submit := func(b *BuiltOp) bool {
			if _, err := dh.ProcessOperation(b.Req, p.GenesisTime); err != nil || w.err != nil {
				c.Violation(fmt.Sprintf("C06 a valid client-built %s was refused by the document handler: %v / %v", b.Desc.Type, err, w.err), nil)
				return false
			}
			rm, err := proc().Resolve(d.Suffix)
			states = append(states, fullKey(rm, err))
			return true
		}
		if !submit(cr) {
			return
		}
		for k := 0; k < 2+r.Intn(3); k++ {
			var b *BuiltOp
			if r.Chance(1, 4) {
				b, err = d.Recover([]interface{}{patchAddServices(svcEntry(fmt.Sprint("r", k), "web", "https://example.com/r"))}, nil, nil, 0, 0)
			} else {
				b, err = d.Update([]interface{}{patchAddServices(svcEntry(fmt.Sprint("u", k), "web", "https://example.com/u"))}, 0, 0)
			}
			if err != nil {
				c.Violation("C06 client builder refused valid inputs: "+err.Error(), nil)
				return
			}
			if !submit(b) {
				return
			}
		}
		replay := map[string]interface{}{"suffix": d.Suffix, "anchoring_times": w.times, "left_in_unpublished_store": unpub.Len()}
		for k, st := range states {
			for _, q := range []struct {
				name string
				opt  document.ResolutionOption
			}{{"versionId=" + w.refs[k], document.WithVersionID(w.refs[k])}, {fmt.Sprintf("versionTime=%d (between anchoring %d and %d)", w.times[k]+500, k+1, k+2), document.WithVersionTime(rfc3339(w.times[k] + 500))}} {
				rm, err := proc().Resolve(d.Suffix, q.opt)
				if got := fullKey(rm, err); got != st {
					c.Violation(fmt.Sprintf("C06 %s does not give the state that was the latest one after operation %d of %d had been anchored (%d operations left in the unpublished store)\n   then:  %s\n   now:   %s",
						q.name, k+1, len(states), unpub.Len(), st, got), replay)
					return
				}
			}
		}
		c.Count("histories_anchored_before_the_handler_returns")
		c.Distinct(fmt.Sprintf("c06fa|%d|%d", len(states), i))
	})
}

// c06OneNodeManyQueries: one operation store that hands out its own slice (like the library's mock store), one unpublished
// store, one processor - and a long series of read-only queries (latest, every version id, every version time, with pending
// unpublished operations stamped inside the anchored time range). Queries are reads: asking them again gives the same answers.
func c06OneNodeManyQueries(c *hx.Ctx, unis []*Universe, p protocol.Protocol, pc protocol.Client) {
	n := c.N(300, 5000)
	root := c.Rng("one-node")
	seeds := make([]uint64, n)
	for i := range seeds {
		seeds[i] = root.U64()
	}
	hx.Parallel(n, 16, func(i int) {
		if c.Violations() > 8 {
			return
		}
		r := hx.NewRng(seeds[i], "c06n")
		u := unis[i%len(unis)]
		var pub, unpub []*ref.Op
		used := map[[2]uint64]bool{}
		nOps := 3 + r.Intn(6)
		for k := 0; k < nOps; k++ {
			l := hx.Pick(r, []string{"u01", "u12", "u02", "r01", "r12", "d0", "d1", "uF", "u20", "Cdup"})
			if k == 0 {
				l = "C"
			}
			if k > 0 && r.Chance(1, 3) {
				unpub = append(unpub, Place(u.Ops[l], uint64(1000+r.Intn(60)), uint64(k), "", p.GenesisTime))
				continue
			}
			var t, num uint64
			for {
				t, num = uint64(1000+r.Intn(12)*5), uint64(r.Intn(5))
				if k == 0 {
					t = 1000
				}
				if !used[[2]uint64{t, num}] {
					used[[2]uint64{t, num}] = true
					break
				}
			}
			pub = append(pub, Place(u.Ops[l], t, num, fmt.Sprintf("ref%d", k), p.GenesisTime))
		}
		store := hx.NewOpStore()
		store.ShareSlice = true
		store.Set(u.Suffix, ToAnchored(u.Suffix, pub))
		var popts []processor.Option
		if len(unpub) > 0 {
			popts = append(popts, processor.WithUnpublishedOperationStore(&unpubStore{ops: ToAnchored(u.Suffix, unpub)}))
		}
		// logical step budget over the whole series (a library that loops is a violation, not a hang of the check)
		bc := &budgetClient{inner: pc}
		proc := processor.New("verif", store, bc, popts...)
		type query struct {
			name string
			opts []document.ResolutionOption
		}
		qs := []query{{"latest", nil}}
		for _, o := range pub {
			qs = append(qs, query{"versionId=" + o.Ref, []document.ResolutionOption{document.WithVersionID(o.Ref)}})
		}
		for t := uint64(999); t <= 1062; t += uint64(1 + r.Intn(4)) {
			qs = append(qs, query{fmt.Sprintf("versionTime=%d", t), []document.ResolutionOption{document.WithVersionTime(rfc3339(t))}})
		}
		qs = append(qs, query{"latest", nil})
		c.Eval()
		bc.budget = int64(2*len(qs)+4) * int64(4*(len(pub)+len(unpub))+16)
		defer func() {
			if x := recover(); x != nil {
				if _, isBudget := x.(resolveBudget); isBudget {
					c.Violation(fmt.Sprintf("C06 a series of version queries on one node did not terminate within its step budget: published [%s] pending [%s]", histString(pub), histString(unpub)),
						map[string]interface{}{"published": replayOps(pub), "pending": replayOps(unpub)})
					return
				}
				panic(x)
			}
		}()
		var first []string
		for pass := 0; pass < 2; pass++ {
			for qi, q := range qs {
				rm, err := proc.Resolve(u.Suffix, q.opts...)
				k := fullKey(rm, err)
				if pass == 0 {
					first = append(first, k)
					if qi == len(qs)-1 && k != first[0] {
						c.Violation(fmt.Sprintf("C06 the latest resolution changed after a series of version queries on the same node (store hands out its own slice): published [%s] pending [%s]\n   before: %s\n   after:  %s",
							histString(pub), histString(unpub), first[0], k), map[string]interface{}{"published": replayOps(pub), "pending": replayOps(unpub)})
						return
					}
					continue
				}
				if k != first[qi] {
					c.Violation(fmt.Sprintf("C06 query %s answered differently when asked again on the same node (store hands out its own slice; queries in between: version ids and version times): published [%s] pending [%s]\n   first:  %s\n   second: %s",
						q.name, histString(pub), histString(unpub), first[qi], k), map[string]interface{}{"published": replayOps(pub), "pending": replayOps(unpub), "query": q.name})
					return
				}
			}
		}
		c.Count("nodes_queried_repeatedly")
		if len(unpub) > 0 {
			c.Count("nodes_queried_repeatedly_with_pending_operations")
		}
	})
}
