package main

// Seeded generators for documents, keys, services and patch lists (valid by construction unless stated).

import (
	"fmt"
	"strings"

	"verifharness/hx"
	"verifharness/ref"
)

var keyTypeTable = []struct {
	Type      string
	Agreement bool // allowed for keyAgreement
	Verif     bool // allowed for authentication, assertionMethod, capabilityDelegation, capabilityInvocation
}{
	{"Bls12381G2Key2020", true, true},
	{"JsonWebKey2020", true, true},
	{"EcdsaSecp256k1VerificationKey2019", true, true},
	{"Ed25519VerificationKey2018", false, true},
	{"Ed25519VerificationKey2020", false, true},
	{"X25519KeyAgreementKey2019", true, false},
}

var verifPurposes = []string{"authentication", "assertionMethod", "capabilityDelegation", "capabilityInvocation"}

const idAlphabet = "ABCDEFGHIJKLMNOPQRSTUVWXYZabcdefghijklmnopqrstuvwxyz0123456789_-"

func genID(r *hx.Rng, prefix string) string {
	n := 1 + r.Intn(12)
	if r.Chance(1, 20) {
		n = 50 - len(prefix)
	}
	var sb strings.Builder
	sb.WriteString(prefix)
	for i := 0; i < n; i++ {
		sb.WriteByte(idAlphabet[r.Intn(len(idAlphabet))])
	}
	s := sb.String()
	if len(s) > 50 {
		s = s[:50]
	}
	return s
}

// genKeyMaterialKey picks a key of fitting type for the verification method type.
func genKeyFor(r *hx.Rng, vmType string) *ref.Key {
	switch vmType {
	case "Ed25519VerificationKey2018", "Ed25519VerificationKey2020":
		return ref.NewKey("Ed25519", "doc", r.Bytes(32))
	case "EcdsaSecp256k1VerificationKey2019":
		return ref.NewKey("secp256k1", "doc", r.Bytes(32))
	}
	return ref.NewKey(hx.Pick(r, []string{"P-256", "Ed25519", "secp256k1", "P-384"}), "doc", r.Bytes(32))
}

// genKeyEntry returns a valid internal public key entry.
func genKeyEntry(r *hx.Rng, id string) map[string]interface{} {
	t := hx.Pick(r, keyTypeTable)
	e := map[string]interface{}{"id": id, "type": t.Type}
	// purposes
	var purposes []interface{}
	if r.Chance(3, 4) {
		for _, p := range verifPurposes {
			if t.Verif && r.Chance(1, 3) {
				purposes = append(purposes, p)
			}
		}
		if t.Agreement && r.Chance(1, 3) {
			purposes = append(purposes, "keyAgreement")
		}
	}
	if len(purposes) > 0 {
		// shuffle
		for i := len(purposes) - 1; i > 0; i-- {
			j := r.Intn(i + 1)
			purposes[i], purposes[j] = purposes[j], purposes[i]
		}
		e["purposes"] = purposes
	}
	k := genKeyFor(r, t.Type)
	useB58 := t.Type != "JsonWebKey2020" && r.Chance(1, 4)
	if useB58 {
		raw := k.EdPub
		if raw == nil {
			raw = r.Bytes(33)
		}
		e["publicKeyBase58"] = ref.Base58(raw)
	} else {
		jwk := k.JWK()
		if k.Type == "Ed25519" {
			delete(jwk, "y")
		}
		e["publicKeyJwk"] = jwk
	}
	return e
}

func genURI(r *hx.Rng) string {
	return hx.Pick(r, []string{"https://example.com/", "http://svc.example/p/", "did:example:123#", "urn:uuid:", "https://xn--bcher-kva.example/"}) + genID(r, "")
}

// genService returns a valid service entry (string, list or object endpoint, optional extra members).
func genService(r *hx.Rng, id string) map[string]interface{} {
	typ := genID(r, "T")
	if len(typ) > 30 {
		typ = typ[:30]
	}
	s := map[string]interface{}{"id": id, "type": typ}
	if r.Chance(1, 15) {
		s["type"] = strings.Repeat("y", 30)
	}
	switch r.Intn(4) {
	case 0, 1:
		s["serviceEndpoint"] = genURI(r)
	case 2:
		s["serviceEndpoint"] = []interface{}{genURI(r), genURI(r)}
	default:
		s["serviceEndpoint"] = map[string]interface{}{"uri": genURI(r), "accept": []interface{}{"didcomm/v2"}}
	}
	if r.Chance(1, 3) {
		s["priority"] = float64(r.Intn(10))
	}
	if r.Chance(1, 4) {
		s["routingKeys"] = []interface{}{genID(r, "rk")}
	}
	return s
}

// genDoc returns a valid opaque document: non-empty well-formed sections, member names without JSON-pointer characters.
func genDoc(r *hx.Rng) map[string]interface{} {
	d := map[string]interface{}{}
	used := map[string]bool{}
	uniq := func(prefix string) string {
		for {
			id := genID(r, prefix)
			if !used[id] {
				used[id] = true
				return id
			}
		}
	}
	if r.Chance(4, 5) {
		var ks []interface{}
		for i := 0; i < 1+r.Intn(4); i++ {
			ks = append(ks, genKeyEntry(r, uniq("k")))
		}
		d["publicKey"] = ks
	}
	if r.Chance(3, 5) {
		var ss []interface{}
		for i := 0; i < 1+r.Intn(3); i++ {
			ss = append(ss, genService(r, uniq("s")))
		}
		d["service"] = ss
	}
	if r.Chance(2, 5) {
		var us []interface{}
		seen := map[string]bool{}
		for i := 0; i < 1+r.Intn(3); i++ {
			u := genURI(r)
			if !seen[u] {
				seen[u] = true
				us = append(us, u)
			}
		}
		d["alsoKnownAs"] = us
	}
	if r.Chance(2, 5) {
		for i := 0; i < 1+r.Intn(2); i++ {
			name := hx.Pick(r, []string{"extra", "customMember", "x-ext", "Ünï", "m 1", "note"})
			d[name] = hx.Pick(r, []interface{}{"text", float64(42), true, map[string]interface{}{"a": []interface{}{float64(1), "b"}}, []interface{}{"l"}})
		}
	}
	if len(d) == 0 {
		d["publicKey"] = []interface{}{genKeyEntry(r, "k0")}
	}
	return d
}

// genPatches returns 1..n valid patches (they may or may not apply to a given document).
func genPatches(r *hx.Rng, n int, ids *idPool) []interface{} {
	var out []interface{}
	for i := 0; i < 1+r.Intn(n); i++ {
		switch r.Intn(8) {
		case 0, 1:
			var ks []map[string]interface{}
			seen := map[string]bool{}
			for k := 0; k < 1+r.Intn(3); k++ {
				id := ids.key(r)
				if !seen[id] {
					seen[id] = true
					ks = append(ks, genKeyEntry(r, id))
				}
			}
			out = append(out, patchAddKeys(ks...))
		case 2:
			out = append(out, patchRemoveKeys(ids.key(r), ids.key(r)))
		case 3:
			var ss []map[string]interface{}
			seen := map[string]bool{}
			for k := 0; k < 1+r.Intn(2); k++ {
				id := ids.svc(r)
				if !seen[id] {
					seen[id] = true
					ss = append(ss, genService(r, id))
				}
			}
			out = append(out, patchAddServices(ss...))
		case 4:
			// one to three ids (present / absent / repeated, often neighbours in the document)
			rm := distinctOf(1+r.Intn(3), func() string { return ids.svc(r) })
			out = append(out, map[string]interface{}{"action": "remove-services", "ids": rm})
		case 5:
			us := distinctOf(1+r.Intn(3), func() string { return ids.uri(r) })
			out = append(out, map[string]interface{}{"action": "add-also-known-as", "uris": us})
		case 6:
			us := distinctOf(1+r.Intn(3), func() string { return ids.uri(r) })
			out = append(out, map[string]interface{}{"action": "remove-also-known-as", "uris": us})
		default:
			out = append(out, patchJSON(map[string]interface{}{"op": "add", "path": "/" + hx.Pick(r, []string{"m1", "m2", "note"}), "value": fmt.Sprint("v", r.Intn(100))}))
		}
	}
	return out
}

// idPool hands out ids from a small pool so that adds hit existing ids and removes hit present/absent ids.
type idPool struct{ keys, svcs, uris []string }

func newIDPool(r *hx.Rng) *idPool {
	p := &idPool{}
	for i := 0; i < 5; i++ {
		p.keys = append(p.keys, genID(r, "k"))
		p.svcs = append(p.svcs, genID(r, "s"))
		p.uris = append(p.uris, genURI(r))
	}
	return p
}
func (p *idPool) key(r *hx.Rng) string { return hx.Pick(r, p.keys) }
func (p *idPool) svc(r *hx.Rng) string { return hx.Pick(r, p.svcs) }
func (p *idPool) uri(r *hx.Rng) string { return hx.Pick(r, p.uris) }

func genOrigin(r *hx.Rng) interface{} {
	switch r.Intn(8) {
	case 6:
		// text that LOOKS like an escape sequence (a real backslash followed by u0026) and characters encoders escape
		return "https://origin.example/?a=1&b=<2>#" + bsu + "0026" + bsu + "003c-" + genID(r, "")
	case 7:
		return map[string]interface{}{"note": "a" + bsu + "003e", "amp&": "<" + genID(r, "") + ">"}
	case 0:
		return nil
	case 1:
		return "https://origin.example/" + genID(r, "")
	case 2:
		return map[string]interface{}{"id": genID(r, "o"), "weight": float64(r.Intn(5))}
	case 3:
		return []interface{}{"a", genID(r, "b")}
	case 4:
		return float64(r.Intn(1000))
	}
	return "ipfs://" + genID(r, "")
}

// distinctOf draws up to n values and keeps the distinct ones in drawing order (lists inside one patch must not repeat a
// value: the validators refuse that).
func distinctOf(n int, draw func() string) []interface{} {
	var out []interface{}
	seen := map[string]bool{}
	for k := 0; k < n; k++ {
		v := draw()
		if !seen[v] {
			seen[v] = true
			out = append(out, v)
		}
	}
	return out
}
