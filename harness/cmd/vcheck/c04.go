package main

import (
	"encoding/json"
	"errors"
	"fmt"

	"github.com/trustbloc/sidetree-core-go/pkg/document"

	"github.com/trustbloc/sidetree-core-go/pkg/api/operation"
	"github.com/trustbloc/sidetree-core-go/pkg/api/txn"
	"github.com/trustbloc/sidetree-core-go/pkg/dochandler"
	"github.com/trustbloc/sidetree-core-go/pkg/processor"

	"verifharness/hx"
	"verifharness/ref"
)

func init() { register("C04", "exploration", checkC04) }

// extensionOps: operations by every key that ever existed in the chain (validly signed), plus creates and forgeries.
func extensionOps(ch *Chain, r *hx.Rng) []*ref.Op {
	code := ch.U.Code
	var out []*ref.Op
	k2 := []interface{}{patchAddServices(svcEntry("ext", "ext", "https://ext.example"))}
	for i, k := range ch.AllU {
		nk := ch.newKey("E")
		out = append(out, ch.U.MkSigned(fmt.Sprintf("X:upd-by-U#%d", i), "update", k, "", nk.Commitment(code), k2, SignedOpts{}))
	}
	for i, k := range ch.AllR {
		nr, nu := ch.newKey("E"), ch.newKey("E")
		out = append(out, ch.U.MkSigned(fmt.Sprintf("X:rec-by-R#%d", i), "recover", k, nr.Commitment(code), nu.Commitment(code), k2, SignedOpts{}))
		out = append(out, ch.U.MkSigned(fmt.Sprintf("X:deact-by-R#%d", i), "deactivate", k, "", "", nil, SignedOpts{}))
	}
	out = append(out, ch.DupCreates("X")...)
	out = append(out, ch.Forgeries("X")...)
	return out
}

func checkC04(c *hx.Ctx) {
	c.Rule("(a) base history ending in an applied deactivate, extended by 1-8 later-anchored or unpublished (time stamp before or after the deactivate) operations drawn from: valid updates/recovers/deactivates by every key that ever existed in the chain, duplicate creates, forgeries; result must stay deactivated/empty/no commitments; (b) the document handler with its default decorator must refuse update, recover and deactivate requests for that DID and record no writer Add / unpublished Put; (c) history containing a recover at (t,n), extended by valid updates anchored before (t,n) signed by the key the recover newly commits to or by older keys: result unchanged; (d) deactivates anchored through real batch files (alone, or next to a create / update of other DIDs), followed by a batch with a validly signed update of the deactivated DID: deactivated after every batch; (e) the deactivate (or superseding recover) anchored after earlier operations that reveal the same key but can never be applied (cycle-closing, self-committing, foreign signature): it still takes effect; (f) create and deactivate both still pending in the unpublished-operation store: reported as deactivated, refused at intake; after version queries on a node whose store hands out its own slice the DID is still deactivated; non-trivial = extension contains at least one validly signed operation")
	// ---- first, before anything else has touched this process: DIDs whose document is empty while they still have an update
	// commitment (recover / create whose delta could not be used) receive valid updates that write into the document; then
	// other DIDs are deactivated. A deactivated DID has an empty document - nothing of another DID's state
	{
		lr := c.Rng("shared-empty-document")
		p := hx.BaseProtocol()
		pc := hx.NewClient(hx.NewVersion(p, hx.VersionOpts{ParserOpts: hx.StrictResolution()}))
		for k := 0; k < 6; k++ {
			a := NewUniverse(lr.Split(fmt.Sprint("a", k)), ref.SHA256, p, []string{"P-256", "Ed25519"})
			a.BuildAlphabet(1, 2)
			cm := func(key *ref.Key) string { return key.Commitment(ref.SHA256) }
			var HA []*ref.Op
			if k%2 == 0 {
				// recover whose patches fail at application: empty document, update commitment c(U1)
				HA = []*ref.Op{Place(a.Ops["C"], 10, 0, "a0", 0), Place(a.Ops["rF"], 20, 0, "a1", 0)}
			} else {
				HA = []*ref.Op{Place(a.Ops["C"], 10, 0, "a0", 0), Place(a.Ops["rI"], 20, 0, "a1", 0), Place(a.Ops["r01"], 15, 0, "a2", 0)}
			}
			st0, _ := ref.Resolve(HA, ref.ResolveOpts{})
			if st0 != nil && st0.UpdateCommitment == cm(a.U[1]) {
				w := a.MkSigned("write-into-empty", "update", a.U[1], "", cm(a.U[2]), []interface{}{patchAddKeys(pubKeyEntry("leak", a.X[0], "authentication")), patchAddServices(svcEntry("leak", "web", "https://leak.example"))}, SignedOpts{})
				HA = append(HA, Place(w, 30, 0, "a9", 0))
			}
			c.Eval()
			stA, merrA := ref.Resolve(HA, ref.ResolveOpts{})
			rmA, errA := SUTResolve(pc, a.Suffix, HA, nil)
			if want, got := stKey(stA, merrA), rmKey(rmA, errA); want != got {
				c.Violation(fmt.Sprintf("C04 (first resolutions of the process) %s\n   model:   %s\n   library: %s", histString(HA), want, got), map[string]interface{}{"history": replayOps(HA)})
				return
			}
			b := NewUniverse(lr.Split(fmt.Sprint("b", k)), ref.SHA256, p, []string{"P-256", "Ed25519"})
			b.BuildAlphabet(1, 2)
			HB := []*ref.Op{Place(b.Ops["C"], 10, 0, "b0", 0), Place(b.Ops["u01"], 15, 0, "b1", 0), Place(b.Ops["d0"], 20, 0, "b2", 0)}
			rmB, errB := SUTResolve(pc, b.Suffix, HB, nil)
			if errB != nil || !rmB.Deactivated || len(rmB.Doc) != 0 || rmB.UpdateCommitment != "" || rmB.RecoveryCommitment != "" {
				c.Violation("C04 a DID deactivated after other DIDs with empty documents had been updated in the same process does not resolve as deactivated / empty / without commitments: "+rmKey(rmB, errB),
					map[string]interface{}{"other_did_history": replayOps(HA), "history": replayOps(HB)})
				return
			}
			c.Count("deactivations_after_updates_of_empty_documents")
		}
	}
	nCases := c.N(500, 6000)
	root := c.Rng("cases")
	seeds := make([]uint64, nCases)
	for i := range seeds {
		seeds[i] = root.U64()
	}
	hx.Parallel(nCases, 16, func(i int) {
		r := hx.NewRng(seeds[i], "c04")
		p := hx.BaseProtocol()
		types := []string{"Ed25519", "P-256"}
		if i%6 == 0 {
			types = ref.KeyTypes
		}
		pc := hx.NewClient(hx.NewVersion(p, hx.VersionOpts{ParserOpts: hx.StrictResolution()}))
		if i%3 == 0 {
			// operations stay stamped with version 0 while a stricter version becomes current during the history
			pc = hx.NewClientWithTrap(hx.NewVersion(p, hx.VersionOpts{ParserOpts: hx.StrictResolution()}), 1015)
			c.Count("histories_crossing_the_genesis_of_a_stricter_version")
		}
		intakePC := hx.NewClient(hx.NewVersion(p, hx.VersionOpts{}))
		if i%2 == 0 {
			// ---- (a) + (b): deactivation is terminal
			ch := RandomChain(r.Split("chain"), ref.SHA256, p, types, r.Intn(5), true)
			alloc := &coordAlloc{}
			H := placeLegit(r, ch, alloc)
			lastT := H[len(H)-1].Time
			pool := extensionOps(ch, r)
			var E []*ref.Op
			valid := 0
			for k := 0; k < 1+r.Intn(8); k++ {
				e := hx.Pick(r, pool)
				if e.Authorised {
					valid++
				}
				if r.Chance(1, 4) {
					// unpublished (no canonical reference); its time stamp is the intake time, which may lie before or after the
					// anchoring time of the deactivate - published operations take precedence either way
					ut := uint64(9000 + k)
					if r.Bool() {
						ut = uint64(990 + r.Intn(int(lastT)-980))
					}
					E = append(E, Place(e, ut, uint64(k), "", p.GenesisTime))
					c.Count("unpublished_extension_ops")
				} else {
					t, n, id := alloc.take(r, lastT, lastT+40)
					if t == lastT && n <= H[len(H)-1].Number {
						t++
					}
					E = append(E, Place(e, t, n, id, p.GenesisTime))
				}
			}
			c.Eval()
			rmH, errH := SUTResolve(pc, ch.U.Suffix, H, nil)
			all := append(append([]*ref.Op{}, H...), E...)
			rmE, errE := SUTResolve(pc, ch.U.Suffix, all, nil)
			replay := map[string]interface{}{"suffix": ch.U.Suffix, "base": replayOps(H), "extension": replayOps(E)}
			if errH != nil || !rmH.Deactivated || len(rmH.Doc) != 0 || rmH.UpdateCommitment != "" || rmH.RecoveryCommitment != "" {
				c.Violation("C04 applied deactivate does not resolve as deactivated/empty/no commitments: "+histString(H)+" -> "+rmKey(rmH, errH), replay)
				return
			}
			if kH, kE := rmKey(rmH, errH), rmKey(rmE, errE); kH != kE {
				replay["base_result"], replay["extended_result"] = kH, kE
				c.Violation(fmt.Sprintf("C04 operations after a deactivate changed the resolution: ext=[%s] base=[%s]\n   base:     %s\n   extended: %s", histString(E), histString(H), kH, kE), replay)
				return
			}
			c.Count("deactivated_histories")
			if valid > 0 {
				c.Distinct("deact|" + histString(all))
			}
			// ---- (b) intake refusal through the real DocumentHandler
			store := hx.NewOpStore()
			var pubOps, unpubOps []*ref.Op
			for _, o := range all {
				if o.Published() {
					pubOps = append(pubOps, o)
				} else {
					unpubOps = append(unpubOps, o)
				}
			}
			store.Set(ch.U.Suffix, ToAnchored(ch.U.Suffix, pubOps))
			unpub := &recUnpub{ops: ToAnchored(ch.U.Suffix, unpubOps)}
			proc := processor.New("verif", store, pc, processor.WithUnpublishedOperationStore(unpub))
			// the node is first asked for earlier versions of the DID (its store hands out its own slice, like the library's mock
			// store): questions about the past do not bring the DID back to life
			store.ShareSlice = true
			for _, o := range pubOps {
				for _, T := range []uint64{o.Time - 1, o.Time} {
					_, _ = proc.Resolve(ch.U.Suffix, document.WithVersionTime(rfc3339(T)))
				}
				_, _ = proc.Resolve(ch.U.Suffix, document.WithVersionID(o.Ref))
			}
			rmQ, errQ := proc.Resolve(ch.U.Suffix)
			if kQ, kE := rmKey(rmQ, errQ), rmKey(rmE, errE); kQ != kE {
				c.Violation(fmt.Sprintf("C04 after version queries on the same node the deactivated DID resolves differently: stored=[%s]\n   before: %s\n   after:  %s", histString(all), kE, kQ),
					map[string]interface{}{"suffix": ch.U.Suffix, "stored": replayOps(all)})
				return
			}
			c.Count("deactivated_nodes_queried_for_earlier_versions")
			w := &hx.RecWriter{}
			dh := dochandler.New(hx.Namespace, nil, intakePC, w, proc, hx.NopMetrics{}, dochandler.WithUnpublishedOperationStore(unpub, allOpTypes))
			for _, e := range pool {
				if e.Type == "create" || !e.Authorised {
					continue
				}
				c.Count("intake_attempts:" + e.Type)
				_, err := dh.ProcessOperation(e.Request, p.GenesisTime)
				if err == nil || w.Calls() != 0 || unpub.puts != unpub.deletes {
					c.Violation(fmt.Sprintf("C04 document handler accepted a %s for a deactivated DID (err=%v, writer adds=%d, unpublished puts=%d deletes=%d): op %s", e.Type, err, w.Calls(), unpub.puts, unpub.deletes, e.Label),
						map[string]interface{}{"suffix": ch.U.Suffix, "stored": replayOps(all), "request": string(e.Request)})
					return
				}
			}
			// the long form of the deactivated DID (it carries the create request) never makes the DID look alive: neither when
			// the anchored history is readable, nor when the operation store cannot be read, nor for an unknown version
			{
				var init map[string]interface{}
				_ = json.Unmarshal(H[0].Request, &init)
				delete(init, "type")
				long := hx.Namespace + ":" + ch.U.Suffix + ":" + ref.B64(ref.MustJCS(init))
				lstore := hx.NewOpStore()
				lstore.Set(ch.U.Suffix, ToAnchored(ch.U.Suffix, pubOps))
				ldh := dochandler.New(hx.Namespace, nil, intakePC, &hx.RecWriter{}, processor.New("verif", lstore, pc), hx.NopMetrics{})
				alive := func(res *document.ResolutionResult, err error) bool {
					if err != nil || res == nil {
						return false
					}
					md, _ := roundTrip(res.DocumentMetadata).(map[string]interface{})
					return md["deactivated"] != true
				}
				c.Eval()
				if res, err := ldh.ResolveDocument(long); alive(res, err) {
					c.Violation("C04 the long-form DID of a deactivated DID resolves as an active document", map[string]interface{}{"did": long, "stored": replayOps(pubOps)})
					return
				}
				lstore.GetErr = func(string) error { return errors.New("injected store read failure: connection refused") }
				if res, err := ldh.ResolveDocument(long); alive(res, err) {
					c.Violation("C04 while the operation store cannot be read, the long-form DID of a deactivated DID resolves as an active document from its embedded create request", map[string]interface{}{"did": long, "stored": replayOps(pubOps)})
					return
				}
				lstore.GetErr = nil
				if res, err := ldh.ResolveDocument(long, document.WithVersionID("no-such-version")); alive(res, err) {
					c.Violation("C04 the long-form DID of a deactivated DID resolves as an active document when an unknown version id is requested", map[string]interface{}{"did": long, "stored": replayOps(pubOps)})
					return
				}
				c.Count("long_form_of_deactivated_did")
			}
			if i < 2 {
				c.Sample(3, map[string]interface{}{"kind": "deactivate-terminal", "base": histString(H), "extension": histString(E)})
			}
			return
		}
		// ---- (c) recover supersedes everything before it
		ch := NewChain(r.Split("chain"), ref.SHA256, p, types)
		pre := r.Intn(3)
		for k := 0; k < pre; k++ {
			ch.Step("update")
		}
		oldU := append([]*ref.Key{}, ch.AllU...)
		ch.Step("recover")
		recIdx := len(ch.Legit) - 1
		newU := ch.CurU
		post := r.Intn(3)
		for k := 0; k < post; k++ {
			ch.Step("update")
		}
		alloc := &coordAlloc{}
		H := placeLegit(r, ch, alloc)
		rec := H[recIdx]
		// early updates: anchored at or before the recover's transaction, validly signed
		var E []*ref.Op
		code := ch.U.Code
		mkEarly := func(label string, k *ref.Key) {
			nk := ch.newKey("E")
			o := ch.U.MkSigned(label, "update", k, "", nk.Commitment(code), []interface{}{patchAddServices(svcEntry("early", "early", "https://early.example"))}, SignedOpts{})
			var t, n uint64
			var id string
			if r.Bool() && rec.Number > 0 {
				// same time, smaller number
				t, n = rec.Time, uint64(r.Intn(int(rec.Number)))
				if alloc.used[[2]uint64{t, n}] {
					t, n, id = alloc.take(r, rec.Time-19, rec.Time-1)
				} else {
					alloc.used[[2]uint64{t, n}] = true
					alloc.n++
					id = fmt.Sprintf("ref%d", alloc.n)
				}
			} else {
				t, n, id = alloc.take(r, 995, rec.Time-1)
			}
			E = append(E, Place(o, t, n, id, p.GenesisTime))
		}
		mkEarly("X:early-upd-by-newU", newU)
		if r.Bool() {
			mkEarly("X:early-upd-by-newU-2", newU)
		}
		for k, ok := range oldU {
			if r.Chance(1, 2) {
				mkEarly(fmt.Sprintf("X:early-upd-by-oldU#%d", k), ok)
			}
		}
		c.Eval()
		rmH, errH := SUTResolve(pc, ch.U.Suffix, H, r.Perm(len(H)))
		all := append(append([]*ref.Op{}, H...), E...)
		rmE, errE := SUTResolve(pc, ch.U.Suffix, all, r.Perm(len(all)))
		kH, kE := rmKey(rmH, errH), rmKey(rmE, errE)
		replay := map[string]interface{}{"suffix": ch.U.Suffix, "base": replayOps(H), "extension": replayOps(E)}
		if kH != kE {
			replay["base_result"], replay["extended_result"] = kH, kE
			c.Violation(fmt.Sprintf("C04 an update anchored at or before a recover was applied on top of it: early=[%s] base=[%s]\n   base:     %s\n   extended: %s", histString(E), histString(H), kH, kE), replay)
			return
		}
		st, merr := ref.Resolve(H, ref.ResolveOpts{})
		if km := stKey(st, merr); km != kH {
			replay["model"], replay["library"] = km, kH
			c.Violation(fmt.Sprintf("C04 history with recover does not resolve to the reference state (document must consist solely of the recover's content plus later updates): [%s]\n   model:   %s\n   library: %s", histString(H), km, kH), replay)
			return
		}
		c.Count("recover_histories")
		if post == 0 {
			c.Count("recover_is_last_op")
		}
		c.Distinct("rec|" + histString(all))
		if i < 3 {
			c.Sample(3, map[string]interface{}{"kind": "recover-supersedes", "base": histString(H), "early_updates": histString(E), "result": kH})
		}
	})
	c04DeactivatedBeforeAnchoring(c)
	c.Floor("dids_deactivated_before_anything_was_anchored", 20)
	c04ThroughBatchFiles(c)
	c04AfterInapplicableCompetitor(c)
	c.Floor("deactivate_after_inapplicable_competitor", 40)
	c.Floor("deactivations_through_batch_files", 40)
	c.Floor("deactivated_nodes_queried_for_earlier_versions", 100)
	c.Floor("deactivations_after_updates_of_empty_documents", 4)
	c.Floor("deactivated_histories", 100)
	c.Floor("long_form_of_deactivated_did", 50)
	c.Floor("histories_crossing_the_genesis_of_a_stricter_version", 50)
	c.Floor("unpublished_extension_ops", 50)
	c.Floor("recover_histories", 100)
	c.Floor("intake_attempts:update", 50)
	c.Floor("intake_attempts:recover", 50)
	c.Floor("intake_attempts:deactivate", 50)
}

// c04ThroughBatchFiles: the deactivate reaches the operation store the way it does in production - batch files written by the
// REAL OperationHandler, read back by the OperationProvider and stored by the TxnProcessor - alone in its batch or next to a
// create / update of other DIDs, followed by a batch with a validly signed update of the deactivated DID (built before the
// deactivation). After the deactivating batch and after every later one the DID resolves as deactivated, like the model.
func c04ThroughBatchFiles(c *hx.Ctx) {
	n := c.N(80, 1500)
	root := c.Rng("batch-files")
	seeds := make([]uint64, n)
	for i := range seeds {
		seeds[i] = root.U64()
	}
	hx.Parallel(n, 16, func(i int) {
		if c.Violations() > 8 {
			return
		}
		r := hx.NewRng(seeds[i], "c04b")
		p := hx.BaseProtocol()
		p.MaxDeltaSize, p.MaxOperationSize = 9000, 20000
		cas, store := hx.NewMemCAS(), hx.NewOpStore()
		v := hx.NewVersion(p, hx.VersionOpts{CAS: cas, Store: store})
		pc := hx.NewClient(v)
		mkDid := func(tag string) (*CDid, *BuiltOp) {
			d, cr, err := NewCDid(r.Split(tag), ref.SHA256, []string{hx.Pick(r, ref.KeyTypes), "P-256"}, int64(p.MaxOperationTimeDelta), false,
				[]interface{}{patchAddServices(svcEntry("s"+tag, "web", "https://example.com/"+tag))}, nil, nil, "")
			if err != nil {
				return nil, nil
			}
			d.Suffix = suffixOf(cr.Req, ref.SHA256)
			return d, cr
		}
		X, crX := mkDid("x")
		Y, crY := mkDid("y")
		Z, crZ := mkDid("z")
		if X == nil || Y == nil || Z == nil {
			c.Violation("C04 client.NewCreateRequest refused valid inputs", nil)
			return
		}
		upd := func(d *CDid, tag string) *BuiltOp {
			b, err := d.Update([]interface{}{patchAddServices(svcEntry(tag, "web", "https://example.com/"+tag))}, 0, 0)
			if err != nil {
				return nil
			}
			return b
		}
		type item struct {
			d *CDid
			b *BuiltOp
		}
		H := map[*CDid][]*ref.Op{}
		round := 0
		replay := map[string]interface{}{}
		anchorBatch := func(items []item) bool {
			round++
			var q []*operation.QueuedOperation
			var kinds []string
			for _, it := range items {
				if it.b == nil {
					c.Violation("C04 client builder refused valid inputs", nil)
					return false
				}
				q = append(q, &operation.QueuedOperation{Type: operation.Type(it.b.Desc.Type), OperationRequest: it.b.Req, UniqueSuffix: it.d.Suffix, Namespace: hx.Namespace})
				kinds = append(kinds, it.b.Desc.Type)
			}
			c.Eval()
			replay["round"], replay["batch"] = round, kinds
			info, err := v.Handler.PrepareTxnFiles(q)
			if err != nil || len(info.AdditionalOperations) != 0 || len(info.ExpiredOperations) != 0 {
				c.Violation(fmt.Sprintf("C04 batch %v of client-built requests (one per DID) was not written as a whole: %v", kinds, err), replay)
				return false
			}
			for _, it := range items {
				H[it.d] = append(H[it.d], Place(it.b.Desc, uint64(1000+10*round), uint64(round%3), fmt.Sprintf("ref%d", round), p.GenesisTime))
			}
			t := txn.SidetreeTxn{Namespace: hx.Namespace, AnchorString: info.AnchorString, TransactionTime: uint64(1000 + 10*round), TransactionNumber: uint64(round % 3),
				ProtocolVersion: p.GenesisTime, CanonicalReference: fmt.Sprintf("ref%d", round)}
			if _, err := v.TxnProc.Process(t); err != nil {
				c.Violation(fmt.Sprintf("C04 anchored batch %v cannot be processed: %v", kinds, err), replay)
				return false
			}
			for _, d := range []*CDid{X, Y, Z} {
				if len(H[d]) == 0 {
					continue
				}
				st, merr := ref.Resolve(H[d], ref.ResolveOpts{})
				rm, err := processor.New("verif", store, pc).Resolve(d.Suffix)
				if want, got := stKey(st, merr), rmKey(rm, err); want != got {
					replay["history"] = replayOps(H[d])
					c.Violation(fmt.Sprintf("C04 operations anchored through batch files (batch %d = %v): history %s\n   model:   %s\n   library: %s", round, kinds, histString(H[d]), want, got), replay)
					return false
				}
			}
			return true
		}
		if !anchorBatch([]item{{X, crX}, {Z, crZ}}) {
			return
		}
		for k := 0; k < r.Intn(3); k++ {
			if !anchorBatch([]item{{X, upd(X, fmt.Sprint("pre", k))}}) {
				return
			}
		}
		late := upd(X, "late") // validly signed for the state before the deactivation, anchored after it
		de, err := X.Deactivate(0, 0)
		if err != nil || late == nil {
			c.Violation("C04 client builder refused valid inputs", nil)
			return
		}
		var deBatch []item
		switch i % 4 {
		case 0:
			deBatch = []item{{X, de}}
		case 1:
			deBatch = []item{{X, de}, {Y, crY}}
		case 2:
			deBatch = []item{{X, de}, {Z, upd(Z, "z1")}}
		default:
			deBatch = []item{{Y, crY}, {X, de}, {Z, upd(Z, "z1")}}
		}
		shuffled := make([]item, len(deBatch))
		for a, b := range r.Perm(len(deBatch)) {
			shuffled[a] = deBatch[b]
		}
		deBatch = shuffled
		if !anchorBatch(deBatch) {
			return
		}
		lateBatch := []item{{X, late}}
		if r.Bool() {
			lateBatch = append(lateBatch, item{Z, upd(Z, "z2")})
		}
		if !anchorBatch(lateBatch) {
			return
		}
		rm, err := processor.New("verif", store, pc).Resolve(X.Suffix)
		if err != nil || rm == nil || !rm.Deactivated || rm.UpdateCommitment != "" || rm.RecoveryCommitment != "" {
			replay["history"] = replayOps(H[X])
			c.Violation(fmt.Sprintf("C04 a DID deactivated through batch files (deactivating batch shape %d) does not resolve as deactivated after a later update: %s (err=%v)", i%4, rmKey(rm, err), err), replay)
			return
		}
		c.Count("deactivations_through_batch_files")
		c.Count(fmt.Sprintf("deactivating_batch_shape:%d", i%4))
		c.Distinct(fmt.Sprintf("c04bf|%d|%v", i%4, labelsOf(H[X])))
	})
}

// c04AfterInapplicableCompetitor: the deactivate (or the superseding recover) is not the first operation anchored for its
// commitment - earlier ones reveal the same key but can never be applied (they commit to an already consumed commitment or to
// their own key, carry a foreign signature, a tampered payload ...). They consume nothing: the later valid deactivate still
// deactivates, and a validly signed update anchored after it has no effect.
func c04AfterInapplicableCompetitor(c *hx.Ctx) {
	n := c.N(60, 1000)
	root := c.Rng("inapplicable-competitor")
	seeds := make([]uint64, n)
	for i := range seeds {
		seeds[i] = root.U64()
	}
	hx.Parallel(n, 16, func(i int) {
		if c.Violations() > 8 {
			return
		}
		r := hx.NewRng(seeds[i], "c04c")
		p := hx.BaseProtocol()
		pc := hx.NewClient(hx.NewVersion(p, hx.VersionOpts{ParserOpts: hx.StrictResolution()}))
		u := NewUniverse(r.Split("u"), ref.SHA256, p, []string{hx.Pick(r, ref.KeyTypes), "P-256"})
		u.BuildAlphabet(1, 2)
		var labels []string
		wantDeact := true
		switch i % 6 {
		case 0:
			labels = []string{"C", "r01", "r10", "d1", "u12"}
		case 1:
			labels = []string{"C", "r01", "r10", "r10", "d1", "u12", "r12"}
		case 2:
			labels = []string{"C", hx.Pick(r, []string{"r00", "rS", "rR", "rTI", "rSB"}), hx.Pick(r, []string{"r00", "rS", "dS", "dR"}), "d0", "u01", "r01"}
		case 3:
			// the superseding recover in the same position; the deactivate follows later
			labels = []string{"C", "r01", "r10", "r12", "r20", "u20"}
			wantDeact = false
		case 4:
			// the DID's document is empty when the deactivate arrives (its only create carries a delta that does not match the
			// signed hash): still a DID with a recovery commitment, still deactivated by its owner
			labels = []string{"Cdup", "d0", "r01"}
		default:
			// empty after a recover whose delta cannot be used; deactivated by the key that recover committed to
			labels = []string{"C", "rF", "d1", "u12", "r12"}
		}
		var ops []*ref.Op
		t := uint64(10)
		for k, l := range labels {
			o := u.Ops[l]
			if o == nil {
				c.Violation("C04 harness: unknown alphabet label "+l, nil)
				return
			}
			t += uint64(1 + r.Intn(5))
			ops = append(ops, Place(o, t, uint64(r.Intn(4)), fmt.Sprintf("ref%d", k), 0))
		}
		c.Eval()
		st, merr := ref.Resolve(ops, ref.ResolveOpts{})
		if merr != nil || st.Deactivated != wantDeact {
			c.Violation(fmt.Sprintf("C04 harness: the model does not give the expected end state for %s", histString(ops)), nil)
			return
		}
		want := stKey(st, merr)
		for k := 0; k < 3; k++ {
			rm, err := SUTResolve(pc, u.Suffix, ops, r.Perm(len(ops)))
			if got := rmKey(rm, err); got != want {
				c.Violation(fmt.Sprintf("C04 a valid deactivate / recover anchored after operations that reveal the same key but can never be applied did not take effect: %s\n   model:   %s\n   library: %s", histString(ops), want, got),
					map[string]interface{}{"suffix": u.Suffix, "ops": replayOps(ops), "model": want, "library": got})
				return
			}
		}
		c.Count("deactivate_after_inapplicable_competitor")
		c.Distinct("c04ic|" + histString(ops))
	})
}

// c04DeactivatedBeforeAnchoring: create and deactivate are both still pending (unpublished-operation store on handler and
// processor, nothing anchored yet). The DID is already dead: the resolution result says so (deactivated, empty document, no
// commitments), and the handler refuses further operations for it.
func c04DeactivatedBeforeAnchoring(c *hx.Ctx) {
	r := c.Rng("pending-deactivate")
	for i := 0; i < c.N(30, 300); i++ {
		p := hx.BaseProtocol()
		u := NewUniverse(r.Split(fmt.Sprint(i)), ref.SHA256, p, []string{hx.Pick(r, ref.KeyTypes), "P-256"})
		u.BuildAlphabet(1, 2)
		pc := hx.NewClient(hx.NewVersion(p, hx.VersionOpts{}))
		pending := []*ref.Op{Place(u.Ops["C"], 5000, 0, "", 0)}
		if i%3 == 1 {
			pending = append(pending, Place(u.Ops["u01"], 5001, 0, "", 0))
		}
		pending = append(pending, Place(u.Ops["d0"], 5002, 0, "", 0))
		unpub := &recUnpub{ops: ToAnchored(u.Suffix, pending)}
		proc := processor.New("verif", hx.NewOpStore(), pc, processor.WithUnpublishedOperationStore(unpub))
		w := &hx.RecWriter{}
		dh := dochandler.New(hx.Namespace, nil, pc, w, proc, hx.NopMetrics{}, dochandler.WithUnpublishedOperationStore(unpub, allOpTypes))
		c.Eval()
		replay := map[string]interface{}{"suffix": u.Suffix, "pending": replayOps(pending)}
		res, err := dh.ResolveDocument(hx.Namespace + ":" + u.Suffix)
		if err != nil {
			c.Violation("C04 a DID whose create and deactivate are both pending does not resolve: "+err.Error(), replay)
			return
		}
		got, _ := roundTrip(res).(map[string]interface{})
		md, _ := got["didDocumentMetadata"].(map[string]interface{})
		method, _ := md["method"].(map[string]interface{})
		doc, _ := got["didDocument"].(map[string]interface{})
		replay["result"] = got
		if md["deactivated"] != true || method["updateCommitment"] != nil || method["recoveryCommitment"] != nil || doc["verificationMethod"] != nil || doc["service"] != nil {
			c.Violation(fmt.Sprintf("C04 a DID deactivated before anything was anchored is not reported as deactivated / empty / without commitments: deactivated=%v commitments=(%v, %v)", md["deactivated"], method["updateCommitment"], method["recoveryCommitment"]), replay)
			return
		}
		if _, err := dh.ProcessOperation(u.Ops["r01"].Request, p.GenesisTime); err == nil || w.Calls() != 0 {
			c.Violation("C04 the handler accepted a recover for a DID that was deactivated before anything was anchored", replay)
			return
		}
		c.Count("dids_deactivated_before_anything_was_anchored")
	}
}
