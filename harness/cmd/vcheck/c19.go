package main

import (
	"encoding/json"
	"fmt"
	"sort"
	"strings"
	"sync"

	"github.com/trustbloc/sidetree-core-go/pkg/api/operation"
	"github.com/trustbloc/sidetree-core-go/pkg/api/protocol"
	"github.com/trustbloc/sidetree-core-go/pkg/dochandler"
	"github.com/trustbloc/sidetree-core-go/pkg/document"
	"github.com/trustbloc/sidetree-core-go/pkg/processor"
	"github.com/trustbloc/sidetree-core-go/pkg/versions/1_0/doctransformer/didtransformer"

	"verifharness/hx"
	"verifharness/ref"
)

func init() { register("C19", "exploration", checkC19) }

// compareProjection checks one transformation result against the independent projection. Returns "" if equal.
func compareProjection(res *document.ResolutionResult, internal map[string]interface{}, did string, o ref.ProjOpts, mi ref.MetaIn, wantPub, wantUnpub int) string {
	got, _ := roundTrip(res).(map[string]interface{})
	if got == nil {
		return "result does not serialize to a JSON object"
	}
	doc, _ := got["didDocument"].(map[string]interface{})
	if doc == nil {
		return "result has no didDocument"
	}
	want, err := ref.ProjectDoc(internal, did, o)
	if err != nil {
		return "skip:" + err.Error()
	}
	if _, has := doc["publicKey"]; has {
		return "the internal publicKey section appears in the external document"
	}
	gotCtx, _ := doc["@context"].([]interface{})
	delete(doc, "@context")
	set := func(xs []interface{}) []string {
		var out []string
		for _, x := range xs {
			out = append(out, string(ref.MustJCS(x)))
		}
		sort.Strings(out)
		return out
	}
	if a, b := set(gotCtx), set(want.Contexts); fmt.Sprint(a) != fmt.Sprint(b) {
		return fmt.Sprintf("@context members differ: got %v, expected %v", a, b)
	}
	if a, b := string(ref.MustJCS(doc)), string(ref.MustJCS(roundTrip(want.Doc))); a != b {
		return fmt.Sprintf("external document differs\n   got:      %s\n   expected: %s", trunc600(a), trunc600(b))
	}
	md, _ := got["didDocumentMetadata"].(map[string]interface{})
	if md == nil {
		return "result has no didDocumentMetadata"
	}
	method, _ := md["method"].(map[string]interface{})
	if method == nil {
		return "metadata has no method section"
	}
	pubOps, _ := method["publishedOperations"].([]interface{})
	unpubOps, _ := method["unpublishedOperations"].([]interface{})
	if len(pubOps) != wantPub || len(unpubOps) != wantUnpub {
		return fmt.Sprintf("operation lists in metadata: got %d published / %d unpublished, expected %d / %d", len(pubOps), len(unpubOps), wantPub, wantUnpub)
	}
	delete(method, "publishedOperations")
	delete(method, "unpublishedOperations")
	if a, b := string(ref.MustJCS(md)), string(ref.MustJCS(roundTrip(ref.ProjectMeta(mi)))); a != b {
		return fmt.Sprintf("document metadata differs\n   got:      %s\n   expected: %s", trunc600(a), trunc600(b))
	}
	if got["@context"] != "https://w3id.org/did-resolution/v1" {
		return fmt.Sprintf("resolution result context is %v", got["@context"])
	}
	return ""
}

func genInternalDoc(r *hx.Rng) map[string]interface{} {
	d := map[string]interface{}{}
	nKeys := r.Intn(7)
	var ks []interface{}
	for i := 0; i < nKeys; i++ {
		id := fmt.Sprintf("key%d-%s", i, genID(r, ""))
		if len(id) > 50 {
			id = id[:50]
		}
		ks = append(ks, genKeyEntry(r, id))
	}
	if ks != nil || r.Bool() {
		d["publicKey"] = ks
	}
	var ss []interface{}
	for i := 0; i < r.Intn(5); i++ {
		ss = append(ss, genService(r, fmt.Sprintf("svc%d", i)))
	}
	if ss != nil {
		d["service"] = ss
	}
	if r.Chance(1, 2) {
		var us []interface{}
		for i := 0; i < 1+r.Intn(3); i++ {
			us = append(us, genURI(r))
		}
		d["alsoKnownAs"] = us
	}
	if r.Chance(1, 3) {
		d["customMember"] = "ignored by the DID transformer"
	}
	return d
}

func minInt(a, b int) int {
	if a < b {
		return a
	}
	return b
}

func checkC19(c *hx.Ctx) {
	c.Rule("generated internal documents (0-6 keys over every verification-method type x purpose subset permitted by the type table, JWK or base58 material, Ed25519 2018/2020 re-encoding, 0-4 services with string / list / object endpoints and extra members, aliases, custom members), random resolution models (commitments present/absent, anchor origins of several JSON shapes, deactivated, version id, created/updated times, operation lists) and transformer options (base, 0-6 method contexts, operation-list flags, published flag, canonical/equivalent ids); each transformer instance serves many documents and EVERY result is re-checked after all later transformations (also from concurrent goroutines) against an independent projection; a slice goes through DocumentHandler.ResolveDocument (anchored DIDs by short and by long form, and long forms of unregistered DIDs through handlers with label / domain options: id, short-form equivalent ids, unpublished); non-trivial = document with >= 1 key or service; distinct = distinct (document, options)")
	nTransf := c.N(700, 12000)
	perTransf := 20
	root := c.Rng("cases")
	seeds := make([]uint64, nTransf)
	for i := range seeds {
		seeds[i] = root.U64()
	}
	hx.Parallel(nTransf, 16, func(ti int) {
		if c.Violations() > 8 {
			return
		}
		r := hx.NewRng(seeds[ti], "c19")
		o := ref.ProjOpts{Base: r.Bool()}
		for k := 0; k < ti%7; k++ {
			o.MethodCtx = append(o.MethodCtx, fmt.Sprintf("https://method.example/ctx/%d", k))
		}
		incPub, incUnpub := r.Bool(), r.Bool()
		tr := didtransformer.New(didtransformer.WithBase(o.Base), didtransformer.WithMethodContext(o.MethodCtx),
			didtransformer.WithIncludePublishedOperations(incPub), didtransformer.WithIncludeUnpublishedOperations(incUnpub))
		type held struct {
			res      *document.ResolutionResult
			internal map[string]interface{}
			did      string
			mi       ref.MetaIn
			nPub     int
			nUnpub   int
			info     protocol.TransformationInfo
		}
		var all []held
		var mu sync.Mutex
		gen := func(rr *hx.Rng) held {
			internal := genInternalDoc(rr)
			did := hx.Namespace + ":" + genID(rr, "EiD")
			mi := ref.MetaIn{Published: rr.Bool(), Deactivated: rr.Chance(1, 5), AnchorOrigin: genOrigin(rr)}
			if rr.Chance(3, 4) {
				mi.UpdateCommitment = "EiU" + genID(rr, "")
			}
			if rr.Chance(3, 4) {
				mi.RecoveryCommitment = "EiR" + genID(rr, "")
			}
			if rr.Chance(2, 3) {
				mi.VersionID = "ref-" + genID(rr, "")
			}
			if rr.Chance(2, 3) {
				mi.UpdatedTime = uint64(1 + rr.Intn(2000000000))
			}
			mi.CreatedTime = uint64(rr.Intn(2000000000))
			info := protocol.TransformationInfo{document.IDProperty: did, document.PublishedProperty: mi.Published}
			if rr.Chance(2, 3) {
				mi.CanonicalID = did + ":canonical"
				info[document.CanonicalIDProperty] = mi.CanonicalID
			}
			if rr.Chance(2, 3) {
				eq := []string{did + ":eq1", did + ":eq2"}
				info[document.EquivalentIDProperty] = eq
				mi.EquivalentID = []interface{}{eq[0], eq[1]}
			}
			h := held{internal: internal, did: did, mi: mi, info: info}
			if incPub {
				h.nPub = rr.Intn(3)
			}
			if incUnpub {
				h.nUnpub = rr.Intn(3)
			}
			return h
		}
		mkRM := func(h held, rr *hx.Rng) *protocol.ResolutionModel {
			b, _ := json.Marshal(h.internal)
			doc, _ := document.FromBytes(b)
			rm := &protocol.ResolutionModel{Doc: doc, UpdateCommitment: h.mi.UpdateCommitment, RecoveryCommitment: h.mi.RecoveryCommitment,
				AnchorOrigin: h.mi.AnchorOrigin, Deactivated: h.mi.Deactivated, VersionID: h.mi.VersionID, CreatedTime: h.mi.CreatedTime, UpdatedTime: h.mi.UpdatedTime}
			np, nu := h.nPub, h.nUnpub
			if !incPub {
				np = rr.Intn(3) // present in the model but must not be reported
			}
			if !incUnpub {
				nu = rr.Intn(3)
			}
			for k := 0; k < np; k++ {
				rm.PublishedOperations = append(rm.PublishedOperations, &operation.AnchoredOperation{Type: "update", UniqueSuffix: "s", OperationRequest: []byte("{}"), TransactionTime: uint64(k), CanonicalReference: fmt.Sprint("r", k)})
			}
			if incPub && np >= 2 && rr.Chance(1, 3) {
				// the same published operations handed over twice (e.g. from the store and as additional operations), all anchored
				// in one transaction so that sorting does not put the copies next to each other: each is reported once
				for _, o := range rm.PublishedOperations {
					o.TransactionTime, o.TransactionNumber = 7, 1
				}
				for k := 0; k < np; k++ {
					cp := *rm.PublishedOperations[k]
					rm.PublishedOperations = append(rm.PublishedOperations, &cp)
				}
				c.Count("models_with_repeated_published_operations")
			}
			for k := 0; k < nu; k++ {
				rm.UnpublishedOperations = append(rm.UnpublishedOperations, &operation.AnchoredOperation{Type: "update", UniqueSuffix: "s", OperationRequest: []byte("{}"), TransactionTime: uint64(100 + k)})
			}
			return rm
		}
		run := func(h held, rr *hx.Rng) bool {
			c.Eval()
			res, err := tr.TransformDocument(mkRM(h, rr), h.info)
			replay := map[string]interface{}{"internal": h.internal, "did": h.did, "base": o.Base, "method_contexts": o.MethodCtx, "meta": h.mi}
			if err != nil {
				c.Violation("C19 TransformDocument failed on a valid internal document: "+err.Error(), replay)
				return false
			}
			h.res = res
			if why := compareProjection(res, h.internal, h.did, o, h.mi, h.nPub, h.nUnpub); why != "" && why[:5] != "skip:" {
				replay["result"] = roundTrip(res)
				c.Violation("C19 "+why, replay)
				return false
			}
			// the same resolved state transformed again (same model object): still a faithful projection, and the model's
			// internal document is left as it was
			if rr.Chance(1, 3) {
				rm := mkRM(h, rr)
				before := string(ref.MustJCS(roundTrip(rm.Doc)))
				for pass := 0; pass < 3; pass++ {
					c.Eval()
					again, err := tr.TransformDocument(rm, h.info)
					if err != nil {
						c.Violation("C19 repeated transformation of the same resolution model failed: "+err.Error(), replay)
						return false
					}
					exp := h
					exp.nPub, exp.nUnpub = 0, 0
					if incPub {
						refs := map[string]bool{}
						for _, o := range rm.PublishedOperations {
							refs[o.CanonicalReference] = true
						}
						exp.nPub = len(refs)
					}
					if incUnpub {
						exp.nUnpub = len(rm.UnpublishedOperations)
					}
					if why := compareProjection(again, h.internal, h.did, o, h.mi, exp.nPub, exp.nUnpub); why != "" && why[:5] != "skip:" {
						replay["result"] = roundTrip(again)
						c.Violation(fmt.Sprintf("C19 transformation number %d of the same resolution model: %s", pass+1, why), replay)
						return false
					}
				}
				if after := string(ref.MustJCS(roundTrip(rm.Doc))); after != before {
					c.Violation("C19 TransformDocument modified the internal document of the resolution model\n   before: "+trunc600(before)+"\n   after:  "+trunc600(after), replay)
					return false
				}
				c.Count("same_model_transformed_repeatedly")
			}
			mu.Lock()
			all = append(all, h)
			mu.Unlock()
			return true
		}
		// sequential part
		for k := 0; k < perTransf/2; k++ {
			if !run(gen(r), r) {
				return
			}
		}
		// concurrent part on the same transformer
		var wg sync.WaitGroup
		for g := 0; g < 4; g++ {
			wg.Add(1)
			rg := r.Split(fmt.Sprint("g", g))
			go func() {
				defer wg.Done()
				for k := 0; k < perTransf/8+1; k++ {
					run(gen(rg), rg)
				}
			}()
		}
		wg.Wait()
		// re-check every retained result after all later transformations
		for _, h := range all {
			c.Eval()
			if why := compareProjection(h.res, h.internal, h.did, o, h.mi, h.nPub, h.nUnpub); why != "" && why[:5] != "skip:" {
				c.Violation("C19 an earlier transformation result changed after later transformations on the same transformer: "+why,
					map[string]interface{}{"internal": h.internal, "did": h.did, "base": o.Base, "method_contexts": o.MethodCtx, "result_now": roundTrip(h.res)})
				return
			}
			if len(h.internal) > 0 {
				c.Distinct(h.did + string(mustJSON(h.internal)))
			}
			c.Count("rechecked_after_later_calls")
			ks, _ := h.internal["publicKey"].([]interface{})
			for _, k := range ks {
				km := k.(map[string]interface{})
				c.Count("key_type:" + km["type"].(string))
				if _, ok := km["publicKeyBase58"]; ok {
					c.Count("material:base58")
				} else {
					c.Count("material:jwk")
				}
			}
		}
		if ti == 0 && len(all) > 0 {
			c.Sample(2, map[string]interface{}{"internal": all[0].internal, "did": all[0].did, "base": o.Base, "external": roundTrip(all[0].res)})
		}
	})
	// ---- slice through the real DocumentHandler.ResolveDocument
	nRes := c.N(600, 12000)
	rseeds := make([]uint64, nRes)
	for i := range rseeds {
		rseeds[i] = root.U64()
	}
	hx.Parallel(nRes, 16, func(i int) {
		if c.Violations() > 8 {
			return
		}
		r := hx.NewRng(rseeds[i], "res")
		p := hx.BaseProtocol()
		p.MaxDeltaSize, p.MaxOperationSize = 9000, 20000
		o := ref.ProjOpts{Base: r.Bool()}
		v := hx.NewVersion(p, hx.VersionOpts{TransfOpts: []didtransformer.Option{didtransformer.WithBase(o.Base)}})
		pc := hx.NewClient(v)
		d, cr, err := NewCDid(r.Split("d"), ref.SHA256, []string{"P-256", "Ed25519"}, 300, false, nil, genDoc(r), genOrigin(r), "")
		if err != nil {
			c.Violation("C19 client create failed: "+err.Error(), nil)
			return
		}
		d.Suffix = suffixOf(cr.Req, ref.SHA256)
		H := []*ref.Op{Place(cr.Desc, 1000, 1, "cref0", 0)}
		ids := newIDPool(r)
		for k := 0; k < r.Intn(3); k++ {
			b, err := d.Update(genPatches(r, 2, ids), 0, 0)
			if err != nil {
				return
			}
			H = append(H, Place(b.Desc, uint64(1100+100*k), 1, fmt.Sprint("cref", k+1), 0))
		}
		if r.Chance(1, 4) {
			b, _ := d.Deactivate(0, 0)
			H = append(H, Place(b.Desc, 5000, 1, "crefD", 0))
		}
		store := hx.NewOpStore()
		anch := ToAnchored(d.Suffix, H)
		withEq := i%2 == 0
		if withEq {
			// the ledger knows equivalent locations of every transaction
			for k, a := range anch {
				a.EquivalentReferences = []string{fmt.Sprintf("eq%da", k), fmt.Sprintf("eq%db", k)}
			}
		}
		store.Set(d.Suffix, anch)
		var popts []processor.Option
		if i%3 == 1 && !d.Deact {
			// an accepted operation that is not anchored yet (unpublished-operation store): the DID is still a published one
			if b, err := d.Update(genPatches(r, 2, ids), 0, 0); err == nil {
				pending := Place(b.Desc, 9000, 0, "", 0)
				H = append(H, pending)
				popts = append(popts, processor.WithUnpublishedOperationStore(&unpubStore{ops: ToAnchored(d.Suffix, []*ref.Op{pending})}))
				c.Count("published_dids_with_a_pending_operation")
			}
		}
		dh := dochandler.New(hx.Namespace, nil, pc, &hx.RecWriter{}, processor.New("verif", store, pc, popts...), hx.NopMetrics{})
		did := hx.Namespace + ":" + d.Suffix
		st, merr := ref.Resolve(H, ref.ResolveOpts{})
		replay := map[string]interface{}{"history": replayOps(H), "did": did}
		canonical := ""
		var eqIDs []interface{}
		if merr == nil {
			canonical = hx.Namespace + ":" + st.CanonicalRef + ":" + d.Suffix
			eqIDs = []interface{}{canonical}
			if withEq {
				eqIDs = append(eqIDs, hx.Namespace+":eq0a:"+d.Suffix, hx.Namespace+":eq0b:"+d.Suffix) // those of the create (no recover in these histories)
			}
		}
		// the same DID is resolved three times through the same handler and store (the store hands out the operations it holds):
		// every resolution must give the same, correct result
		for round := 0; round < 3; round++ {
			c.Eval()
			res, err := dh.ResolveDocument(did)
			if err != nil || merr != nil {
				c.Violation(fmt.Sprintf("C19 ResolveDocument failed (err=%v, model err=%v, resolution #%d)", err, merr, round+1), replay)
				return
			}
			mi := ref.MetaIn{UpdateCommitment: st.UpdateCommitment, RecoveryCommitment: st.RecoveryCommitment, AnchorOrigin: st.AnchorOrigin, Deactivated: st.Deactivated,
				Published: true, VersionID: st.VersionID, CreatedTime: st.CreatedTime, UpdatedTime: st.UpdatedTime, CanonicalID: canonical, EquivalentID: eqIDs}
			if why := compareProjection(res, ref.NormalizeDoc(st.Doc), did, o, mi, 0, 0); why != "" && why[:5] != "skip:" {
				replay["result"] = roundTrip(res)
				c.Violation(fmt.Sprintf("C19 DocumentHandler.ResolveDocument (resolution #%d of the same DID): %s", round+1, why), replay)
				return
			}
		}
		// the anchored DID requested through its long form (the create request travels along): same document, qualified with the
		// DID itself - not with the long form -, same metadata
		{
			var tree map[string]interface{}
			if json.Unmarshal(cr.Req, &tree) == nil {
				long := did + ":" + ref.B64(ref.MustJCS(map[string]interface{}{"suffixData": tree["suffixData"], "delta": tree["delta"]}))
				c.Eval()
				res, err := dh.ResolveDocument(long)
				if err != nil {
					c.Violation(fmt.Sprintf("C19 an anchored DID does not resolve through its long form: %v", err), replay)
					return
				}
				mi := ref.MetaIn{UpdateCommitment: st.UpdateCommitment, RecoveryCommitment: st.RecoveryCommitment, AnchorOrigin: st.AnchorOrigin, Deactivated: st.Deactivated,
					Published: true, VersionID: st.VersionID, CreatedTime: st.CreatedTime, UpdatedTime: st.UpdatedTime, CanonicalID: canonical, EquivalentID: eqIDs}
				if why := compareProjection(res, ref.NormalizeDoc(st.Doc), did, o, mi, 0, 0); why != "" && why[:5] != "skip:" {
					replay["result"], replay["requested"] = roundTrip(res), long
					c.Violation("C19 an anchored DID requested through its long form: "+why, replay)
					return
				}
				c.Count("anchored_dids_resolved_through_their_long_form")
			}
		}
		if withEq {
			c.Count("resolved_through_handler_with_equivalent_references")
		}
		c.Count("resolved_through_handler")
		// the same create as the long form of a DID that is not registered anywhere, through handlers configured with the rarely
		// used label / domain options: the document id is the requested DID, the metadata says "not published", has no canonical
		// id and lists as equivalent ids the SHORT forms only: <ns>[:<label>]:<suffix> and, with a domain, the form with the
		// domain hint (<ns>:<domain>:<label>:<suffix>, or the labelled form again when the label already carries the domain)
		if i%2 == 1 {
			var tree map[string]interface{}
			if json.Unmarshal(cr.Req, &tree) != nil {
				return
			}
			seg := ref.B64(ref.MustJCS(map[string]interface{}{"suffixData": tree["suffixData"], "delta": tree["delta"]}))
			domain := "https:dom.example"
			for ci, cfg := range []struct{ label, domain string }{{"", ""}, {"interim", ""}, {"interim", domain}, {domain + ":interim", domain}, {"", domain}} {
				var hopts []dochandler.Option
				if cfg.label != "" {
					hopts = append(hopts, dochandler.WithLabel(cfg.label))
				}
				if cfg.domain != "" {
					hopts = append(hopts, dochandler.WithDomain(cfg.domain))
				}
				dhU := dochandler.New(hx.Namespace, nil, pc, &hx.RecWriter{}, processor.New("verif", hx.NewOpStore(), pc), hx.NopMetrics{}, hopts...)
				short := hx.Namespace + ":" + d.Suffix
				if cfg.label != "" {
					short = hx.Namespace + ":" + cfg.label + ":" + d.Suffix
				}
				want := []interface{}{short}
				if cfg.label != "" && cfg.domain != "" {
					if strings.Contains(cfg.label, cfg.domain) {
						want = append(want, short)
					} else {
						want = append(want, hx.Namespace+":"+cfg.domain+":"+cfg.label+":"+d.Suffix)
					}
				}
				long := short + ":" + seg
				c.Eval()
				res, err := dhU.ResolveDocument(long)
				rp := map[string]interface{}{"did": long, "label": cfg.label, "domain": cfg.domain}
				if err != nil {
					c.Violation("C19 long form of a valid, unregistered create does not resolve: "+err.Error(), rp)
					return
				}
				got, _ := roundTrip(res).(map[string]interface{})
				doc, _ := got["didDocument"].(map[string]interface{})
				md, _ := got["didDocumentMetadata"].(map[string]interface{})
				method, _ := md["method"].(map[string]interface{})
				rp["result"] = got
				if doc == nil || doc["id"] != long {
					c.Violation(fmt.Sprintf("C19 long-form resolution (handler configuration %d): document id is %v, requested DID %s", ci, doc["id"], trunc600(long)), rp)
					return
				}
				if a, b := string(ref.MustJCS(md["equivalentId"])), string(ref.MustJCS(want)); a != b {
					c.Violation(fmt.Sprintf("C19 long-form resolution (label %q, domain %q): equivalent ids are not the short forms of the DID\n   got:      %s\n   expected: %s", cfg.label, cfg.domain, trunc600(a), b), rp)
					return
				}
				if _, has := md["canonicalId"]; has || method == nil || method["published"] != false {
					c.Violation(fmt.Sprintf("C19 long-form resolution of an unregistered DID: canonical id present (%v) or not reported as unpublished (%v)", has, method["published"]), rp)
					return
				}
				c.Count("long_form_resolved_through_configured_handler")
			}
		}
	})
	for _, t := range keyTypeTable {
		c.Floor("key_type:"+t.Type, 20)
	}
	c.Floor("material:base58", 20)
	c.Floor("material:jwk", 100)
	c.Floor("rechecked_after_later_calls", 1000)
	c.Floor("resolved_through_handler", 50)
	c.Floor("anchored_dids_resolved_through_their_long_form", 50)
	c.Floor("long_form_resolved_through_configured_handler", 100)
	c.Floor("published_dids_with_a_pending_operation", 20)
	c.Floor("models_with_repeated_published_operations", 20)
	c.Floor("resolved_through_handler_with_equivalent_references", 20)
	c.Floor("same_model_transformed_repeatedly", 100)
}
