package main

// Recording / fault-injecting implementations of the interfaces the batch writer asks its caller to provide,
// and the offline checker E1-E6 over the recorded event log (DESIGN Appendix A.2).

import (
	"errors"
	"fmt"
	"strings"
	"sync"
	"sync/atomic"

	"github.com/trustbloc/sidetree-core-go/pkg/api/operation"
	"github.com/trustbloc/sidetree-core-go/pkg/api/protocol"
	"github.com/trustbloc/sidetree-core-go/pkg/api/txn"
	"github.com/trustbloc/sidetree-core-go/pkg/batch"
	"github.com/trustbloc/sidetree-core-go/pkg/batch/cutter"
	"github.com/trustbloc/sidetree-core-go/pkg/batch/opqueue"
)

// wev is one writer-log event.
type wev struct {
	Seq   int64
	G     string // goroutine tag
	Kind  string // add.call add.ret q.len q.peek q.remove q.ack q.nack prepare.call prepare.ret cas.write anchor.call anchor.ret step.call step.ret inject
	IDs   []string
	N     int
	Ver   uint64
	Err   string
	Force bool
	Extra string
	// for q.* events recorded as operations: call sequence number (return = Seq)
	CallSeq int64
}

type wlog struct {
	mu  sync.Mutex
	seq int64
	evs []wev
}

func (l *wlog) next() int64 { return atomic.AddInt64(&l.seq, 1) }

func (l *wlog) add(e wev) {
	e.Seq = l.next()
	l.mu.Lock()
	l.evs = append(l.evs, e)
	l.mu.Unlock()
}

func (l *wlog) addAt(e wev) {
	l.mu.Lock()
	l.evs = append(l.evs, e)
	l.mu.Unlock()
}

func opID(q *operation.QueuedOperation) string {
	for _, p := range q.Properties {
		if p.Key == "id" {
			return fmt.Sprint(p.Value)
		}
	}
	return string(q.OperationRequest)
}

// yieldFn is called at every yield point (between the library's critical sections).
type yieldFn func(point string)

// recQueue wraps the REAL in-memory queue.
type recQueue struct {
	inner cutter.OperationQueue
	log   *wlog
	yield yieldFn
	tag   func() string
	// busy counts batches that have been taken out of the queue and not yet acknowledged / returned; it is raised BEFORE the
	// inner Remove and lowered AFTER the ack / nack event has been logged, so that "queue empty and busy == 0" means that no
	// operation is anywhere between the queue and the log
	busy int32
}

func newRecQueue(l *wlog, y yieldFn) *recQueue {
	return &recQueue{inner: &opqueue.MemQueue{}, log: l, yield: y, tag: func() string { return "w" }}
}

func idsOf(ops operation.QueuedOperationsAtTime) []string {
	out := make([]string, len(ops))
	for i, o := range ops {
		out[i] = opID(&o.QueuedOperation)
	}
	return out
}

func (q *recQueue) Add(data *operation.QueuedOperation, v uint64) (uint, error) {
	cs := q.log.next()
	n, err := q.inner.Add(data, v)
	q.log.add(wev{Kind: "q.add", IDs: []string{opID(data)}, N: int(n), Ver: v, CallSeq: cs, Err: errStr(err)})
	return n, err
}

func (q *recQueue) Len() uint {
	q.yield("q.len")
	cs := q.log.next()
	n := q.inner.Len()
	q.log.add(wev{Kind: "q.len", N: int(n), CallSeq: cs})
	return n
}

func (q *recQueue) Peek(num uint) (operation.QueuedOperationsAtTime, error) {
	q.yield("q.peek")
	cs := q.log.next()
	ops, err := q.inner.Peek(num)
	q.log.add(wev{Kind: "q.peek", IDs: idsOf(ops), N: int(num), CallSeq: cs, Err: errStr(err)})
	return ops, err
}

func (q *recQueue) Remove(num uint) (operation.QueuedOperationsAtTime, func() uint, func(error), error) {
	q.yield("q.remove")
	cs := q.log.next()
	atomic.AddInt32(&q.busy, 1)
	ops, ack, nack, err := q.inner.Remove(num)
	if err != nil || ack == nil {
		atomic.AddInt32(&q.busy, -1)
	}
	vers := make([]string, len(ops))
	for i, o := range ops {
		vers[i] = fmt.Sprint(o.ProtocolVersion)
	}
	q.log.add(wev{Kind: "q.remove", IDs: idsOf(ops), N: int(num), CallSeq: cs, Err: errStr(err), Extra: strings.Join(vers, ",")})
	return ops, func() uint {
			q.yield("q.ack")
			cs := q.log.next()
			n := ack()
			q.log.add(wev{Kind: "q.ack", N: int(n), CallSeq: cs})
			atomic.AddInt32(&q.busy, -1)
			return n
		}, func(e error) {
			q.yield("q.nack")
			cs := q.log.next()
			nack(e)
			q.log.add(wev{Kind: "q.nack", CallSeq: cs})
			atomic.AddInt32(&q.busy, -1)
		}, err
}

func errStr(err error) string {
	if err == nil {
		return ""
	}
	return err.Error()
}

// stubHandler is a small OperationHandler with the contract of the real one: one operation per suffix, surplus
// returned as additional, operations marked expired returned as expired; it writes nFiles CAS files per batch.
type stubHandler struct {
	log    *wlog
	yield  yieldFn
	cas    func(batchIDs []string, k int) error // fault plan for the k-th CAS write of this batch
	nFiles int
	ver    uint64
}

func (h *stubHandler) PrepareTxnFiles(ops []*operation.QueuedOperation) (*protocol.AnchoringInfo, error) {
	h.yield("prepare")
	ids := make([]string, len(ops))
	for i, o := range ops {
		ids[i] = opID(o)
	}
	h.log.add(wev{Kind: "prepare.call", IDs: ids, Ver: h.ver})
	seen := map[string]bool{}
	info := &protocol.AnchoringInfo{}
	var inc []string
	for _, o := range ops {
		expired := false
		for _, p := range o.Properties {
			if p.Key == "expired" {
				expired = true
			}
		}
		switch {
		case expired:
			info.ExpiredOperations = append(info.ExpiredOperations, o)
		case seen[o.UniqueSuffix]:
			info.AdditionalOperations = append(info.AdditionalOperations, o)
		default:
			seen[o.UniqueSuffix] = true
			inc = append(inc, opID(o))
			info.OperationReferences = append(info.OperationReferences, &operation.Reference{UniqueSuffix: o.UniqueSuffix, Type: o.Type})
		}
	}
	for k := 1; k <= h.nFiles; k++ {
		h.yield(fmt.Sprintf("cas.write.%d", k))
		if h.cas != nil {
			if err := h.cas(ids, k); err != nil {
				h.log.add(wev{Kind: "cas.write", N: k, Err: err.Error()})
				h.log.add(wev{Kind: "prepare.ret", Err: err.Error()})
				return nil, err
			}
		}
		h.log.add(wev{Kind: "cas.write", N: k})
	}
	info.AnchorString = fmt.Sprintf("%d.%s", len(inc), strings.Join(inc, "+"))
	var add, exp []string
	for _, o := range info.AdditionalOperations {
		add = append(add, opID(o))
	}
	for _, o := range info.ExpiredOperations {
		exp = append(exp, opID(o))
	}
	h.log.add(wev{Kind: "prepare.ret", IDs: inc, Extra: strings.Join(add, ",") + "|" + strings.Join(exp, ","), Ver: h.ver})
	return info, nil
}

// recAnchor is the AnchorWriter.
type recAnchor struct {
	log   *wlog
	yield yieldFn
	fail  func(anchor string, call int) error
	calls int64
	Seen  []string
	mu    sync.Mutex
}

func (a *recAnchor) WriteAnchor(anchor string, _ []*protocol.AnchorDocument, refs []*operation.Reference, ver uint64) error {
	a.yield("anchor")
	call := int(atomic.AddInt64(&a.calls, 1))
	a.log.add(wev{Kind: "anchor.call", Extra: anchor, Ver: ver, N: len(refs)})
	if a.fail != nil {
		if err := a.fail(anchor, call); err != nil {
			a.log.add(wev{Kind: "anchor.ret", Extra: anchor, Ver: ver, Err: err.Error()})
			return err
		}
	}
	a.mu.Lock()
	a.Seen = append(a.Seen, anchor)
	a.mu.Unlock()
	a.log.add(wev{Kind: "anchor.ret", Extra: anchor, Ver: ver})
	return nil
}

func (a *recAnchor) Read(int) (bool, *txn.SidetreeTxn) { return false, nil }

// handlerVersion is a protocol.Version exposing only what the writer uses.
type handlerVersion struct {
	p protocol.Protocol
	h protocol.OperationHandler
}

func (v *handlerVersion) Version() string                                   { return fmt.Sprint(v.p.GenesisTime) }
func (v *handlerVersion) Protocol() protocol.Protocol                       { return v.p }
func (v *handlerVersion) TransactionProcessor() protocol.TxnProcessor       { return nil }
func (v *handlerVersion) OperationParser() protocol.OperationParser         { return nil }
func (v *handlerVersion) OperationApplier() protocol.OperationApplier       { return nil }
func (v *handlerVersion) OperationHandler() protocol.OperationHandler       { return v.h }
func (v *handlerVersion) OperationProvider() protocol.OperationProvider     { return nil }
func (v *handlerVersion) DocumentComposer() protocol.DocumentComposer       { return nil }
func (v *handlerVersion) DocumentValidator() protocol.DocumentValidator     { return nil }
func (v *handlerVersion) DocumentTransformer() protocol.DocumentTransformer { return nil }

// writerCtx implements batch.Context.
type writerCtx struct {
	pc protocol.Client
	a  *recAnchor
	q  cutter.OperationQueue
}

func (c *writerCtx) Protocol() protocol.Client             { return c.pc }
func (c *writerCtx) Anchor() batch.AnchorWriter            { return c.a }
func (c *writerCtx) OperationQueue() cutter.OperationQueue { return c.q }

var errInjected = errors.New("injected fault")

// ---------------------------------------------------------------------------------------------
// offline checker

type opInfo struct {
	ver     uint64
	suffix  string
	expired bool
}

// checkWriterLog verifies E1-E6 on a complete, quiescent log. sequential=true also replays the queue model exactly (E2).
func checkWriterLog(evs []wev, ops map[string]opInfo, accepted map[string]bool, maxCount int, sequential bool) []string {
	var bad []string
	fail := func(f string, a ...interface{}) {
		if len(bad) < 6 {
			bad = append(bad, fmt.Sprintf(f, a...))
		}
	}
	anchoredCnt := map[string]int{}
	expiredCnt := map[string]int{}
	var model []string    // sequential queue replay
	var inflight []string // removed, not yet acked/nacked
	var curInc, curAdd, curExp []string
	var curBatch []string
	anchorOK := false
	forced := false
	inStep := false
	lastLen := -1
	type removal struct {
		n        int
		boundary bool
		forced   bool
		stepIdx  int
		max      int
	}
	var removals []removal
	stepIdx := 0
	readds := map[string]int{}
	for _, e := range evs {
		switch e.Kind {
		case "upgrade":
			maxCount = e.N // the current protocol version changed: its MaxOperationCount governs every later cut
		case "step.call":
			inStep, forced = true, e.Force
			stepIdx++
		case "step.ret":
			inStep = false
		case "q.add":
			if e.Err == "" {
				model = append(model, e.IDs[0])
				if inflight != nil && anchorOK {
					readds[e.IDs[0]]++
				}
			}
		case "q.len":
			lastLen = e.N
			if sequential && e.N != len(model) {
				fail("E2: queue length %d, sequential model has %d", e.N, len(model))
			}
		case "q.peek":
			if sequential {
				n := e.N
				if n > len(model) {
					n = len(model)
				}
				if strings.Join(e.IDs, ",") != strings.Join(model[:n], ",") {
					fail("E2: peek(%d) returned %v, head of the queue is %v", e.N, e.IDs, model[:n])
				}
			}
		case "q.remove":
			n := len(e.IDs)
			if sequential {
				if n > len(model) || strings.Join(e.IDs, ",") != strings.Join(model[:n], ",") {
					fail("E2: remove returned %v which is not the head of the queue %v (FIFO order)", e.IDs, model)
				} else {
					model = model[n:]
				}
			}
			inflight = append([]string{}, e.IDs...)
			curBatch = e.IDs
			anchorOK = false
			curInc, curAdd, curExp = nil, nil, nil
			if n > maxCount {
				fail("E3: batch of %d operations exceeds MaxOperationCount %d", n, maxCount)
			}
			vers := map[uint64]bool{}
			for _, id := range e.IDs {
				vers[ops[id].ver] = true
			}
			if len(vers) > 1 {
				fail("E4: batch %v mixes operations queued under different protocol versions %v", e.IDs, e.Extra)
			}
			boundary := false
			if sequential && len(model) > 0 && n > 0 && ops[model[0]].ver != ops[e.IDs[0]].ver {
				boundary = true
			}
			removals = append(removals, removal{n, boundary, forced && inStep, stepIdx, maxCount})
			if sequential && n < maxCount && !boundary && !(forced && inStep) {
				fail("E5: undersized batch %v (max %d) cut by a monitor tick with no protocol-version boundary behind it", e.IDs, maxCount)
			}
			if sequential && !forced && lastLen >= 0 && lastLen < maxCount && n > 0 {
				fail("E5: batch cut by a monitor tick although only %d < %d operations were pending", lastLen, maxCount)
			}
		case "prepare.call":
			if strings.Join(e.IDs, ",") != strings.Join(curBatch, ",") {
				fail("E2: handler received %v, the queue removed %v", e.IDs, curBatch)
			}
			for _, id := range e.IDs {
				if ops[id].ver != e.Ver {
					fail("E4: operation %s queued under version %d handled by version %d", id, ops[id].ver, e.Ver)
				}
			}
		case "prepare.ret":
			if e.Err == "" {
				curInc = e.IDs
				parts := strings.SplitN(e.Extra, "|", 2)
				if parts[0] != "" {
					curAdd = strings.Split(parts[0], ",")
				}
				if len(parts) > 1 && parts[1] != "" {
					curExp = strings.Split(parts[1], ",")
				}
			}
		case "anchor.call":
			for _, id := range curBatch {
				if ops[id].ver != e.Ver {
					fail("E4: batch with operation %s (version %d) anchored under version %d", id, ops[id].ver, e.Ver)
				}
			}
		case "anchor.ret":
			if e.Err == "" {
				anchorOK = true
				for _, id := range curInc {
					anchoredCnt[id]++
				}
			}
		case "q.ack":
			if !anchorOK {
				fail("E2: batch %v acknowledged although its anchor was not written", curBatch)
			}
			for _, id := range curExp {
				expiredCnt[id]++
			}
			for _, id := range curAdd {
				if readds[id] < 1 {
					fail("E6: deferred operation %s was not re-queued before the batch was acknowledged", id)
				}
				readds[id]--
			}
			inflight = nil
			anchorOK = false
		case "q.nack":
			if anchorOK {
				fail("E1: batch %v returned to the queue although its anchor was written (would be anchored twice)", curBatch)
			}
			if sequential {
				model = append(append([]string{}, inflight...), model...)
			}
			inflight = nil
		}
	}
	// E5 (second half): inside a forced step an undersized non-boundary batch must be the last cut of that step
	for i, r := range removals {
		if r.forced && r.n < r.max && !r.boundary && sequential {
			for _, later := range removals[i+1:] {
				if later.stepIdx == r.stepIdx && later.n > 0 {
					fail("E5: undersized batch was cut before the last cut of a timeout step")
				}
			}
		}
	}
	for id := range accepted {
		a, x := anchoredCnt[id], expiredCnt[id]
		switch {
		case ops[id].expired && (a != 0 || x != 1):
			fail("E1: expired operation %s anchored %d times / discarded %d times (expected 0 / 1)", id, a, x)
		case !ops[id].expired && a != 1:
			fail("E1: accepted operation %s anchored %d times (expected exactly once)", id, a)
		case !ops[id].expired && x != 0:
			fail("E1: operation %s discarded as expired although it is not", id)
		}
	}
	for id, n := range anchoredCnt {
		if !accepted[id] && n > 0 {
			fail("E1: operation %s anchored although its Add was refused", id)
		}
	}
	if sequential && len(model) != 0 {
		fail("progress: %d operations still queued after the bounded drain: %v", len(model), model)
	}
	return bad
}
