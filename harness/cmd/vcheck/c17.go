package main

import (
	"encoding/json"
	"fmt"
	"strings"
	"time"

	"verifharness/hx"
	"verifharness/ref"
)

func init() { register("C17", "exploration", checkC17) }

func mustJSON(v interface{}) json.RawMessage {
	b, err := json.Marshal(v)
	if err != nil {
		panic(err)
	}
	return b
}

// failing patches (all accepted by the validator, all fail on application)
func failingPatches() []interface{} {
	return []interface{}{
		patchJSON(map[string]interface{}{"op": "remove", "path": "/doesNotExist"}),
		patchJSON(map[string]interface{}{"op": "replace", "path": "/alsoMissing/x", "value": 1.0}),
		patchJSON(map[string]interface{}{"op": "test", "path": "/nope", "value": "x"}),
		patchJSON(map[string]interface{}{"op": "add", "path": "/a/b/c", "value": 1.0}),
		patchJSON(map[string]interface{}{"op": "add", "path": "/ok", "value": 1.0}, map[string]interface{}{"op": "remove", "path": "/ghost"}),
		// the JSON patch library panics on these instead of returning an error
		panicPatches[0], panicPatches[1], panicPatches[2],
	}
}

func checkC17(c *hx.Ctx) {
	c.Rule("documents reached by random valid patch sequences from {} and lists of 1-6 patches over all eight actions drawn from a small id pool (so adds hit existing ids, removes hit present and absent ids), replace patches on documents holding aliases and custom members, lists with a replace patch in the middle followed by removals of entries it introduced, and lists whose k-th patch fails for every k (also with a replace patch after the failing one, and with patches the JSON patch library panics on); oracles on the REAL DocumentComposer in crash-isolated workers: input document unchanged by the call, two calls agree, error => no document, success == applying the patches one at a time, result == independent ordered-set model; an ietf-json-patch with RFC 6902 operations o1..on (add, remove, replace, copy, move, test over nested members and arrays) must behave exactly like n patches with one operation each; PatchesFromDocument(d) applied to {} must reproduce d for generated documents with non-empty well-formed sections and member names free of '~' and '/'; non-trivial = list with >= 2 patches or a failing patch; distinct = distinct (document, patch list)")
	pool := hx.NewPool(c, "compose", 16, 4*1024*1024, 30*time.Second)
	defer pool.Close()
	nCases := c.N(12000, 300000)
	root := c.Rng("cases")
	seeds := make([]uint64, nCases)
	for i := range seeds {
		seeds[i] = root.U64()
	}
	fails := failingPatches()
	hx.Parallel(nCases, 16, func(i int) {
		if c.Violations() > 10 {
			return
		}
		r := hx.NewRng(seeds[i], "c17")
		ids := newIDPool(r)
		// URIs are set members by their spelling: add spellings that only a normalising comparison would call equal
		ids.uris = append(ids.uris, strings.Replace(ids.uris[0], "https://", "HTTPS://", 1), ids.uris[1]+"#", strings.Replace(ids.uris[2], ".", "%2E", 1))
		// reach a document by a random valid prefix
		doc := ref.Doc{}
		if i%4 == 3 {
			// custom members that look like sections of a resolved DID document are custom members, nothing else
			doc["verificationMethod"] = []interface{}{genKeyEntry(r, "vm1"), genKeyEntry(r, "vm2")}
			doc["authentication"] = []interface{}{"#vm1"}
			doc["services"] = []interface{}{genService(r, "plural")}
		}
		for k := 0; k < r.Intn(4); k++ {
			if d, err := ref.ApplyPatches(doc, genPatches(r, 3, ids)); err == nil {
				doc = d
			}
		}
		if r.Chance(1, 3) {
			doc["custom"] = map[string]interface{}{"nested": []interface{}{1.0, "two"}}
		}
		var patches []interface{}
		class := "valid-list"
		switch r.Intn(6) {
		case 0: // failing k-th patch
			patches = genPatches(r, 5, ids)
			k := r.Intn(len(patches) + 1)
			patches = append(append(append([]interface{}{}, patches[:k]...), hx.Pick(r, fails)), patches[k:]...)
			class = fmt.Sprintf("failing-patch-at-%d", k)
			if r.Bool() {
				// a replace patch somewhere after the failing one must not rescue the list
				j := k + 1 + r.Intn(len(patches)-k)
				rp := patchReplace([]interface{}{genKeyEntry(r, "rk0")}, []interface{}{genService(r, "rs0")})
				patches = append(append(append([]interface{}{}, patches[:j]...), rp), patches[j:]...)
				class = "failing-patch-before-replace"
			}
		case 1: // replace on a populated document
			var ks, ss []interface{}
			for n := 0; n < r.Intn(3); n++ {
				ks = append(ks, genKeyEntry(r, fmt.Sprintf("rk%d", n)))
			}
			for n := 0; n < r.Intn(3); n++ {
				ss = append(ss, genService(r, fmt.Sprintf("rs%d", n)))
			}
			patches = append(genPatches(r, 2, ids), patchReplace(ks, ss))
			if r.Bool() {
				patches = append(patches, genPatches(r, 2, ids)...)
			}
			class = "replace"
		case 3: // replace in the middle of a list, followed by removals of entries it introduced (not the last ones)
			var ks, ss []interface{}
			nk, ns := 2+r.Intn(3), 2+r.Intn(3)
			for n := 0; n < nk; n++ {
				ks = append(ks, genKeyEntry(r, fmt.Sprintf("rk%d", n)))
			}
			for n := 0; n < ns; n++ {
				ss = append(ss, genService(r, fmt.Sprintf("rs%d", n)))
			}
			patches = append(genPatches(r, 2, ids), patchReplace(ks, ss))
			for n := 0; n < 1+r.Intn(3); n++ {
				if r.Bool() {
					patches = append(patches, patchRemoveKeys(fmt.Sprintf("rk%d", r.Intn(nk-1))))
				} else {
					patches = append(patches, map[string]interface{}{"action": "remove-services", "ids": []interface{}{fmt.Sprintf("rs%d", r.Intn(ns-1))}})
				}
			}
			if r.Bool() {
				patches = append(patches, genPatches(r, 2, ids)...)
			}
			class = "replace-then-remove"
		case 2: // add existing id at a non-last position, then new ids
			for n := 0; n < 3; n++ {
				doc, _ = ref.ApplyPatch(doc, patchAddServices(genService(r, ids.svcs[n])))
				doc, _ = ref.ApplyPatch(doc, patchAddKeys(genKeyEntry(r, ids.keys[n])))
			}
			patches = []interface{}{patchAddServices(genService(r, ids.svcs[r.Intn(2)]), genService(r, "brandNewSvc")), patchAddKeys(genKeyEntry(r, ids.keys[r.Intn(2)]), genKeyEntry(r, "brandNewKey"))}
			class = "add-existing-id"
		default:
			patches = genPatches(r, 6, ids)
		}
		c.Eval()
		rep, ok := composeRun(c, pool, composeCase{Doc: mustJSON(doc), Patches: mustJSON(patches)}, class)
		if !ok || rep == nil {
			return
		}
		replay := map[string]interface{}{"doc": doc, "patches": patches, "class": class}
		before := ref.DocKey(doc)
		if got := docKeyOf(rep.InputAfter); got != before || string(ref.MustJCS(rawTree(rep.InputAfter))) != string(ref.MustJCS(rawTree(mustJSON(doc)))) {
			replay["input_after"] = rawTree(rep.InputAfter)
			c.Violation("C17 ApplyPatches modified its input document ("+class+")", replay)
			return
		}
		if rep.ApplyErr != rep.Apply2Err || string(rep.Result) != string(rep.Result2) {
			c.Violation("C17 ApplyPatches is not deterministic ("+class+")", replay)
			return
		}
		if rep.ApplyErr != "" && len(rep.Result) > 0 && string(rep.Result) != "null" {
			c.Violation("C17 ApplyPatches returned an error together with a document ("+class+")", replay)
			return
		}
		if (rep.ApplyErr == "") != (rep.StepwiseErr == "") || (rep.ApplyErr == "" && docKeyOf(rep.Result) != docKeyOf(rep.Stepwise)) {
			replay["result"], replay["stepwise"] = rawTree(rep.Result), rawTree(rep.Stepwise)
			c.Violation(fmt.Sprintf("C17 applying the list at once differs from applying the patches one at a time (%s): err=%q stepwise err=%q", class, rep.ApplyErr, rep.StepwiseErr), replay)
			return
		}
		// model
		allValid := rep.DeltaErr == ""
		want, merr := ref.ApplyPatches(doc, patches)
		if merr == ref.ErrUnsupported || !allValid {
			c.Count("model_skipped")
		} else {
			if (merr == nil) != (rep.ApplyErr == "") {
				replay["model_error"], replay["library_error"] = fmt.Sprint(merr), rep.ApplyErr
				c.Violation(fmt.Sprintf("C17 ApplyPatches success/failure differs from the ordered-set model (%s): model err=%v library err=%q", class, merr, rep.ApplyErr), replay)
				return
			}
			if merr == nil && ref.DocKey(want) != docKeyOf(rep.Result) {
				replay["model"], replay["library"] = ref.NormalizeDoc(want), rawTree(rep.Result)
				c.Violation(fmt.Sprintf("C17 result differs from the ordered-set model (%s)\n   model:   %s\n   library: %s", class, trunc600(ref.DocKey(want)), trunc600(docKeyOf(rep.Result))), replay)
				return
			}
			c.Count("model_compared:" + class)
		}
		if rep.ApplyErr != "" {
			c.Count("failed_lists")
		} else {
			c.Count("applied_lists")
		}
		if len(patches) >= 2 {
			c.Distinct(string(mustJSON(doc)) + "|" + string(mustJSON(patches)))
		}
		if i < 2 {
			c.Sample(2, replay)
		}
	})
	// ---- RFC 6902 operations inside one ietf-json-patch are applied in sequence: one patch with operations o1..on must
	// behave exactly like n patches with one operation each (no value shared between a copy and its source, same
	// success / failure, same result)
	nSplit := c.N(3000, 60000)
	sseeds := make([]uint64, nSplit)
	for i := range sseeds {
		sseeds[i] = root.U64()
	}
	hx.Parallel(nSplit, 16, func(i int) {
		if c.Violations() > 10 {
			return
		}
		r := hx.NewRng(sseeds[i], "split")
		doc := ref.Doc{"o": map[string]interface{}{"k": "v", "n": map[string]interface{}{"d": 1.0}}, "arr": []interface{}{map[string]interface{}{"a": 1.0}, "x", []interface{}{1.0, 2.0}},
			"s": "str", "publicKey": []interface{}{genKeyEntry(r, "k1")}, "service": []interface{}{genService(r, "s1")}}
		targets := []string{"/o", "/o/k", "/o/n", "/o/n/d", "/arr", "/arr/0", "/arr/0/a", "/arr/1", "/arr/2", "/arr/2/0", "/arr/-", "/s", "/new", "/new/x", "/o/new", "/copy", "/copy/k", "/copy/n/d", "/copy/0/a", "/copy/a", "/moved", "/moved/k"}
		vals := []interface{}{"w", 7.0, map[string]interface{}{"z": []interface{}{1.0}}, []interface{}{"p", "q"}, nil, true}
		var ops []interface{}
		for n := 0; n < 2+r.Intn(4); n++ {
			op := map[string]interface{}{"path": hx.Pick(r, targets)}
			switch r.Intn(7) {
			case 0, 1:
				op["op"], op["from"] = "copy", hx.Pick(r, targets[:10])
				if r.Bool() {
					op["path"] = hx.Pick(r, []string{"/copy", "/new", "/moved", "/o/new", "/arr/-", "/arr/0"})
				}
			case 2:
				op["op"], op["from"] = "move", hx.Pick(r, targets[:12])
			case 3:
				op["op"], op["value"] = "add", hx.Pick(r, vals)
			case 4:
				op["op"], op["value"] = "replace", hx.Pick(r, vals)
			case 5:
				op["op"] = "remove"
			default:
				op["op"], op["value"] = "test", hx.Pick(r, vals)
			}
			ops = append(ops, op)
		}
		one := []interface{}{map[string]interface{}{"action": "ietf-json-patch", "patches": ops}}
		var split []interface{}
		for _, o := range ops {
			split = append(split, map[string]interface{}{"action": "ietf-json-patch", "patches": []interface{}{o}})
		}
		c.Eval()
		a, ok := composeRun(c, pool, composeCase{Doc: mustJSON(doc), Patches: mustJSON(one)}, "json-patch-ops-in-one-patch")
		if !ok || a == nil {
			return
		}
		b, ok := composeRun(c, pool, composeCase{Doc: mustJSON(doc), Patches: mustJSON(split)}, "json-patch-ops-one-per-patch")
		if !ok || b == nil {
			return
		}
		if a.DeltaErr != "" || b.DeltaErr != "" {
			c.Count("split_not_validated")
			return
		}
		replay := map[string]interface{}{"doc": doc, "operations": ops}
		if a.ApplyErr != a.Apply2Err || string(a.Result) != string(a.Result2) {
			c.Violation("C17 ApplyPatches is not deterministic (json-patch-ops-in-one-patch)", replay)
			return
		}
		if (a.ApplyErr == "") != (b.ApplyErr == "") || (a.ApplyErr == "" && docKeyOf(a.Result) != docKeyOf(b.Result)) {
			replay["one_patch"], replay["one_patch_error"], replay["split"], replay["split_error"] = rawTree(a.Result), a.ApplyErr, rawTree(b.Result), b.ApplyErr
			c.Violation(fmt.Sprintf("C17 RFC 6902 operations applied inside one patch differ from the same operations applied as one patch each: err=%q vs %q\n   one patch: %s\n   split:     %s", a.ApplyErr, b.ApplyErr, trunc600(docKeyOf(a.Result)), trunc600(docKeyOf(b.Result))), replay)
			return
		}
		if got := docKeyOf(a.InputAfter); got != ref.DocKey(doc) {
			c.Violation("C17 ApplyPatches modified its input document (json-patch-ops-in-one-patch)", replay)
			return
		}
		if a.ApplyErr == "" {
			c.Count("json_patch_split_compared_ok")
		} else {
			c.Count("json_patch_split_compared_failed")
		}
		c.Distinct("split|" + string(mustJSON(ops)))
	})
	c.Floor("json_patch_split_compared_ok", 200)
	c.Floor("json_patch_split_compared_failed", 200)
	// ---- RFC 6902 "test": a test against the value the document holds succeeds (and lets the rest of the list apply), a
	// test against another value fails the whole list - for strings that JSON encoders like to escape differently
	{
		tricky := []string{"a&b", "<tag>", "x>y", "https://e.example/?a=1&b=2", "é", "\u2028line", "quote\"q", "back\\slash", "tab\tx", "/slash", "emoji\U0001F600", "plain", "", "\u007f", "%41", "a\nb"}
		for ti, str := range tricky {
			doc := ref.Doc{"s": str, "o": map[string]interface{}{"k": str}, "arr": []interface{}{str, "other"}}
			for pi, path := range []string{"/s", "/o/k", "/arr/0"} {
				for _, equal := range []bool{true, false} {
					val := str
					if !equal {
						val = str + "x"
					}
					patches := []interface{}{patchJSON(map[string]interface{}{"op": "test", "path": path, "value": val}, map[string]interface{}{"op": "add", "path": "/ok", "value": true})}
					c.Eval()
					rep, ok := composeRun(c, pool, composeCase{Doc: mustJSON(doc), Patches: mustJSON(patches)}, "json-patch-test")
					if !ok || rep == nil {
						return
					}
					replay := map[string]interface{}{"doc": doc, "patches": patches}
					if rep.DeltaErr != "" {
						c.Count("json_patch_test_not_validated")
						continue
					}
					if equal {
						want := ref.CopyTree(doc).(ref.Doc)
						want["ok"] = true
						if rep.ApplyErr != "" || docKeyOf(rep.Result) != ref.DocKey(want) {
							replay["error"], replay["result"] = rep.ApplyErr, rawTree(rep.Result)
							c.Violation(fmt.Sprintf("C17 a JSON patch 'test' against the value the document holds did not let the list apply (string #%d at %s): err=%q", ti, path, rep.ApplyErr), replay)
							return
						}
						c.Count("json_patch_test_equal_applied")
					} else {
						if rep.ApplyErr == "" {
							c.Violation(fmt.Sprintf("C17 a JSON patch 'test' against a different value let the list apply (string #%d at %s)", ti, path), replay)
							return
						}
						c.Count("json_patch_test_unequal_failed")
					}
					c.Distinct(fmt.Sprintf("test|%d|%d|%v", ti, pi, equal))
				}
			}
		}
		c.Floor("json_patch_test_equal_applied", 30)
		c.Floor("json_patch_test_unequal_failed", 30)
	}
	// ---- JSON pointers are split at "/" first and unescaped afterwards (RFC 6901): a member named "a/b" and the member "b"
	// of "a" are different locations, and copying between them is an ordinary copy
	{
		type ptrCase struct {
			doc  map[string]interface{}
			ops  []map[string]interface{}
			want map[string]interface{}
		}
		base := func() map[string]interface{} {
			return map[string]interface{}{"a/b": map[string]interface{}{"k": 1.0}, "a": map[string]interface{}{"b": map[string]interface{}{"c": 0.0}}, "a~b": []interface{}{"t"}}
		}
		var cases []ptrCase
		{
			w := base()
			w["a"].(map[string]interface{})["b"].(map[string]interface{})["c"] = map[string]interface{}{"k": 1.0}
			cases = append(cases, ptrCase{base(), []map[string]interface{}{{"op": "copy", "from": "/a~1b", "path": "/a/b/c"}}, w})
		}
		{
			w := base()
			w["a/b"].(map[string]interface{})["c"] = map[string]interface{}{"c": 0.0}
			cases = append(cases, ptrCase{base(), []map[string]interface{}{{"op": "copy", "from": "/a/b", "path": "/a~1b/c"}}, w})
		}
		{
			w := base()
			w["x"] = []interface{}{"t"}
			w["a/b"].(map[string]interface{})["k"] = "new"
			cases = append(cases, ptrCase{base(), []map[string]interface{}{{"op": "copy", "from": "/a~0b", "path": "/x"}, {"op": "replace", "path": "/a~1b/k", "value": "new"}}, w})
		}
		{
			w := base()
			w["a/b"] = map[string]interface{}{"b": map[string]interface{}{"c": 0.0}}
			cases = append(cases, ptrCase{base(), []map[string]interface{}{{"op": "copy", "from": "/a", "path": "/a~1b"}}, w})
		}
		for ci, pcase := range cases {
			c.Eval()
			patches := []interface{}{patchJSON(pcase.ops...)}
			rep, ok := composeRun(c, pool, composeCase{Doc: mustJSON(pcase.doc), Patches: mustJSON(patches)}, "json-pointer-escapes")
			if !ok || rep == nil {
				return
			}
			if rep.DeltaErr != "" {
				c.Count("json_pointer_cases_not_validated")
				continue
			}
			if rep.ApplyErr != "" || docKeyOf(rep.Result) != ref.DocKey(pcase.want) {
				c.Violation(fmt.Sprintf("C17 JSON patch with escaped pointer tokens (case %d): err=%q\n   result:   %s\n   expected: %s", ci, rep.ApplyErr, trunc600(docKeyOf(rep.Result)), trunc600(ref.DocKey(pcase.want))),
					map[string]interface{}{"doc": pcase.doc, "operations": pcase.ops, "expected": pcase.want, "result": rawTree(rep.Result)})
				return
			}
			c.Count("json_pointer_escape_cases")
		}
		c.Floor("json_pointer_escape_cases", 4)
	}
	// ---- also-known-as lists that hold members which are not strings (reachable through an accepted JSON patch): add / remove
	// patches treat the string members exactly as if the other members were not there
	{
		ar := c.Rng("aka-non-strings")
		for k := 0; k < c.N(60, 600); k++ {
			ids := newIDPool(ar)
			var strs []interface{}
			for n := 0; n < 1+ar.Intn(4); n++ {
				strs = append(strs, ids.uri(ar))
			}
			strs = distinctOf(len(strs), func() string { v := strs[0].(string); strs = strs[1:]; return v })
			mixed := append([]interface{}{}, strs...)
			for n := 0; n < 1+ar.Intn(2); n++ {
				at := ar.Intn(len(mixed) + 1)
				junk := hx.Pick(ar, []interface{}{42.0, nil, true, map[string]interface{}{"x": 1.0}, []interface{}{"y"}})
				mixed = append(append(append([]interface{}{}, mixed[:at]...), junk), mixed[at:]...)
			}
			var patches []interface{}
			for n := 0; n < 1+ar.Intn(3); n++ {
				act := hx.Pick(ar, []string{"add-also-known-as", "remove-also-known-as"})
				patches = append(patches, map[string]interface{}{"action": act, "uris": distinctOf(1+ar.Intn(3), func() string { return ids.uri(ar) })})
			}
			clean := map[string]interface{}{"alsoKnownAs": strs, "note": "n"}
			dirty := map[string]interface{}{"alsoKnownAs": mixed, "note": "n"}
			c.Eval()
			a, ok := composeRun(c, pool, composeCase{Doc: mustJSON(clean), Patches: mustJSON(patches)}, "aka-strings-only")
			if !ok || a == nil {
				return
			}
			b, ok := composeRun(c, pool, composeCase{Doc: mustJSON(dirty), Patches: mustJSON(patches)}, "aka-with-non-strings")
			if !ok || b == nil {
				return
			}
			strsOf := func(raw json.RawMessage) string {
				t, _ := rawTree(raw).(map[string]interface{})
				var out []string
				l, _ := t["alsoKnownAs"].([]interface{})
				for _, v := range l {
					if s, isS := v.(string); isS {
						out = append(out, s)
					}
				}
				return strings.Join(out, " ")
			}
			if (a.ApplyErr == "") != (b.ApplyErr == "") || (a.ApplyErr == "" && strsOf(a.Result) != strsOf(b.Result)) {
				c.Violation(fmt.Sprintf("C17 also-known-as patches give other URIs when the list also holds members that are not strings: [%s] vs [%s] (errors %q / %q)", strsOf(a.Result), strsOf(b.Result), a.ApplyErr, b.ApplyErr),
					map[string]interface{}{"also_known_as": mixed, "patches": patches})
				return
			}
			c.Count("aka_lists_with_non_string_members")
		}
		c.Floor("aka_lists_with_non_string_members", 50)
	}
	// ---- service / key sections that hold members which are not objects (reachable through a replace patch or the add patch
	// itself): add / remove patches treat the well-formed entries exactly as if the other members were not there, and what they
	// leave behind is a list of entries (no holes)
	{
		sr := c.Rng("sections-with-non-objects")
		for k := 0; k < c.N(120, 1200); k++ {
			ids := newIDPool(sr)
			section, addAct, rmAct, member := "service", "add-services", "remove-services", "services"
			mkEntry := func(id string) interface{} { return genService(sr, id) }
			nextID := func() string { return ids.svc(sr) }
			if k%2 == 1 {
				section, addAct, rmAct, member = "publicKey", "add-public-keys", "remove-public-keys", "publicKeys"
				mkEntry = func(id string) interface{} { return genKeyEntry(sr, id) }
				nextID = func() string { return ids.key(sr) }
			}
			var entries []interface{}
			for _, id := range distinctOf(1+sr.Intn(4), nextID) {
				entries = append(entries, mkEntry(id.(string)))
			}
			junkIn := func(list []interface{}) []interface{} {
				out := append([]interface{}{}, list...)
				for n := 0; n < 1+sr.Intn(2); n++ {
					at := sr.Intn(len(out) + 1)
					junk := hx.Pick(sr, []interface{}{"str", 42.0, nil, true, []interface{}{"y"}})
					out = append(append(append([]interface{}{}, out[:at]...), junk), out[at:]...)
				}
				return out
			}
			var cleanPatches, dirtyPatches []interface{}
			for n := 0; n < 1+sr.Intn(3); n++ {
				if sr.Bool() {
					var add []interface{}
					for _, id := range distinctOf(1+sr.Intn(2), nextID) {
						add = append(add, mkEntry(id.(string)))
					}
					cleanPatches = append(cleanPatches, map[string]interface{}{"action": addAct, member: add})
					if sr.Bool() {
						add = junkIn(add) // the patch itself carries members that are not entries
					}
					dirtyPatches = append(dirtyPatches, map[string]interface{}{"action": addAct, member: add})
				} else {
					rm := map[string]interface{}{"action": rmAct, "ids": distinctOf(1+sr.Intn(2), nextID)}
					cleanPatches, dirtyPatches = append(cleanPatches, rm), append(dirtyPatches, rm)
				}
			}
			clean := map[string]interface{}{section: entries, "note": "n"}
			dirty := map[string]interface{}{section: junkIn(entries), "note": "n"}
			c.Eval()
			a, ok := composeRun(c, pool, composeCase{Doc: mustJSON(clean), Patches: mustJSON(cleanPatches)}, "section-entries-only")
			if !ok || a == nil {
				return
			}
			b, ok := composeRun(c, pool, composeCase{Doc: mustJSON(dirty), Patches: mustJSON(dirtyPatches)}, "section-with-non-objects")
			if !ok || b == nil {
				return
			}
			sec := func(raw json.RawMessage) string {
				t, _ := rawTree(raw).(map[string]interface{})
				return string(ref.MustJCS(t[section]))
			}
			if (a.ApplyErr == "") != (b.ApplyErr == "") || (a.ApplyErr == "" && sec(a.Result) != sec(b.Result)) {
				c.Violation(fmt.Sprintf("C17 %s / %s patches on a %s section that also holds members which are not objects do not leave the list of entries they leave without those members\n   without: %s\n   with:    %s (errors %q / %q)",
					addAct, rmAct, section, trunc600(sec(a.Result)), trunc600(sec(b.Result)), a.ApplyErr, b.ApplyErr), map[string]interface{}{"document": dirty, "patches": dirtyPatches})
				return
			}
			c.Count("sections_with_non_object_members")
		}
		c.Floor("sections_with_non_object_members", 100)
	}
	// ---- PatchesFromDocument round trip
	nDocs := c.N(4000, 80000)
	dseeds := make([]uint64, nDocs)
	for i := range dseeds {
		dseeds[i] = root.U64()
	}
	hx.Parallel(nDocs, 16, func(i int) {
		if c.Violations() > 10 {
			return
		}
		r := hx.NewRng(dseeds[i], "pfd")
		doc := genDoc(r)
		if r.Chance(1, 4) {
			// member names that need no JSON-pointer escaping but are unusual
			doc[hx.Pick(r, []string{"quote\"name", "back\\slash", "tab\tname", "ünï€", "sp ace", "#frag", "%41", "a.b", "", "0", "-",
				"unit\x1fsep", "del\x7f", "bell\a", "nul\x00", "esc\x1b[0m", "nbsp\u00a0", "ls\u2028", "emoji\U0001F600", "<html>&amp;", "cr\rlf\n", "vt\v", "ff\f", "bs\b"})] = "v"
		}
		c.Eval()
		b, _ := json.Marshal(doc)
		rep, ok := composeRun(c, pool, composeCase{Doc: json.RawMessage(`{}`), Opaque: string(b)}, "patches-from-document")
		if !ok || rep == nil {
			return
		}
		replay := map[string]interface{}{"document": doc}
		if rep.PfdErr != "" {
			c.Violation("C17 PatchesFromDocument failed on a document of the stated class: "+rep.PfdErr, replay)
			return
		}
		replay["patches"] = rawTree(rep.PfdPatches)
		if rep.ApplyErr != "" {
			c.Violation("C17 patches produced by PatchesFromDocument do not apply to the empty document: "+rep.ApplyErr, replay)
			return
		}
		if docKeyOf(rep.Result) != ref.DocKey(doc) {
			replay["result"] = rawTree(rep.Result)
			c.Violation(fmt.Sprintf("C17 PatchesFromDocument(d) applied to {} does not reproduce d\n   d:      %s\n   result: %s", trunc600(ref.DocKey(doc)), trunc600(docKeyOf(rep.Result))), replay)
			return
		}
		c.Count("document_round_trips")
		c.Distinct("pfd|" + string(b))
	})
	c.Set("worker_crashes", pool.Crashes)
	c.Floor("model_compared:valid-list", 500)
	c.Floor("model_compared:replace", 100)
	c.Floor("model_compared:add-existing-id", 100)
	c.Floor("model_compared:replace-then-remove", 100)
	c.Floor("model_compared:failing-patch-before-replace", 50)
	c.Floor("failed_lists", 200)
	c.Floor("applied_lists", 500)
	c.Floor("document_round_trips", 500)
}
