package main

import (
	"fmt"
	"strings"

	"github.com/trustbloc/sidetree-core-go/pkg/processor"

	"verifharness/hx"
	"verifharness/ref"
)

func init() { register("C01", "exploration", checkC01) }

// placedChain anchors the legit ops at times base+20*i (random distinct numbers).
func placeLegit(r *hx.Rng, ch *Chain, alloc *coordAlloc) []*ref.Op {
	out := make([]*ref.Op, len(ch.Legit))
	for i, o := range ch.Legit {
		t, n, id := alloc.take(r, uint64(1000+20*i), uint64(1000+20*i))
		out[i] = Place(o, t, n, id, ch.U.Proto.GenesisTime)
	}
	return out
}

func checkC01(c *hx.Ctx) {
	c.Rule("legitimate chain L (create + 1..8 random update/recover steps, optional final deactivate; key types drawn from all five; sha2-256 and sha2-512) and a multiset F of unauthorised operations (stranger key, wrong signer, tampered signature, altered signed payload, reveal/key mismatch, foreign signed suffix, swapped delta, copies of the owner's own operations with the genuine signature over another payload) aimed at the commitment in force at each step plus later duplicate creates, anchored at arbitrary positions (also immediately before the legitimate operation, before the create, and unpublished); oracle Resolve(L+F)==Resolve(L) and ==reference model; the owner's operations and a stranger's (cut into the same batch behind the owner's and deferred, anchored on their own, or as unprocessable transactions in the same ledger notification) through the REAL operation handler, observer and transaction processor: same resolution as a twin node that saw the owner's operations only; non-trivial = F contains an operation that reveals a commitment of L or is a later create")
	c.Assume("forged operations are exactly those failing the authorisation test; operation lists in the result are not compared")
	nCases := c.N(1500, 40000)
	root := c.Rng("cases")
	seeds := make([]uint64, nCases)
	for i := range seeds {
		seeds[i] = root.U64()
	}
	hx.Parallel(nCases, 16, func(i int) {
		r := hx.NewRng(seeds[i], "c01")
		code := uint64(ref.SHA256)
		p := hx.BaseProtocol()
		if i%3 == 2 {
			code = ref.SHA512
			p.MultihashAlgorithms = []uint{ref.SHA512}
		}
		types := ref.KeyTypes
		if i%5 != 0 { // keep most cases cheap, every fifth uses all key types
			types = []string{"Ed25519", "P-256", "secp256k1"}
		}
		steps := 1 + r.Intn(6)
		if c.Thorough() {
			steps = 1 + r.Intn(8)
		}
		// build chain step by step collecting forgeries aimed at each intermediate state
		ch := NewChain(r.Split("chain"), code, p, types)
		type aimed struct {
			ops  []*ref.Op
			step int // forged against state after legit step index
		}
		var pools []aimed
		pools = append(pools, aimed{ch.Forgeries("0"), 0})
		end := r.Chance(1, 3)
		for s := 1; s <= steps; s++ {
			if s == steps && end {
				ch.Step("deactivate")
			} else if r.Chance(1, 4) {
				ch.Step("recover")
			} else {
				ch.Step("update")
			}
			if !ch.Deact && r.Chance(1, 2) {
				pools = append(pools, aimed{ch.Forgeries(fmt.Sprint(s)), s})
			}
		}
		alloc := &coordAlloc{}
		L := placeLegit(r, ch, alloc)
		lastT := L[len(L)-1].Time
		var F []*ref.Op
		nF := 1 + r.Intn(6)
		for k := 0; k < nF; k++ {
			pool := hx.Pick(r, pools)
			f := hx.Pick(r, pool.ops)
			var lo, hi uint64
			switch r.Intn(4) {
			case 0: // immediately before / at the time of the legit op that consumes the same commitment
				idx := pool.step + 1
				if idx >= len(L) {
					idx = len(L) - 1
				}
				lo, hi = L[idx].Time-19, L[idx].Time
			case 1:
				lo, hi = 990, 999 // before the create
			default:
				lo, hi = 990, lastT+30
			}
			if r.Chance(1, 8) {
				F = append(F, Place(f, uint64(5000+k), 0, "", p.GenesisTime)) // unpublished
			} else {
				t, n, id := alloc.take(r, lo, hi)
				F = append(F, Place(f, t, n, id, p.GenesisTime))
			}
		}
		// copies of the owner's own operations carrying the owner's genuine signature over another payload, anchored just
		// before the original (Resolve(L) runs first in this process, so the genuine signature has been verified by then)
		for k := 1; k < len(L); k++ {
			if !r.Chance(1, 2) {
				continue
			}
			if f := forgeFromLegit(fmt.Sprintf("F%d:i-copy-of-legit-%s-genuine-signature-other-payload", k, L[k].Type), ch.Legit[k], code, ch.newKey("X").Commitment(code)); f != nil {
				t, n, id := alloc.take(r, L[k].Time-19, L[k].Time-1)
				F = append(F, Place(f, t, n, id, p.GenesisTime))
			}
		}
		for _, d := range ch.DupCreates("dup") {
			if r.Chance(1, 2) {
				t, n, id := alloc.take(r, L[0].Time+1, lastT+30)
				F = append(F, Place(d, t, n, id, p.GenesisTime))
			}
		}
		pc := hx.NewClient(hx.NewVersion(p, hx.VersionOpts{ParserOpts: hx.StrictResolution()}))
		if i%4 == 1 {
			// every operation is stamped with version 0; a stricter version becomes current in the middle of the history and
			// must not be consulted for them
			pc = hx.NewClientWithTrap(hx.NewVersion(p, hx.VersionOpts{ParserOpts: hx.StrictResolution()}), 1010)
			c.Count("histories_crossing_the_genesis_of_a_stricter_version")
		}
		c.Eval()
		rmL, errL := SUTResolve(pc, ch.U.Suffix, L, r.Perm(len(L)))
		all := append(append([]*ref.Op{}, L...), F...)
		var order []int
		{
			np := 0
			for _, o := range all {
				if o.Published() {
					np++
				}
			}
			order = r.Perm(np)
		}
		rmLF, errLF := SUTResolve(pc, ch.U.Suffix, all, order)
		kL, kLF := rmKey(rmL, errL), rmKey(rmLF, errLF)
		replay := map[string]interface{}{"suffix": ch.U.Suffix, "multihash": code, "legit": replayOps(L), "forged": replayOps(F), "store_order": order}
		if kL != kLF {
			replay["resolve_L"], replay["resolve_LF"] = kL, kLF
			c.Violation(fmt.Sprintf("C01 unauthorised operations changed the resolution result: forged=[%s] legit=[%s]\n   Resolve(L):   %s\n   Resolve(L+F): %s",
				histString(F), histString(L), kL, kLF), replay)
			return
		}
		// the same operations with a PRNG-chosen part of them handed over with the resolution request (WithAdditionalOperations)
		// instead of coming from the store - typically the owner's own, earlier anchored ones next to later forgeries in the store
		if i%4 == 2 {
			allPub := true
			for _, o := range all {
				allPub = allPub && o.Published()
			}
			if allPub {
				split := make([]int, len(all))
				nAdd := 0
				for k, o := range all {
					if o.Authorised && r.Chance(1, 2) || !o.Authorised && r.Chance(1, 6) {
						split[k] = 1
						nAdd++
					}
				}
				if nAdd > 0 && nAdd < len(all) {
					rmS, errS := SUTResolveSplit(pc, ch.U.Suffix, all, nil, split)
					if kS := rmKey(rmS, errS); kS != kL {
						replay["resolve_L"], replay["resolve_split"], replay["additional_operations"] = kL, kS, split
						c.Violation(fmt.Sprintf("C01 unauthorised operations changed the resolution result when part of the operations is supplied with the request (additional operations %v): forged=[%s] legit=[%s]\n   Resolve(L):                %s\n   Resolve(L+F, partly additional): %s",
							split, histString(F), histString(L), kL, kS), replay)
						return
					}
					c.Count("resolutions_with_additional_operations")
				}
			}
		}
		st, merr := ref.Resolve(L, ref.ResolveOpts{})
		if km := stKey(st, merr); km != kL {
			replay["model"], replay["resolve_L"] = km, kL
			c.Violation(fmt.Sprintf("C01 legitimate chain does not resolve to the reference state: legit=[%s]\n   model:   %s\n   library: %s", histString(L), km, kL), replay)
			return
		}
		if merr == nil && len(st.Applied) != len(L) {
			c.Count("legit_chain_not_fully_applied")
		}
		// ---- one long-lived processor instance, two histories of the same DID (a store rebuilt after a re-sync): in the second
		// one a stranger's self-consistent operation sits at the coordinates where the first one had the owner's operation,
		// and the owner's operation is anchored right after it. Nothing remembered from the first resolution may count.
		if i%3 == 0 && len(L) >= 2 {
			k := 1 + r.Intn(len(L)-1)
			x, y := ch.newKey("S"), ch.newKey("S")
			var stranger *ref.Op
			switch L[k].Type {
			case "update":
				stranger = ch.U.MkSigned("S:upd-by-stranger-at-the-owner's-coordinates", "update", x, "", y.Commitment(code), []interface{}{patchAddServices(svcEntry("taken", "over", "https://stranger.example"))}, SignedOpts{})
			case "recover":
				stranger = ch.U.MkSigned("S:rec-by-stranger-at-the-owner's-coordinates", "recover", x, y.Commitment(code), x.Commitment(code), []interface{}{patchAddServices(svcEntry("taken", "over", "https://stranger.example"))}, SignedOpts{})
			default:
				stranger = ch.U.MkSigned("S:deact-by-stranger-at-the-owner's-coordinates", "deactivate", x, "", "", nil, SignedOpts{})
			}
			var B, Bclean []*ref.Op
			for j, o := range L {
				if j == k {
					moved := Place(ch.Legit[k], o.Time+1, o.Number, o.Ref+"m", p.GenesisTime)
					B = append(B, Place(stranger, o.Time, o.Number, o.Ref+"s", p.GenesisTime), moved)
					Bclean = append(Bclean, moved)
					continue
				}
				B = append(B, o)
				Bclean = append(Bclean, o)
			}
			store := hx.NewOpStore()
			proc := processor.New("verif", store, pc)
			store.Set(ch.U.Suffix, ToAnchored(ch.U.Suffix, L))
			c.Eval()
			rm1, err1 := proc.Resolve(ch.U.Suffix)
			store.Set(ch.U.Suffix, ToAnchored(ch.U.Suffix, B))
			rm2, err2 := proc.Resolve(ch.U.Suffix)
			rmC, errC := SUTResolve(pc, ch.U.Suffix, Bclean, nil)
			if k1 := rmKey(rm1, err1); k1 != kL {
				c.Violation("C01 a long-lived processor resolves the legitimate chain differently from a fresh one", replay)
				return
			}
			if k2, kC := rmKey(rm2, err2), rmKey(rmC, errC); k2 != kC {
				replay["second_history"], replay["with_stranger"], replay["without_stranger"] = replayOps(B), k2, kC
				c.Violation(fmt.Sprintf("C01 a long-lived processor that had resolved the owner's history applied a stranger's operation anchored at the coordinates of the owner's operation in a rebuilt store: %s\n   with the stranger's operation:    %s\n   without it (fresh processor):     %s", histString(B), k2, kC), replay)
				return
			}
			c.Count("rebuilt_store_histories_through_one_processor")
		}
		sig := make([]string, 0, len(F))
		for _, f := range F {
			kind := f.Label[strings.Index(f.Label, ":")+1:]
			c.Count("forged:" + kind)
			sig = append(sig, fmt.Sprintf("%s@%d", kind, f.Time))
		}
		c.Count("keytype_mix:" + strings.Join(sortedCopy(uniqTypes(ch)), ","))
		c.Distinct(fmt.Sprintf("%d|%s|%s", code, histString(L), strings.Join(sig, ",")))
		if i < 2 {
			c.Sample(2, map[string]interface{}{"legit": histString(L), "forged": histString(F), "result": kL})
		}
	})
	// ---- exhaustive placement: every forgery kind aimed at every intermediate state, anchored at every position
	nChains := c.N(24, 700)
	cseeds := make([]uint64, nChains)
	for i := range cseeds {
		cseeds[i] = root.U64()
	}
	hx.Parallel(nChains, 16, func(i int) {
		if c.Violations() > 10 {
			return
		}
		r := hx.NewRng(cseeds[i], "c01x")
		p := hx.BaseProtocol()
		types := []string{ref.KeyTypes[i%5], "P-256"}
		ch := NewChain(r.Split("chain"), ref.SHA256, p, types)
		var pools [][]*ref.Op
		pools = append(pools, append(ch.Forgeries("0"), ch.DupCreates("0")...))
		steps := 1 + i%4
		for s := 1; s <= steps; s++ {
			switch {
			case s == steps && i%3 == 0:
				ch.Step("deactivate")
			case (s+i)%3 == 0:
				ch.Step("recover")
			default:
				ch.Step("update")
			}
			if !ch.Deact {
				pools = append(pools, ch.Forgeries(fmt.Sprint(s)))
			}
		}
		var L []*ref.Op
		for k, o := range ch.Legit {
			L = append(L, Place(o, uint64(1000+20*k), 3, fmt.Sprintf("L%d", k), p.GenesisTime))
		}
		pc := hx.NewClient(hx.NewVersion(p, hx.VersionOpts{ParserOpts: hx.StrictResolution()}))
		rmL, errL := SUTResolve(pc, ch.U.Suffix, L, nil)
		kL := rmKey(rmL, errL)
		st, merr := ref.Resolve(L, ref.ResolveOpts{})
		if km := stKey(st, merr); km != kL {
			c.Violation("C01 legitimate chain does not resolve to the reference state: "+histString(L)+"\n   model:   "+km+"\n   library: "+kL, map[string]interface{}{"legit": replayOps(L)})
			return
		}
		type pos struct {
			t, n uint64
			ref  string
			name string
		}
		var positions []pos
		positions = append(positions, pos{995, 0, "Fb", "before-create"}, pos{uint64(1000 + 20*len(L)), 0, "Fa", "after-last"}, pos{9000, 0, "", "unpublished"})
		for k := range L {
			positions = append(positions, pos{uint64(1000+20*k) - 1, 9, fmt.Sprintf("Fp%d", k), fmt.Sprintf("just-before-L%d", k)},
				pos{uint64(1000 + 20*k), 2, fmt.Sprintf("Fs%d", k), fmt.Sprintf("same-time-lower-number-L%d", k)},
				pos{uint64(1000 + 20*k), 4, fmt.Sprintf("Ft%d", k), fmt.Sprintf("same-time-higher-number-L%d", k)})
		}
		for pi, pool := range pools {
			for _, f := range pool {
				for _, ps := range positions {
					if f.Type == "create" && ps.t <= 1000 && ps.ref != "" {
						continue // a duplicate create anchored before/at the first create is not "after its first create"
					}
					c.Eval()
					all := append(append([]*ref.Op{}, L...), Place(f, ps.t, ps.n, ps.ref, p.GenesisTime))
					rm, err := SUTResolve(pc, ch.U.Suffix, all, nil)
					if k := rmKey(rm, err); k != kL {
						c.Violation(fmt.Sprintf("C01 a single unauthorised operation changed the resolution result: %s aimed at the state after step %d, anchored %s; legit=[%s]\n   Resolve(L):   %s\n   Resolve(L+F): %s",
							f.Label, pi, ps.name, histString(L), kL, k), map[string]interface{}{"suffix": ch.U.Suffix, "legit": replayOps(L), "forged": replayOps(all[len(L):])})
						return
					}
					c.Count("exhaustive_placements")
					c.Distinct(fmt.Sprintf("x|%d|%s|%s|%d", i, f.Label, ps.name, pi))
				}
			}
		}
	})
	c01ThroughPipeline(c)
	c.Floor("pipeline_runs_with_stranger_operations_in_the_owners_batch", 20)
	c.Floor("pipeline_runs_with_unprocessable_neighbour_transactions", 20)
	c.Floor("resolutions_with_additional_operations", 200)
	c.Floor("exhaustive_placements", 5000)
	c.Floor("rebuilt_store_histories_through_one_processor", 100)
	c.Floor("histories_crossing_the_genesis_of_a_stricter_version", 100)
	c.Floor("forged:e-create-other-delta", 1)
	c.Floor("forged:d-deact-reveal-mismatch", 1)
	c.Floor("forged:b-upd-tampered", 1)
	c.Floor("forged:c-rec-altered-commitment", 1)
}

func uniqTypes(ch *Chain) []string {
	m := map[string]bool{}
	for _, k := range append(append([]*ref.Key{}, ch.AllR...), ch.AllU...) {
		m[k.Type] = true
	}
	var out []string
	for t := range m {
		out = append(out, t)
	}
	return out
}
