package main

import (
	"fmt"
	"strings"

	"github.com/trustbloc/sidetree-core-go/pkg/api/operation"
	"github.com/trustbloc/sidetree-core-go/pkg/api/txn"
	"github.com/trustbloc/sidetree-core-go/pkg/batch"

	"verifharness/hx"
	"verifharness/ref"
)

// c13ThroughWriter: the batches are cut by the REAL batch writer from the REAL in-memory queue (small MaxOperationCount, several
// operations of one DID queued one after the other), with the anchor write or a CAS write of one batch failing once, so that the
// batch is rolled back and cut again. Every anchored batch is read back through the operation provider. Over the whole run every
// queued operation reads back exactly once, each batch holds one operation per DID, and the first queued operation of a DID reads
// back before everything else queued for that DID (the first queued one is the one a batch includes; the others wait, and
// since deferred operations are re-queued at the tail no order is claimed among them).
func c13ThroughWriter(c *hx.Ctx) {
	nChunks := c.N(8, 130)
	root := c.Rng("writer")
	seeds := make([]uint64, nChunks)
	for i := range seeds {
		seeds[i] = root.U64()
	}
	hx.Parallel(nChunks, 16, func(ci int) {
		r := hx.NewRng(seeds[ci], "c13w")
		bp := batchPool(r, ref.SHA256, 3, false) // one set of client-built operations serves the 15 runs of a chunk
		for k := 0; k < 15; k++ {
			c13WriterRun(c, r, bp, ci*15+k)
		}
	})
}

func c13WriterRun(c *hx.Ctx, r *hx.Rng, bp [][]*batchOp, run int) {
	{
		if c.Violations() > 8 {
			return
		}
		c.Eval()
		p := c13Proto(ref.SHA256)
		p.MaxOperationCount = uint(2 + r.Intn(2))
		l := &wlog{}
		yield := func(string) {}
		cas := hx.NewMemCAS()
		casFail, anchorFail := 0, 0
		switch run % 4 {
		case 0:
			anchorFail = 1 + r.Intn(3)
		case 1:
			casFail = 1 + r.Intn(8)
		case 2:
			anchorFail, casFail = 1+r.Intn(2), 4+r.Intn(8)
		}
		cas.WriteErr = func(call int, _ []byte) error {
			if call == casFail {
				return errInjected
			}
			return nil
		}
		anchor := &recAnchor{log: l, yield: yield}
		anchor.fail = func(_ string, call int) error {
			if call == anchorFail {
				return errInjected
			}
			return nil
		}
		v := hx.NewVersion(p, hx.VersionOpts{CAS: cas})
		included := map[string][]string{}
		pc := hx.NewClient(&handlerVersion{p, &recRealHandler{inner: v.Handler, log: l, yield: yield, ver: p.GenesisTime, included: included}})
		w, err := batch.New(hx.Namespace, &writerCtx{pc: pc, a: anchor, q: newRecQueue(l, yield)})
		if err != nil {
			c.Inconclusive("batch.New: %v", err)
			return
		}
		// queue: operations of three DIDs, those of one DID in chain order (create first), never-expiring ones only
		var queued []*batchOp
		next := []int{0, 0, 0}
		for k := 0; k < 3+r.Intn(6); k++ {
			d := r.Intn(3)
			for next[d] < len(bp[d]) && bp[d][next[d]].Until != 0 {
				next[d]++
			}
			if next[d] >= len(bp[d]) {
				continue
			}
			b := bp[d][next[d]]
			next[d]++
			qo := b.queued()
			qo.Properties = []operation.Property{{Key: "id", Value: b.ID}}
			if err := w.Add(qo, p.GenesisTime); err != nil {
				c.Violation("C13 batch writer refused a valid operation: "+err.Error(), nil)
				return
			}
			queued = append(queued, b)
			if r.Chance(1, 4) {
				w.VerifProcessAvailable(r.Bool())
			}
		}
		for k := 0; k < 3*len(queued)+4; k++ {
			w.VerifProcessAvailable(true)
		}
		var descr []string
		for _, b := range queued {
			descr = append(descr, b.ID)
		}
		replay := map[string]interface{}{"queued": descr, "max_operation_count": p.MaxOperationCount, "anchor_write_failing": anchorFail, "cas_write_failing": casFail, "log": logStrings(l.evs)}
		// read every anchored batch back
		seenAt := map[string]int{}
		var order []string
		for bi, anchorStr := range anchor.Seen {
			got, err := v.Provider.GetTxnOperations(&txn.SidetreeTxn{AnchorString: anchorStr, Namespace: hx.Namespace, TransactionTime: 1, ProtocolVersion: p.GenesisTime})
			if err != nil {
				c.Violation(fmt.Sprintf("C13 batch %d anchored by the writer cannot be read back: %v :: queued %v", bi+1, err, descr), replay)
				return
			}
			perSuffix := map[string]bool{}
			for _, o := range got {
				if perSuffix[o.UniqueSuffix] {
					c.Violation(fmt.Sprintf("C13 batch %d reads back two operations of one DID :: queued %v", bi+1, descr), replay)
					return
				}
				perSuffix[o.UniqueSuffix] = true
				id := ""
				for _, b := range queued {
					if b.Suffix == o.UniqueSuffix && canonReq(b.Req) == canonReq(o.OperationRequest) {
						id = b.ID
					}
				}
				if id == "" {
					c.Violation(fmt.Sprintf("C13 batch %d reads back an operation that was never queued :: queued %v", bi+1, descr), replay)
					return
				}
				if prev, dup := seenAt[id]; dup {
					c.Violation(fmt.Sprintf("C13 queued operation %s reads back from two batches (%d and %d): not accounted for exactly once :: queued %v, batches so far %v", id, prev+1, bi+1, descr, order), replay)
					return
				}
				seenAt[id] = bi
				order = append(order, fmt.Sprintf("%d:%s", bi+1, id))
			}
		}
		firstOfDID := map[string]*batchOp{}
		for _, b := range queued {
			if _, ok := seenAt[b.ID]; !ok {
				c.Violation(fmt.Sprintf("C13 queued operation %s does not read back from any anchored batch :: queued %v, batches %v", b.ID, descr, order), replay)
				return
			}
			first, has := firstOfDID[b.Suffix]
			if !has {
				firstOfDID[b.Suffix] = b
				continue
			}
			// the first queued operation of a DID is never deferred and never overtaken: whatever else is queued for the DID reads
			// back from a later batch (operations deferred by the handler are re-queued at the tail, so no order is claimed among
			// the later ones)
			if seenAt[b.ID] <= seenAt[first.ID] {
				c.Violation(fmt.Sprintf("C13 the first queued operation of a DID (%s, batch %d) does not read back before the operation %s queued after it (batch %d) :: queued %v, batches %v",
					first.ID, seenAt[first.ID]+1, b.ID, seenAt[b.ID]+1, descr, order), replay)
				return
			}
		}
		c.Count("writer_runs")
		if anchorFail > 0 || casFail > 0 {
			c.Count("writer_runs_with_a_rolled_back_batch")
		}
		c.Distinct("c13w|" + strings.Join(order, ",") + fmt.Sprint(anchorFail, casFail))
	}
}

// c13TwoWritersOneQueue: two batch writers of a node share one operation queue (what a clustered deployment does). The second
// writer runs a whole cutting cycle between the first writer's look at the head of the queue and its removal of a batch (a
// suspension point the harness owns: the queue is a caller-provided component). Every queued operation reads back from exactly
// one anchored batch.
func c13TwoWritersOneQueue(c *hx.Ctx) {
	r := c.Rng("two-writers")
	for run := 0; run < c.N(12, 200); run++ {
		if c.Violations() > 8 {
			return
		}
		c.Eval()
		p := c13Proto(ref.SHA256)
		p.MaxOperationCount = uint(2 + r.Intn(2))
		bp := batchPool(r, ref.SHA256, 6+r.Intn(4), false)
		l := &wlog{}
		v := hx.NewVersion(p, hx.VersionOpts{CAS: hx.NewMemCAS()})
		pc := hx.NewClient(v)
		var a, b *batch.Writer
		nested, active := false, false
		q := newRecQueue(l, func(point string) {
			if point == "q.remove" && active && !nested && r.Chance(2, 3) {
				nested = true
				b.VerifProcessAvailable(true)
				nested = false
			}
		})
		anchor := &recAnchor{log: l, yield: func(string) {}}
		var err error
		if a, err = batch.New(hx.Namespace, &writerCtx{pc: pc, a: anchor, q: q}); err == nil {
			b, err = batch.New(hx.Namespace, &writerCtx{pc: pc, a: anchor, q: q})
		}
		if err != nil {
			c.Inconclusive("batch.New: %v", err)
			return
		}
		var queued []*batchOp
		for _, ops := range bp {
			if err := a.Add(ops[0].queued(), p.GenesisTime); err != nil {
				c.Violation("C13 batch writer refused a valid create: "+err.Error(), nil)
				return
			}
			queued = append(queued, ops[0])
		}
		active = true
		for k := 0; k < 2*len(queued)+4; k++ {
			a.VerifProcessAvailable(true)
		}
		active = false
		seen := map[string]int{}
		for _, anchorStr := range anchor.Seen {
			got, err := v.Provider.GetTxnOperations(&txn.SidetreeTxn{AnchorString: anchorStr, Namespace: hx.Namespace, TransactionTime: 1, ProtocolVersion: p.GenesisTime})
			if err != nil {
				c.Violation(fmt.Sprintf("C13 a batch anchored by one of two writers sharing a queue cannot be read back: %v", err), map[string]interface{}{"log": logStrings(l.evs)})
				return
			}
			for _, o := range got {
				seen[o.UniqueSuffix]++
			}
		}
		for _, o := range queued {
			if seen[o.Suffix] != 1 {
				c.Violation(fmt.Sprintf("C13 queued operation %s reads back from %d anchored batches (two writers sharing one queue, the second one cutting between the first one's look at the queue and its removal): not accounted for exactly once", o.ID, seen[o.Suffix]),
					map[string]interface{}{"queued": len(queued), "batches": len(anchor.Seen), "log": logStrings(l.evs)})
				return
			}
		}
		c.Count("runs_with_two_writers_on_one_queue")
	}
}
