package main

import (
	"bytes"
	"fmt"
	"net/http"
	"net/http/httptest"

	"github.com/trustbloc/sidetree-core-go/pkg/dochandler"
	"github.com/trustbloc/sidetree-core-go/pkg/processor"
	restdoc "github.com/trustbloc/sidetree-core-go/pkg/restapi/dochandler"

	"verifharness/hx"
	"verifharness/ref"
)

// c08ThroughREST: several create requests of different sizes are posted one after the other through the REST update handler in
// front of the real document handler; the batch writer and the unpublished-operation store keep what they are handed (as the
// real queue does until the batch is cut). After the last answer every kept operation is still the request that was posted
// for it: same bytes, and its suffix is still the hash of the suffix data it carries.
func c08ThroughREST(c *hx.Ctx) {
	r := c.Rng("rest")
	for run := 0; run < c.N(12, 150); run++ {
		p := hx.BaseProtocol()
		p.MaxDeltaSize, p.MaxOperationSize = 9000, 20000
		pc := hx.NewClient(hx.NewVersion(p, hx.VersionOpts{}))
		w := &hx.RecWriter{}
		unpub := &recUnpub{}
		proc := processor.New("verif", hx.NewOpStore(), pc, processor.WithUnpublishedOperationStore(unpub))
		dh := dochandler.New(hx.Namespace, nil, pc, w, proc, hx.NopMetrics{}, dochandler.WithUnpublishedOperationStore(unpub, allOpTypes))
		h := restdoc.NewUpdateHandler(dh, pc, hx.NopMetrics{})
		var posted [][]byte
		var suffixes []string
		for k := 0; k < 4+r.Intn(6); k++ {
			var patches []interface{}
			for n := 0; n <= r.Intn(4); n++ { // requests of clearly different lengths
				patches = append(patches, patchAddServices(svcEntry(fmt.Sprintf("s%d", n), "web", "https://example.com/"+genID(r, ""))))
			}
			_, cr, err := NewCDid(r.Split(fmt.Sprint(run, "-", k)), ref.SHA256, []string{hx.Pick(r, ref.KeyTypes)}, 300, false, patches, nil, genOrigin(r), "")
			if err != nil {
				c.Violation(c.ID+" client.NewCreateRequest refused valid inputs: "+err.Error(), nil)
				return
			}
			c.Eval()
			rw := httptest.NewRecorder()
			h.Update(rw, httptest.NewRequest(http.MethodPost, "/operations", bytes.NewReader(cr.Req)))
			if rw.Code != http.StatusOK {
				c.Violation(fmt.Sprintf(c.ID+" REST handler refused a valid create: %d %s", rw.Code, rw.Body.String()), map[string]interface{}{"request": string(cr.Req)})
				return
			}
			posted = append(posted, append([]byte{}, cr.Req...))
			suffixes = append(suffixes, suffixOf(cr.Req, ref.SHA256))
		}
		if len(w.Added) != len(posted) {
			c.Violation(fmt.Sprintf(c.ID+" %d creates posted, %d operations handed to the batch writer", len(posted), len(w.Added)), nil)
			return
		}
		for k, q := range w.Added {
			if q.UniqueSuffix != suffixes[k] || !bytes.Equal(q.OperationRequest, posted[k]) {
				c.Violation(fmt.Sprintf(c.ID+" operation %d of %d handed to the batch writer through the REST handler is no longer the request posted for it after later requests were served (suffix %s, hash of the suffix data it now carries: %s)",
					k+1, len(posted), q.UniqueSuffix, suffixOfOrErr(q.OperationRequest)), map[string]interface{}{"posted": string(posted[k]), "kept": string(q.OperationRequest)})
				return
			}
		}
		for k, o := range unpub.ops {
			if k < len(posted) && (o.UniqueSuffix != suffixes[k] || !bytes.Equal(o.OperationRequest, posted[k])) {
				c.Violation(fmt.Sprintf(c.ID+" pending operation %d kept in the unpublished-operation store is no longer the request posted for it (suffix %s)", k+1, o.UniqueSuffix),
					map[string]interface{}{"posted": string(posted[k]), "kept": string(o.OperationRequest)})
				return
			}
		}
		c.Count("rest_runs_with_several_creates")
	}
}

func suffixOfOrErr(req []byte) (s string) {
	defer func() {
		if r := recover(); r != nil {
			s = fmt.Sprint("not computable: ", r)
		}
	}()
	return suffixOf(req, ref.SHA256)
}
