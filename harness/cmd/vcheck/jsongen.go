package main

// Re-serialization of JSON value trees: same value, different bytes (member order, whitespace, escapes, number spelling).

import (
	"fmt"
	"sort"
	"strconv"
	"strings"
	"unicode/utf16"

	"verifharness/hx"
	"verifharness/ref"
)

// reserOpts selects which freedoms are used.
type reserOpts struct {
	Order, Space, Escapes, Numbers bool
}

var allReser = reserOpts{true, true, true, true}

func ws(r *hx.Rng, on bool) string {
	if !on || r.Chance(1, 2) {
		return ""
	}
	return hx.Pick(r, []string{" ", "\n", "\t", "\r\n", "  ", " \t "})
}

func escapeString(r *hx.Rng, s string, on bool) string {
	var sb strings.Builder
	sb.WriteByte('"')
	for _, c := range s {
		mode := 0
		if on {
			mode = r.Intn(6)
		}
		switch {
		case c == '"':
			if mode == 1 {
				sb.WriteString(hexEsc(r, uint16(c)))
			} else {
				sb.WriteString(`\"`)
			}
		case c == '\\':
			if mode == 1 {
				sb.WriteString(hexEsc(r, uint16(c)))
			} else {
				sb.WriteString(`\\`)
			}
		case c < 0x20:
			short := map[rune]string{'\b': `\b`, '\f': `\f`, '\n': `\n`, '\r': `\r`, '\t': `\t`}
			if e, ok := short[c]; ok && mode != 1 {
				sb.WriteString(e)
			} else if mode == 2 {
				sb.WriteString(fmt.Sprintf(`\u%04X`, c))
			} else {
				sb.WriteString(fmt.Sprintf(`\u%04x`, c))
			}
		case c == '/' && mode == 1:
			sb.WriteString(`\/`)
		case mode == 1 && c != 0xFFFD:
			// \u escape (surrogate pair for astral), random hex case
			if c >= 0x10000 {
				hi, lo := utf16.EncodeRune(c)
				sb.WriteString(hexEsc(r, uint16(hi)) + hexEsc(r, uint16(lo)))
			} else {
				sb.WriteString(hexEsc(r, uint16(c)))
			}
		default:
			sb.WriteRune(c)
		}
	}
	sb.WriteByte('"')
	return sb.String()
}

func hexEsc(r *hx.Rng, u uint16) string {
	if r.Bool() {
		return fmt.Sprintf(`\u%04x`, u)
	}
	return fmt.Sprintf(`\u%04X`, u)
}

// numberSpelling returns a different but decimal-exact spelling of the shortest representation of f.
func numberSpelling(r *hx.Rng, f float64, on bool) string {
	canon, err := ref.ES6Number(f)
	if err != nil {
		return "null"
	}
	if f == 0 {
		if on && r.Bool() {
			return hx.Pick(r, []string{"-0", "0.0", "0e0", "-0.0", "0E-5"})
		}
		return canon
	}
	if !on || r.Chance(1, 3) {
		return canon
	}
	// digits and exponent from 'e' format: d.ddd e±x  -> integer mantissa M and exponent E with value = M * 10^E
	e := strconv.FormatFloat(f, 'e', -1, 64)
	sign := ""
	if strings.HasPrefix(e, "-") {
		sign, e = "-", e[1:]
	}
	mant, expS, _ := strings.Cut(e, "e")
	exp, _ := strconv.Atoi(expS)
	digits := strings.Replace(mant, ".", "", 1)
	E := exp - (len(digits) - 1)
	switch r.Intn(5) {
	case 0: // integer mantissa with exponent
		return fmt.Sprintf("%s%s%s%d", sign, digits, hx.Pick(r, []string{"e", "E"}), E)
	case 1: // scientific, explicit plus, uppercase
		es := strconv.Itoa(exp)
		if exp >= 0 {
			es = "+" + es
		}
		if len(digits) == 1 {
			return fmt.Sprintf("%s%s.0E%s", sign, digits, es)
		}
		return fmt.Sprintf("%s%s.%sE%s", sign, digits[:1], digits[1:], es)
	case 2: // extra trailing zeros in mantissa
		return fmt.Sprintf("%s%s000e%d", sign, digits, E-3)
	case 3: // 0.digits e(exp+1)
		return fmt.Sprintf("%s0.%se%d", sign, digits, exp+1)
	default: // shifted decimal point
		return fmt.Sprintf("%s%s.0e%d", sign, digits, E)
	}
}

// Reserialize renders the tree with the chosen freedoms.
func Reserialize(r *hx.Rng, v interface{}, o reserOpts) string {
	var sb strings.Builder
	sb.WriteString(ws(r, o.Space))
	reser(&sb, r, v, o)
	sb.WriteString(ws(r, o.Space))
	return sb.String()
}

func reser(sb *strings.Builder, r *hx.Rng, v interface{}, o reserOpts) {
	switch t := v.(type) {
	case nil:
		sb.WriteString("null")
	case bool:
		if t {
			sb.WriteString("true")
		} else {
			sb.WriteString("false")
		}
	case float64:
		sb.WriteString(numberSpelling(r, t, o.Numbers))
	case int:
		sb.WriteString(numberSpelling(r, float64(t), o.Numbers))
	case string:
		sb.WriteString(escapeString(r, t, o.Escapes))
	case []interface{}:
		sb.WriteByte('[')
		for i, x := range t {
			if i > 0 {
				sb.WriteByte(',')
			}
			sb.WriteString(ws(r, o.Space))
			reser(sb, r, x, o)
			sb.WriteString(ws(r, o.Space))
		}
		if len(t) == 0 {
			sb.WriteString(ws(r, o.Space))
		}
		sb.WriteByte(']')
	case *ref.OMap:
		reser(sb, r, ref.Plain(t), o)
	case map[string]interface{}:
		keys := make([]string, 0, len(t))
		for k := range t {
			keys = append(keys, k)
		}
		sort.Strings(keys)
		if o.Order {
			p := r.Perm(len(keys))
			nk := make([]string, len(keys))
			for i, j := range p {
				nk[i] = keys[j]
			}
			keys = nk
		}
		sb.WriteByte('{')
		for i, k := range keys {
			if i > 0 {
				sb.WriteByte(',')
			}
			sb.WriteString(ws(r, o.Space))
			sb.WriteString(escapeString(r, k, o.Escapes))
			sb.WriteString(ws(r, o.Space))
			sb.WriteByte(':')
			sb.WriteString(ws(r, o.Space))
			reser(sb, r, t[k], o)
			sb.WriteString(ws(r, o.Space))
		}
		if len(keys) == 0 {
			sb.WriteString(ws(r, o.Space))
		}
		sb.WriteByte('}')
	default:
		panic(fmt.Sprintf("reser: unsupported %T", v))
	}
}
