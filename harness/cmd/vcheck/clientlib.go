package main

// Requests built with the repository's CLIENT LIBRARY (pkg/versions/1_0/client, signers, pubkey), with inputs
// (commitments, reveal values) computed independently by harness/ref.

import (
	"crypto/ed25519"
	"encoding/json"
	"fmt"

	"github.com/trustbloc/sidetree-core-go/pkg/jws"
	"github.com/trustbloc/sidetree-core-go/pkg/patch"
	"github.com/trustbloc/sidetree-core-go/pkg/util/ecsigner"
	"github.com/trustbloc/sidetree-core-go/pkg/util/edsigner"
	"github.com/trustbloc/sidetree-core-go/pkg/util/pubkey"
	"github.com/trustbloc/sidetree-core-go/pkg/versions/1_0/client"

	"verifharness/hx"
	"verifharness/ref"
)

// libJWK converts the public key with the library's pubkey package (and sets the optional nonce).
func libJWK(k *ref.Key) (*jws.JWK, error) {
	var pub interface{}
	if k.Type == "Ed25519" {
		pub = ed25519.PublicKey(k.EdPub)
	} else {
		pub = &k.ECDSAPrivate().PublicKey
	}
	j, err := pubkey.GetPublicKeyJWK(pub)
	if err != nil {
		return nil, err
	}
	j.Nonce = k.Nonce
	return j, nil
}

// libSigner returns the library signer for the key.
func libSigner(k *ref.Key, kid string) client.Signer {
	if k.Type == "Ed25519" {
		return edsigner.New(k.EdPrivate(), k.Alg(), kid)
	}
	return ecsigner.New(k.ECDSAPrivate(), k.Alg(), kid)
}

func toLibPatches(patches []interface{}) ([]patch.Patch, error) {
	out := make([]patch.Patch, len(patches))
	for i, p := range patches {
		b, err := json.Marshal(p)
		if err != nil {
			return nil, err
		}
		lp, err := patch.FromBytes(b)
		if err != nil {
			return nil, err
		}
		out[i] = lp
	}
	return out, nil
}

// CDid is a DID driven through the client library.
type CDid struct {
	Code     uint64
	Suffix   string
	CurU     *ref.Key
	CurR     *ref.Key
	rng      *hx.Rng
	types    []string
	nkeys    int
	MaxDelta int64
	Nonces   bool
	n        int
	Deact    bool
	Kid      string
	// ReuseSigners: every request is signed with a signer object that has already signed a discarded draft of the same
	// request (a client keeps one signer per key and signs drafts, retries and several requests with it)
	ReuseSigners bool
}

func (d *CDid) newKey(prefix string) *ref.Key {
	d.nkeys++
	k := ref.NewKey(hx.Pick(d.rng, d.types), fmt.Sprintf("%s%d", prefix, d.nkeys), d.rng.Bytes(32))
	if d.Nonces && d.rng.Bool() {
		k.Nonce = ref.B64(d.rng.Bytes(16))
	}
	return k
}

// BuiltOp is a client-built request with its descriptor and the inputs given to the builder.
type BuiltOp struct {
	Req    []byte
	Desc   *ref.Op
	Inputs map[string]interface{}
	// keys in force before this operation rotated them (to undo a refused submission)
	PrevU, PrevR *ref.Key
}

// NewCDid builds a create request through client.NewCreateRequest.
// doc: when non-nil it is passed as OpaqueDocument, otherwise patches are used.
func NewCDid(rng *hx.Rng, code uint64, types []string, maxDelta int64, nonces bool, patches []interface{}, opaque map[string]interface{}, origin interface{}, typ string) (*CDid, *BuiltOp, error) {
	d := &CDid{Code: code, rng: rng, types: types, MaxDelta: maxDelta, Nonces: nonces}
	d.CurR, d.CurU = d.newKey("R"), d.newKey("U")
	info := &client.CreateRequestInfo{RecoveryCommitment: d.CurR.Commitment(code), UpdateCommitment: d.CurU.Commitment(code),
		AnchorOrigin: origin, Type: typ, MultihashCode: uint(code)}
	var modelPatches []interface{}
	if opaque != nil {
		b, _ := json.Marshal(opaque)
		info.OpaqueDocument = string(b)
		modelPatches = docToModelPatches(opaque)
	} else {
		lp, err := toLibPatches(patches)
		if err != nil {
			return nil, nil, err
		}
		info.Patches = lp
		modelPatches = patches
	}
	req, err := client.NewCreateRequest(info)
	if err != nil {
		return nil, nil, err
	}
	desc := &ref.Op{Label: "create", Type: "create", Request: req, Parses: true, CreateRecovery: info.RecoveryCommitment,
		NextUpdate: info.UpdateCommitment, DeltaStatus: ref.DeltaOK, Patches: modelPatches, AnchorOrigin: origin, MaxDelta: maxDelta}
	return d, &BuiltOp{Req: req, Desc: desc, Inputs: map[string]interface{}{"recoveryCommitment": info.RecoveryCommitment,
		"updateCommitment": info.UpdateCommitment, "anchorOrigin": origin, "type": typ, "patches": patches, "opaque": opaque}}, nil
}

// docToModelPatches expresses "the document is exactly doc" as model patches.
func docToModelPatches(doc map[string]interface{}) []interface{} {
	var out []interface{}
	if v, ok := doc["publicKey"]; ok {
		out = append(out, map[string]interface{}{"action": "add-public-keys", "publicKeys": v})
	}
	if v, ok := doc["service"]; ok {
		out = append(out, map[string]interface{}{"action": "add-services", "services": v})
	}
	if v, ok := doc["alsoKnownAs"]; ok {
		out = append(out, map[string]interface{}{"action": "add-also-known-as", "uris": v})
	}
	var ops []interface{}
	for k, v := range doc {
		if k == "publicKey" || k == "service" || k == "alsoKnownAs" {
			continue
		}
		ops = append(ops, map[string]interface{}{"op": "add", "path": "/" + k, "value": v})
	}
	if len(ops) > 0 {
		out = append(out, map[string]interface{}{"action": "ietf-json-patch", "patches": ops})
	}
	return out
}

// Update builds an update request through client.NewUpdateRequest.
func (d *CDid) Update(patches []interface{}, from, until int64) (*BuiltOp, error) {
	nk := d.newKey("U")
	lp, err := toLibPatches(patches)
	if err != nil {
		return nil, err
	}
	jwk, err := libJWK(d.CurU)
	if err != nil {
		return nil, err
	}
	info := &client.UpdateRequestInfo{DidSuffix: d.Suffix, Patches: lp, UpdateCommitment: nk.Commitment(d.Code), UpdateKey: jwk,
		MultihashCode: uint(d.Code), Signer: libSigner(d.CurU, d.Kid), RevealValue: d.CurU.Reveal(d.Code), AnchorFrom: from, AnchorUntil: until}
	if d.ReuseSigners {
		draft := *info
		draft.UpdateCommitment = d.newKey("T").Commitment(d.Code)
		if _, err := client.NewUpdateRequest(&draft); err != nil {
			return nil, err
		}
	}
	req, err := client.NewUpdateRequest(info)
	if err != nil {
		return nil, err
	}
	d.n++
	desc := &ref.Op{Label: fmt.Sprintf("update#%d", d.n), Type: "update", Request: req, Parses: true, Authorised: true,
		Consumes: d.CurU.Commitment(d.Code), NextUpdate: info.UpdateCommitment, DeltaStatus: ref.DeltaOK, Patches: patches,
		From: from, Until: until, MaxDelta: d.MaxDelta}
	b := &BuiltOp{Req: req, Desc: desc, Inputs: map[string]interface{}{"updateCommitment": info.UpdateCommitment, "revealValue": info.RevealValue,
		"anchorFrom": from, "anchorUntil": until, "patches": patches, "key": d.CurU.JWK(), "keyType": d.CurU.Type}, PrevU: d.CurU, PrevR: d.CurR}
	d.CurU = nk
	return b, nil
}

// Recover builds a recover request through client.NewRecoverRequest.
func (d *CDid) Recover(patches []interface{}, opaque map[string]interface{}, origin interface{}, from, until int64) (*BuiltOp, error) {
	nr, nu := d.newKey("R"), d.newKey("U")
	jwk, err := libJWK(d.CurR)
	if err != nil {
		return nil, err
	}
	info := &client.RecoverRequestInfo{DidSuffix: d.Suffix, RecoveryKey: jwk, RecoveryCommitment: nr.Commitment(d.Code),
		UpdateCommitment: nu.Commitment(d.Code), AnchorOrigin: origin, AnchorFrom: from, AnchorUntil: until, MultihashCode: uint(d.Code),
		Signer: libSigner(d.CurR, d.Kid), RevealValue: d.CurR.Reveal(d.Code)}
	modelPatches := patches
	if opaque != nil {
		b, _ := json.Marshal(opaque)
		info.OpaqueDocument = string(b)
		modelPatches = docToModelPatches(opaque)
	} else {
		lp, err := toLibPatches(patches)
		if err != nil {
			return nil, err
		}
		info.Patches = lp
	}
	if d.ReuseSigners {
		draft := *info
		draft.RecoveryCommitment = d.newKey("T").Commitment(d.Code)
		if _, err := client.NewRecoverRequest(&draft); err != nil {
			return nil, err
		}
	}
	req, err := client.NewRecoverRequest(info)
	if err != nil {
		return nil, err
	}
	d.n++
	desc := &ref.Op{Label: fmt.Sprintf("recover#%d", d.n), Type: "recover", Request: req, Parses: true, Authorised: true,
		Consumes: d.CurR.Commitment(d.Code), NextRecovery: info.RecoveryCommitment, NextUpdate: info.UpdateCommitment,
		DeltaStatus: ref.DeltaOK, Patches: modelPatches, From: from, Until: until, AnchorOrigin: origin, MaxDelta: d.MaxDelta}
	b := &BuiltOp{Req: req, Desc: desc, Inputs: map[string]interface{}{"recoveryCommitment": info.RecoveryCommitment,
		"updateCommitment": info.UpdateCommitment, "revealValue": info.RevealValue, "anchorOrigin": origin, "anchorFrom": from,
		"anchorUntil": until, "patches": patches, "opaque": opaque, "key": d.CurR.JWK(), "keyType": d.CurR.Type}, PrevU: d.CurU, PrevR: d.CurR}
	d.CurR, d.CurU = nr, nu
	return b, nil
}

// Deactivate builds a deactivate request through client.NewDeactivateRequest.
func (d *CDid) Deactivate(from, until int64) (*BuiltOp, error) {
	jwk, err := libJWK(d.CurR)
	if err != nil {
		return nil, err
	}
	info := &client.DeactivateRequestInfo{DidSuffix: d.Suffix, RecoveryKey: jwk, Signer: libSigner(d.CurR, d.Kid),
		RevealValue: d.CurR.Reveal(d.Code), AnchorFrom: from, AnchorUntil: until}
	if d.ReuseSigners {
		draft := *info
		draft.AnchorFrom, draft.AnchorUntil = 7, 8
		if _, err := client.NewDeactivateRequest(&draft); err != nil {
			return nil, err
		}
	}
	req, err := client.NewDeactivateRequest(info)
	if err != nil {
		return nil, err
	}
	d.n++
	desc := &ref.Op{Label: fmt.Sprintf("deactivate#%d", d.n), Type: "deactivate", Request: req, Parses: true, Authorised: true,
		Consumes: d.CurR.Commitment(d.Code), From: from, Until: until, MaxDelta: d.MaxDelta}
	d.Deact = true
	return &BuiltOp{Req: req, Desc: desc, Inputs: map[string]interface{}{"revealValue": info.RevealValue, "anchorFrom": from,
		"anchorUntil": until, "key": d.CurR.JWK(), "keyType": d.CurR.Type}, PrevU: d.CurU, PrevR: d.CurR}, nil
}
