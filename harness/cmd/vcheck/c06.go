package main

import (
	"encoding/json"
	"fmt"
	"net/http"
	"net/http/httptest"
	"net/url"
	"runtime"
	"sort"
	"sync"
	"time"

	"github.com/gorilla/mux"

	"github.com/trustbloc/sidetree-core-go/pkg/api/operation"
	"github.com/trustbloc/sidetree-core-go/pkg/api/protocol"
	"github.com/trustbloc/sidetree-core-go/pkg/dochandler"
	"github.com/trustbloc/sidetree-core-go/pkg/document"
	"github.com/trustbloc/sidetree-core-go/pkg/processor"
	restdoc "github.com/trustbloc/sidetree-core-go/pkg/restapi/dochandler"

	"verifharness/hx"
	"verifharness/ref"
)

func init() { register("C06", "exploration", checkC06) }

func opListKey(ops []*operation.AnchoredOperation) string {
	var s []string
	for _, o := range ops {
		s = append(s, fmt.Sprintf("%s@(%d,%d,%s)#%x", o.Type, o.TransactionTime, o.TransactionNumber, o.CanonicalReference, len(o.OperationRequest)))
	}
	sort.Strings(s)
	b, _ := json.Marshal(s)
	return string(b)
}

// fullKey includes the operation lists of the resolution model.
func fullKey(rm *protocol.ResolutionModel, err error) string {
	if err != nil {
		return "ERR"
	}
	return rmKey(rm, err) + " pub=" + opListKey(rm.PublishedOperations) + " unpub=" + opListKey(rm.UnpublishedOperations)
}

func rfc3339(t uint64) string { return time.Unix(int64(t), 0).UTC().Format(time.RFC3339) }

// rfc3339In spells the same instant with another UTC offset (RFC 3339 allows any).
func rfc3339In(t uint64, offsetMinutes int) string {
	return time.Unix(int64(t), 0).In(time.FixedZone("", offsetMinutes*60)).Format(time.RFC3339)
}

func restResolve(pc protocol.Client, suffix string, ops []*ref.Op, query string) (int, string) {
	store := hx.NewOpStore()
	var pub []*ref.Op
	for _, o := range ops {
		if o.Published() {
			pub = append(pub, o)
		}
	}
	if len(pub) > 0 {
		store.Set(suffix, ToAnchored(suffix, pub))
	}
	proc := processor.New("verif", store, pc)
	dh := dochandler.New(hx.Namespace, nil, pc, &hx.RecWriter{}, proc, hx.NopMetrics{})
	h := restdoc.NewResolveHandler(dh, hx.NopMetrics{})
	did := hx.Namespace + ":" + suffix
	req := httptest.NewRequest(http.MethodGet, "/identifiers/"+url.PathEscape(did)+query, nil)
	req = mux.SetURLVars(req, map[string]string{"id": did})
	rw := httptest.NewRecorder()
	h.Resolve(rw, req)
	body := rw.Body.String()
	if rw.Code == 200 {
		var v interface{}
		if json.Unmarshal(rw.Body.Bytes(), &v) == nil {
			body = string(ref.MustJCS(v))
		}
	}
	return rw.Code, body
}

func checkC06(c *hx.Ctx) {
	c.Rule("random histories over the operation alphabet (forks, failing deltas, recovers, deactivates, duplicate creates, unpublished operations stamped inside or after the anchored time range) with pairwise distinct coordinates; version times are also spelled with non-UTC offsets, and the REST slice also uses ledger times far ahead of any wall clock; a third of the histories is also queried with a random part of the operations supplied through WithAdditionalOperations; for every cut time T (each operation time, each gap, before the first, after the last) Resolve(H, versionTime=T) must equal Resolve of H restricted to time<=T, and for every canonical reference V Resolve(H, versionId=V) must equal Resolve of the prefix of H (in (time,number) order) ending at V; unknown ids and times before the first operation must fail; a slice also goes through the REST resolve handler (version times, also the second just before an operation spelled with fractional seconds, and every anchored reference as version id, also of operations that resolution skips); full resolution models including operation lists are compared; histories produced through REAL batch files and the transaction processor, with an earlier anchor string anchored again later (stores that copy and stores that keep the objects they are handed), and histories submitted through DocumentHandler.ProcessOperation with an unpublished-operation store and a writer that anchors before Add returns: the state recorded after every transaction is what its version id / a time before the next transaction resolves to at the end; non-trivial = cut strictly inside the history")
	nCases := c.N(400, 8000)
	root := c.Rng("cases")
	seeds := make([]uint64, nCases)
	for i := range seeds {
		seeds[i] = root.U64()
	}
	rngU := c.Rng("universe")
	p := hx.BaseProtocol()
	var unis []*Universe
	for k := 0; k < c.N(2, 5); k++ {
		types := []string{"Ed25519", "P-256"}
		if k%2 == 1 {
			types = ref.KeyTypes
		}
		u := NewUniverse(rngU.Split(fmt.Sprint(k)), ref.SHA256, p, types)
		u.BuildAlphabet(1010, 1030)
		unis = append(unis, u)
	}
	pc := hx.NewClient(hx.NewVersion(p, hx.VersionOpts{ParserOpts: hx.StrictResolution()}))
	hx.Parallel(nCases, 16, func(i int) {
		r := hx.NewRng(seeds[i], "c06")
		u := unis[i%len(unis)]
		n := 3 + r.Intn(9)
		used := map[[2]uint64]bool{}
		var H []*ref.Op
		for k := 0; k < n; k++ {
			l := hx.Pick(r, u.Labels)
			if k == 0 {
				l = "C"
			}
			if k > 0 && r.Chance(1, 10) {
				// unpublished: stamped with its intake time, which may lie inside the range of the anchored operations
				ut := uint64(2000 + r.Intn(50))
				if r.Bool() {
					ut = uint64(1000 + r.Intn(60))
					c.Count("unpublished_ops_inside_the_anchored_time_range")
				}
				H = append(H, Place(u.Ops[l], ut, uint64(k), "", p.GenesisTime))
				continue
			}
			var t, num uint64
			for {
				t, num = uint64(1000+r.Intn(12)*5), uint64(r.Intn(5))
				if k == 0 {
					t = 1000 + uint64(r.Intn(2))*5
				}
				if !used[[2]uint64{t, num}] {
					used[[2]uint64{t, num}] = true
					break
				}
			}
			H = append(H, Place(u.Ops[l], t, num, fmt.Sprintf("ref%d", k), p.GenesisTime))
		}
		ordered := ref.Order(H)
		// ---- version time cuts
		cutSet := map[uint64]bool{990: true, 999: true, 1100: true, 3000: true}
		for _, o := range H {
			cutSet[o.Time] = true
			cutSet[o.Time+1] = true
			if o.Time > 0 {
				cutSet[o.Time-1] = true
			}
		}
		var cuts []uint64
		for t := range cutSet {
			cuts = append(cuts, t)
		}
		sort.Slice(cuts, func(a, b int) bool { return cuts[a] < cuts[b] })
		minT := ordered[0].Time
		for _, o := range H {
			if o.Time < minT {
				minT = o.Time
			}
		}
		for _, T := range cuts {
			c.Eval()
			var trunc []*ref.Op
			for _, o := range H {
				if o.Time <= T {
					trunc = append(trunc, o)
				}
			}
			rmF, errF := SUTResolve(pc, u.Suffix, H, r.Perm(countPub(H)), document.WithVersionTime(rfc3339(T)))
			replay := map[string]interface{}{"suffix": u.Suffix, "history": replayOps(H), "versionTime": T}
			if len(trunc) == 0 {
				if errF == nil {
					c.Violation(fmt.Sprintf("C06 version time %d before the first operation did not fail: [%s]", T, histString(H)), replay)
					return
				}
				c.Count("time_before_first_rejected")
				continue
			}
			rmT, errT := SUTResolve(pc, u.Suffix, trunc, r.Perm(countPub(trunc)))
			kF, kT := fullKey(rmF, errF), fullKey(rmT, errT)
			if kF != kT {
				replay["filtered"], replay["truncated"] = kF, kT
				c.Violation(fmt.Sprintf("C06 Resolve(versionTime=%d) differs from resolution of the truncated history: [%s]\n   filtered:  %s\n   truncated: %s", T, histString(H), kF, kT), replay)
				return
			}
			if i%4 == 1 {
				// the same instant spelled with another UTC offset
				off := hx.Pick(r, []int{300, -300, 330, -720, 840, 1})
				// the same second with a fraction (what JavaScript's toISOString produces): operations anchored in the NEXT second are
				// not part of that version
				rmN, errN := SUTResolve(pc, u.Suffix, H, nil, document.WithVersionTime(time.Unix(int64(T), 750000000).UTC().Format(time.RFC3339Nano)))
				if kN := fullKey(rmN, errN); kN != kF {
					c.Violation(fmt.Sprintf("C06 version time %d.750 resolves differently from version time %d: [%s]\n   whole second: %s\n   with fraction: %s", T, T, histString(H), kF, kN), replay)
					return
				}
				rmZ, errZ := SUTResolve(pc, u.Suffix, H, nil, document.WithVersionTime(rfc3339In(T, off)))
				if kZ := fullKey(rmZ, errZ); kZ != kF {
					replay["spelling"], replay["utc_spelling"] = rfc3339In(T, off), rfc3339(T)
					c.Violation(fmt.Sprintf("C06 Resolve(versionTime=%s) differs from Resolve(versionTime=%s), the same instant: [%s]\n   offset spelling: %s\n   UTC spelling:    %s", rfc3339In(T, off), rfc3339(T), histString(H), kZ, kF), replay)
					return
				}
				c.Count("version_time_offset_spellings")
			}
			if i%3 == 0 {
				// the same query with part of the operations supplied through WithAdditionalOperations
				split := make([]int, len(H))
				for x := range split {
					split[x] = r.Intn(3)
				}
				rmS, errS := SUTResolveSplit(pc, u.Suffix, H, nil, split, document.WithVersionTime(rfc3339(T)))
				if kS, kT := rmKey(rmS, errS), rmKey(rmT, errT); kS != kT {
					replay["split"], replay["filtered"], replay["truncated"] = split, kS, kT
					c.Violation(fmt.Sprintf("C06 Resolve(versionTime=%d) with additional operations (split %v) differs from resolution of the truncated history: [%s]\n   filtered:  %s\n   truncated: %s", T, split, histString(H), kS, kT), replay)
					return
				}
				c.Count("time_cuts_with_additional_operations")
			}
			if len(trunc) < len(H) && len(trunc) > 0 {
				c.Distinct(fmt.Sprintf("T%d|%s", T, histString(H)))
				c.Count("inner_time_cuts")
			}
		}
		// ---- version id cuts
		for idx, o := range ordered {
			if !o.Published() {
				continue
			}
			c.Eval()
			prefix := ordered[:idx+1]
			rmF, errF := SUTResolve(pc, u.Suffix, H, r.Perm(countPub(H)), document.WithVersionID(o.Ref))
			rmT, errT := SUTResolve(pc, u.Suffix, prefix, r.Perm(countPub(prefix)))
			kF, kT := fullKey(rmF, errF), fullKey(rmT, errT)
			if kF != kT {
				c.Violation(fmt.Sprintf("C06 Resolve(versionId=%s) differs from resolution of the history up to that operation: [%s]\n   filtered:  %s\n   truncated: %s", o.Ref, histString(H), kF, kT),
					map[string]interface{}{"suffix": u.Suffix, "history": replayOps(H), "versionId": o.Ref, "filtered": kF, "truncated": kT})
				return
			}
			if i%3 == 0 {
				split := make([]int, len(H))
				for x := range split {
					split[x] = r.Intn(3)
				}
				rmS, errS := SUTResolveSplit(pc, u.Suffix, H, nil, split, document.WithVersionID(o.Ref))
				if kS, kT := rmKey(rmS, errS), rmKey(rmT, errT); kS != kT {
					c.Violation(fmt.Sprintf("C06 Resolve(versionId=%s) with additional operations (split %v) differs from resolution of the history up to that operation: [%s]\n   filtered:  %s\n   truncated: %s", o.Ref, split, histString(H), kS, kT),
						map[string]interface{}{"suffix": u.Suffix, "history": replayOps(H), "versionId": o.Ref, "split": split, "filtered": kS, "truncated": kT})
					return
				}
				c.Count("id_cuts_with_additional_operations")
			}
			// model cross-check
			st, merr := ref.Resolve(H, ref.ResolveOpts{VersionID: o.Ref})
			if km := stKey(st, merr); km != rmKey(rmF, errF) {
				c.Violation(fmt.Sprintf("C06 Resolve(versionId=%s) differs from the reference model: [%s]\n   model:   %s\n   library: %s", o.Ref, histString(H), km, rmKey(rmF, errF)),
					map[string]interface{}{"suffix": u.Suffix, "history": replayOps(H), "versionId": o.Ref})
				return
			}
			if idx+1 < len(ordered) {
				c.Distinct(fmt.Sprintf("V%s|%s", o.Ref, histString(H)))
				c.Count("inner_id_cuts")
			}
		}
		// ---- one long-lived processor shared by concurrent callers that ask for different versions at once: every caller gets
		// what it would get alone (options of one call must not reach another)
		if i%6 == 0 {
			var pubOps []*ref.Op
			for _, o := range H {
				if o.Published() {
					pubOps = append(pubOps, o)
				}
			}
			cstore := hx.NewOpStore()
			cstore.Set(u.Suffix, ToAnchored(u.Suffix, pubOps))
			cstore.GetHook = func() { runtime.Gosched(); time.Sleep(20 * time.Microsecond) }
			cbc := &budgetClient{inner: pc, budget: int64(60) * int64(4*len(pubOps)+16)}
			proc := processor.New("verif", cstore, cbc)
			type query struct {
				name string
				opts []document.ResolutionOption
				want string
			}
			qs := []query{{name: "latest"}}
			po := ref.Order(pubOps)
			for _, o := range po {
				qs = append(qs, query{name: "versionId=" + o.Ref, opts: []document.ResolutionOption{document.WithVersionID(o.Ref)}},
					query{name: fmt.Sprintf("versionTime=%d", o.Time), opts: []document.ResolutionOption{document.WithVersionTime(rfc3339(o.Time))}})
			}
			if len(qs) > 9 {
				qs = qs[:9]
			}
			for k := range qs {
				// what each query gives on a node of its own
				rm, err := SUTResolve(pc, u.Suffix, pubOps, nil, qs[k].opts...)
				qs[k].want = rmKey(rm, err)
			}
			// the shared node first answers the queries one after the other, newest first (nothing of an earlier answer may show
			// in a later one), then all at once
			for k := range qs {
				var got string
				func() {
					defer func() {
						if x := recover(); x != nil {
							got = fmt.Sprintf("NO TERMINATION within the step budget (%v)", x)
						}
					}()
					rm, err := proc.Resolve(u.Suffix, qs[k].opts...)
					got = rmKey(rm, err)
				}()
				if got != qs[k].want {
					c.Violation(fmt.Sprintf("C06 Resolve(%s) on a node that has answered other version queries for the DID before differs from the answer of a fresh node\n   fresh:  %s\n   shared: %s :: [%s]", qs[k].name, qs[k].want, got, histString(pubOps)),
						map[string]interface{}{"suffix": u.Suffix, "history": replayOps(pubOps)})
					return
				}
			}
			var wg sync.WaitGroup
			var mu sync.Mutex
			problem := ""
			for g := range qs {
				wg.Add(1)
				go func(g int) {
					defer wg.Done()
					defer func() {
						if x := recover(); x != nil {
							mu.Lock()
							problem = fmt.Sprintf("Resolve(%s) did not terminate within its step budget while other callers were resolving other versions (%v)", qs[g].name, x)
							mu.Unlock()
						}
					}()
					for round := 0; round < 5; round++ {
						rm, err := proc.Resolve(u.Suffix, qs[g].opts...)
						if got := rmKey(rm, err); got != qs[g].want {
							mu.Lock()
							if problem == "" {
								problem = fmt.Sprintf("Resolve(%s) gave a state while other callers were resolving other versions that differs from the state it gives alone\n   alone:      %s\n   concurrent: %s", qs[g].name, qs[g].want, got)
							}
							mu.Unlock()
							return
						}
					}
				}(g)
			}
			wg.Wait()
			c.Eval()
			if problem != "" {
				c.Violation("C06 "+problem+" :: ["+histString(pubOps)+"]", map[string]interface{}{"suffix": u.Suffix, "history": replayOps(pubOps)})
				return
			}
			c.Count("concurrent_version_queries")
		}
		// unknown version id
		c.Eval()
		if _, err := SUTResolve(pc, u.Suffix, H, nil, document.WithVersionID("no-such-reference")); err == nil {
			c.Violation("C06 unknown version id did not fail: ["+histString(H)+"]", map[string]interface{}{"suffix": u.Suffix, "history": replayOps(H)})
			return
		}
		c.Count("unknown_id_rejected")
		// ---- REST slice
		if i%8 == 0 {
			pubOnly := []*ref.Op{}
			for _, o := range H {
				if o.Published() {
					pubOnly = append(pubOnly, o)
				}
			}
			T := cuts[r.Intn(len(cuts))]
			if i%16 == 8 {
				// a ledger whose (logical) time runs far ahead of any wall clock: the resolver's own clock must not matter
				const ahead = 4000000000
				shifted := make([]*ref.Op, len(pubOnly))
				for k, o := range pubOnly {
					cp := *o
					cp.Time += ahead
					shifted[k] = &cp
				}
				pubOnly, T = shifted, T+ahead
				c.Count("rest_comparisons_ahead_of_the_wall_clock")
			}
			var trunc []*ref.Op
			for _, o := range pubOnly {
				if o.Time <= T {
					trunc = append(trunc, o)
				}
			}
			c.Eval()
			spelling := rfc3339(T)
			if i%16 == 0 {
				spelling = rfc3339In(T, hx.Pick(r, []int{300, -300, 330}))
			}
			// the second just before an operation's, spelled with a fraction (seeded C06-19: a front end that rounds instead of
			// flooring lets the operation anchored in the next second through); the instant is still before that operation
			for k, o := range pubOnly {
				if k >= 4 {
					break
				}
				Tf := o.Time - 1
				var truncF []*ref.Op
				for _, q := range pubOnly {
					if q.Time <= Tf {
						truncF = append(truncF, q)
					}
				}
				c.Eval()
				frac := []int64{500000000, 750000000, 999999999, 100000000}[(i/8+k)%4]
				sp := time.Unix(int64(Tf), frac).UTC().Format(time.RFC3339Nano)
				codeF, bodyF := restResolve(pc, u.Suffix, pubOnly, "?versionTime="+url.QueryEscape(sp))
				if len(truncF) == 0 {
					if codeF == 200 {
						c.Violation(fmt.Sprintf("C06 REST versionTime=%s (before the first operation) returned 200: [%s]", sp, histString(pubOnly)), map[string]interface{}{"history": replayOps(pubOnly), "versionTime": sp})
						return
					}
				} else {
					codeT, bodyT := restResolve(pc, u.Suffix, truncF, "")
					if codeF != codeT || (codeF == 200 && bodyF != bodyT) {
						c.Violation(fmt.Sprintf("C06 REST resolve with versionTime=%s differs from REST resolve of the history truncated at %d: [%s]\n   filtered:  %d %s\n   truncated: %d %s", sp, Tf, histString(pubOnly), codeF, bodyF, codeT, bodyT),
							map[string]interface{}{"history": replayOps(pubOnly), "versionTime": sp})
						return
					}
				}
				c.Count("rest_comparisons_fractional_seconds")
			}
			codeF, bodyF := restResolve(pc, u.Suffix, pubOnly, "?versionTime="+url.QueryEscape(spelling))
			if len(trunc) == 0 {
				if codeF == 200 {
					c.Violation(fmt.Sprintf("C06 REST versionTime=%d before first operation returned 200: [%s]", T, histString(pubOnly)), map[string]interface{}{"history": replayOps(pubOnly), "versionTime": T})
					return
				}
			} else {
				codeT, bodyT := restResolve(pc, u.Suffix, trunc, "")
				if codeF != codeT || (codeF == 200 && bodyF != bodyT) {
					c.Violation(fmt.Sprintf("C06 REST resolve with versionTime=%d differs from REST resolve of the truncated history: [%s]\n   filtered:  %d %s\n   truncated: %d %s", T, histString(pubOnly), codeF, bodyF, codeT, bodyT),
						map[string]interface{}{"history": replayOps(pubOnly), "versionTime": T})
					return
				}
				c.Count("rest_comparisons")
			}
			// the same through version ids: every anchored reference - also of operations that resolution skips (lost a
			// competition, not authorised, bad delta) - names the state of the history up to and including that operation
			inOrder := ref.Order(pubOnly)
			for k, o := range inOrder {
				if (k+i/8)%2 == 1 && !c.Thorough() {
					continue
				}
				c.Eval()
				codeV, bodyV := restResolve(pc, u.Suffix, pubOnly, "?versionId="+url.QueryEscape(o.Ref))
				codeP, bodyP := restResolve(pc, u.Suffix, inOrder[:k+1], "")
				if codeV != codeP || (codeV == 200 && bodyV != bodyP) {
					c.Violation(fmt.Sprintf("C06 REST resolve with versionId=%s differs from REST resolve of the history up to that operation: [%s]\n   by version id: %d %s\n   prefix:        %d %s", o.Ref, histString(pubOnly), codeV, trunc600(bodyV), codeP, trunc600(bodyP)),
						map[string]interface{}{"history": replayOps(pubOnly), "versionId": o.Ref})
					return
				}
				c.Count("rest_version_id_comparisons")
			}
		}
		// ---- long-form DID of the anchored DID: an unknown version id / a time before the first operation is still an error
		if i%4 == 0 && H[0].Label == "C" && H[0].Published() {
			var init map[string]interface{}
			_ = json.Unmarshal(H[0].Request, &init)
			delete(init, "type")
			long := hx.Namespace + ":" + u.Suffix + ":" + ref.B64(ref.MustJCS(init))
			store := hx.NewOpStore()
			var pubOnly []*ref.Op
			for _, o := range H {
				if o.Published() {
					pubOnly = append(pubOnly, o)
				}
			}
			store.Set(u.Suffix, ToAnchored(u.Suffix, pubOnly))
			lenient := hx.NewClient(hx.NewVersion(p, hx.VersionOpts{})) // the long-form fallback parses the initial state at intake level
			dh := dochandler.New(hx.Namespace, nil, lenient, &hx.RecWriter{}, processor.New("verif", store, lenient), hx.NopMetrics{})
			if _, err := dh.ResolveDocument(long); err != nil {
				c.Violation("C06 long-form DID of an anchored DID does not resolve at all: "+err.Error(), map[string]interface{}{"did": long, "history": replayOps(pubOnly)})
				return
			}
			for _, opt := range []struct {
				name string
				o    document.ResolutionOption
			}{{"unknown versionId", document.WithVersionID("no-such-reference")}, {"versionTime before the first operation", document.WithVersionTime(rfc3339(minT - 1))}} {
				c.Eval()
				if _, err := dh.ResolveDocument(long, opt.o); err == nil {
					c.Violation("C06 ResolveDocument(long-form DID of an anchored DID, "+opt.name+") returned a document instead of an error: ["+histString(pubOnly)+"]",
						map[string]interface{}{"did": long, "history": replayOps(pubOnly), "option": opt.name})
					return
				}
				c.Count("longform_bad_version_rejected")
			}
		}
		if i < 2 {
			c.Sample(2, map[string]interface{}{"history": histString(H), "time_cuts": cuts, "id_cuts": len(ordered)})
		}
	})
	c06OneNodeManyQueries(c, unis, p, pc)
	c.Floor("nodes_queried_repeatedly_with_pending_operations", 100)
	c06ThroughBatchFiles(c)
	c06FastAnchoring(c)
	c.Floor("histories_through_batch_files_with_repeated_anchor_string", 40)
	c.Floor("histories_anchored_before_the_handler_returns", 30)
	c.Floor("rest_version_id_comparisons", 100)
	c.Floor("inner_time_cuts", 200)
	c.Floor("concurrent_version_queries", 50)
	c.Floor("time_cuts_with_additional_operations", 200)
	c.Floor("id_cuts_with_additional_operations", 100)
	c.Floor("unpublished_ops_inside_the_anchored_time_range", 20)
	c.Floor("inner_id_cuts", 200)
	c.Floor("time_before_first_rejected", 50)
	c.Floor("rest_comparisons", 10)
	c.Floor("rest_comparisons_fractional_seconds", 20)
	c.Floor("rest_comparisons_ahead_of_the_wall_clock", 5)
	c.Floor("version_time_offset_spellings", 200)
	c.Floor("longform_bad_version_rejected", 20)
}

func countPub(ops []*ref.Op) int {
	n := 0
	for _, o := range ops {
		if o.Published() {
			n++
		}
	}
	return n
}
