package main

import (
	"fmt"
	"os"
)

// workers: crash-isolated execution of library calls (filled in by the properties that need it)
var workers = map[string]func(args []string){}

func workerMain(args []string) {
	if len(args) == 0 {
		fmt.Fprintln(os.Stderr, "worker: missing kind")
		os.Exit(2)
	}
	w, ok := workers[args[0]]
	if !ok {
		fmt.Fprintf(os.Stderr, "worker: unknown kind %s\n", args[0])
		os.Exit(2)
	}
	w(args[1:])
}
