package main

import (
	"encoding/json"
	"fmt"
	"sort"
	"strings"
	"sync/atomic"

	"github.com/trustbloc/sidetree-core-go/pkg/api/operation"
	"github.com/trustbloc/sidetree-core-go/pkg/api/protocol"
	"github.com/trustbloc/sidetree-core-go/pkg/api/txn"
	"github.com/trustbloc/sidetree-core-go/pkg/versions/1_0/operationparser"
	"github.com/trustbloc/sidetree-core-go/pkg/versions/1_0/txnprovider"

	"verifharness/hx"
	"verifharness/ref"
)

func init() { register("C13", "exploration", checkC13) }

// virtualClock is a TimeValidator on virtual time returning the library's own sentinel errors.
type virtualClock struct{ now int64 }

func (v *virtualClock) Validate(from, until int64) error {
	now := atomic.LoadInt64(&v.now)
	if from != 0 && from > now {
		return operationparser.ErrOperationEarly
	}
	if until != 0 && until < now {
		return operationparser.ErrOperationExpired
	}
	return nil
}

// batchOp is one pre-built queued operation with its expectations.
type batchOp struct {
	ID      string // unique marker
	Type    string
	Suffix  string
	Req     []byte
	Origin  interface{} // embedded anchor origin (create / recover)
	Until   int64
	QOrigin interface{} // anchor origin carried by the queued operation
	NS      string      // namespace the operation was queued under (default: the harness namespace; an alias names the same DID)
}

// batchPool pre-builds, per DID, client-built operations of every type (several updates with different windows).
// suffixCode (optional): the algorithm the protocol computes DID suffixes with (its first one) when it differs from the
// algorithm the controller uses for delta hashes, reveal values and commitments.
func batchPool(r *hx.Rng, code uint64, nDIDs int, big bool, suffixCode ...uint64) [][]*batchOp {
	sfxCode := code
	if len(suffixCode) > 0 {
		sfxCode = suffixCode[0]
	}
	var pool [][]*batchOp
	for d := 0; d < nDIDs; d++ {
		ids := newIDPool(r)
		var patches []interface{}
		if big {
			// hardly compressible content: the files decompress to about 1.3 x their compressed size
			patches = []interface{}{patchJSON(map[string]interface{}{"op": "add", "path": "/blob", "value": ref.B64(r.Bytes(1100))})}
		} else {
			patches = genPatches(r, 2, ids)
			if d%3 == 2 {
				// characters that JSON encoders escape although they need not (line / paragraph separator, replacement character)
				patches = append(patches, patchJSON(map[string]interface{}{"op": "add", "path": "/note", "value": "line one" + string(rune(0x2028)) + "two" + string(rune(0x2029)) + "three" + string(rune(0xFFFD)) + string(rune(0x7f))}))
			}
		}
		origin := genOrigin(r)
		typ := ""
		if d%3 == 1 {
			typ = fmt.Sprintf("t%d", d) // optional suffix-data type: part of the suffix and of the request that must read back
		}
		cd, cr, err := NewCDid(r.Split(fmt.Sprint("d", d)), code, []string{ref.KeyTypes[d%5]}, 300, false, patches, nil, origin, typ)
		if err != nil {
			panic(err)
		}
		cd.Suffix = suffixOf(cr.Req, sfxCode)
		mark := func(s string) string { return fmt.Sprintf("did%d-%s", d, s) }
		ops := []*batchOp{{ID: mark("create"), Type: "create", Suffix: cd.Suffix, Req: cr.Req, Origin: origin}}
		// independent branches: each op built from the keys in force after the create (none is applied, the handler only parses)
		curU, curR := cd.CurU, cd.CurR
		for k, until := range []int64{0, 0, 500} { // third update expires at virtual time > 500
			cd.CurU, cd.CurR = curU, curR
			b, err := cd.Update(genPatches(r, 2, ids), 0, until)
			if err != nil {
				panic(err)
			}
			ops = append(ops, &batchOp{ID: mark(fmt.Sprint("update", k)), Type: "update", Suffix: cd.Suffix, Req: b.Req, Until: until, QOrigin: origin})
		}
		cd.CurU, cd.CurR = curU, curR
		ro := genOrigin(r)
		b, err := cd.Recover(genPatches(r, 2, ids), nil, ro, 0, 0)
		if err != nil {
			panic(err)
		}
		ops = append(ops, &batchOp{ID: mark("recover"), Type: "recover", Suffix: cd.Suffix, Req: b.Req, Origin: ro})
		cd.CurU, cd.CurR = curU, curR
		b, err = cd.Deactivate(0, 0)
		if err != nil {
			panic(err)
		}
		ops = append(ops, &batchOp{ID: mark("deactivate"), Type: "deactivate", Suffix: cd.Suffix, Req: b.Req, QOrigin: origin})
		cd.CurU, cd.CurR = curU, curR
		b, err = cd.Deactivate(0, 400)
		if err != nil {
			panic(err)
		}
		ops = append(ops, &batchOp{ID: mark("deactivate-expiring"), Type: "deactivate", Suffix: cd.Suffix, Req: b.Req, Until: 400, QOrigin: origin})
		pool = append(pool, ops)
	}
	return pool
}

func (b *batchOp) queued() *operation.QueuedOperation {
	ns := hx.Namespace
	if b.NS != "" {
		ns = b.NS
	}
	return &operation.QueuedOperation{Type: operation.Type(b.Type), OperationRequest: b.Req, UniqueSuffix: b.Suffix, Namespace: ns, AnchorOrigin: b.QOrigin}
}

var typeRank = map[string]int{"create": 0, "recover": 1, "update": 2, "deactivate": 3}

// c13Proto: file limits generous so that only the layout is under test here (limits belong to C14).
func c13Proto(code uint64) protocol.Protocol {
	p := hx.BaseProtocol()
	p.MultihashAlgorithms = []uint{uint(code)}
	p.MaxOperationSize, p.MaxDeltaSize = 20000, 8000
	p.MaxChunkFileSize, p.MaxCoreIndexFileSize, p.MaxProofFileSize, p.MaxProvisionalIndexFileSize = 2000000, 2000001, 2000002, 2000003
	p.MaxOperationCount = 12
	return p
}

// roundTrip runs PrepareTxnFiles + GetTxnOperations for one batch and checks every clause of C13.
func batchRoundTrip(c *hx.Ctx, p protocol.Protocol, batch []*batchOp, now int64, tag string) bool {
	c.Eval()
	cas := hx.NewMemCAS()
	clock := &virtualClock{now: now}
	v := hx.NewVersion(p, hx.VersionOpts{CAS: cas, ParserOpts: []operationparser.Option{operationparser.WithAnchorTimeValidator(clock)}})
	q := make([]*operation.QueuedOperation, len(batch))
	var desc []string
	for i, b := range batch {
		q[i] = b.queued()
		desc = append(desc, b.ID)
	}
	replay := map[string]interface{}{"batch": desc, "virtual_now": now, "tag": tag}
	fail := func(f string, a ...interface{}) bool {
		reqs := map[string]string{}
		for _, b := range batch {
			reqs[b.ID] = string(b.Req)
		}
		replay["requests"] = reqs
		c.Violation("C13 "+fmt.Sprintf(f, a...)+" :: batch ["+strings.Join(desc, " ")+"]", replay)
		return false
	}
	// expected partition
	var inc, def, exp []*batchOp
	seen := map[string]bool{}
	for _, b := range batch {
		switch {
		case b.Until != 0 && b.Until < now:
			exp = append(exp, b)
		case seen[b.Suffix]:
			def = append(def, b)
		default:
			seen[b.Suffix] = true
			inc = append(inc, b)
		}
	}
	info, err := v.Handler.PrepareTxnFiles(q)
	if err != nil {
		return fail("PrepareTxnFiles failed on a batch of valid operations: %v", err)
	}
	same := func(got []*operation.QueuedOperation, want []*batchOp) bool {
		if len(got) != len(want) {
			return false
		}
		for i := range got {
			if string(got[i].OperationRequest) != string(want[i].Req) || got[i].UniqueSuffix != want[i].Suffix {
				return false
			}
		}
		return true
	}
	if !same(info.AdditionalOperations, def) {
		return fail("deferred operations differ: got %d, expected %d (%v)", len(info.AdditionalOperations), len(def), ids(def))
	}
	if !same(info.ExpiredOperations, exp) {
		return fail("expired operations differ: got %d, expected %d (%v)", len(info.ExpiredOperations), len(exp), ids(exp))
	}
	if len(info.AdditionalOperations)+len(info.ExpiredOperations)+len(inc) != len(batch) {
		return fail("queued operations are not accounted for exactly once")
	}
	// operation references: one per included suffix
	if len(info.OperationReferences) != len(inc) {
		return fail("%d operation references for %d included operations", len(info.OperationReferences), len(inc))
	}
	refBy := map[string]*operation.Reference{}
	for _, r := range info.OperationReferences {
		refBy[r.UniqueSuffix] = r
	}
	for _, b := range inc {
		r := refBy[b.Suffix]
		if r == nil || string(r.Type) != b.Type {
			return fail("operation reference for %s missing or of wrong type", b.ID)
		}
		wantO := b.Origin
		if b.Type == "update" || b.Type == "deactivate" {
			wantO = b.QOrigin
		}
		if !jsonEq(r.AnchorOrigin, wantO) {
			return fail("operation reference for %s carries anchor origin %v, expected %v", b.ID, r.AnchorOrigin, wantO)
		}
	}
	// anchor string
	parts := strings.SplitN(info.AnchorString, ".", 2)
	if len(parts) != 2 || parts[0] != fmt.Sprint(len(inc)) {
		return fail("anchor string %q does not carry the number of included operations %d", info.AnchorString, len(inc))
	}
	if _, ok := cas.M[parts[1]]; !ok {
		return fail("anchor string %q does not reference a file written to CAS", info.AnchorString)
	}
	got, err := v.Provider.GetTxnOperations(&txn.SidetreeTxn{AnchorString: info.AnchorString, Namespace: hx.Namespace, TransactionTime: 100, TransactionNumber: 1, ProtocolVersion: p.GenesisTime})
	if len(inc) == 0 {
		if err == nil && len(got) != 0 {
			return fail("batch with no included operation read back %d operations", len(got))
		}
		c.Count("all_expired_batches")
		return true
	}
	if err != nil {
		return fail("GetTxnOperations failed on files written by PrepareTxnFiles: %v", err)
	}
	// a late reader: long after every anchoring window of the batch has closed (and long before any has opened) the files still
	// read back - what was anchored in time stays anchored
	for _, late := range []int64{1 << 40, 1} {
		was := atomic.SwapInt64(&clock.now, late)
		gotLate, lerr := v.Provider.GetTxnOperations(&txn.SidetreeTxn{AnchorString: info.AnchorString, Namespace: hx.Namespace, TransactionTime: 100, TransactionNumber: 1, ProtocolVersion: p.GenesisTime})
		atomic.StoreInt64(&clock.now, was)
		if lerr != nil || len(gotLate) != len(got) {
			return fail("the batch files read back at cut time (%d operations) do not read back at node time %d: %d operations, err=%v", len(got), late, len(gotLate), lerr)
		}
	}
	c.Count("late_read_backs")
	want := append([]*batchOp{}, inc...)
	sort.SliceStable(want, func(i, j int) bool { return typeRank[want[i].Type] < typeRank[want[j].Type] })
	if len(got) != len(want) {
		return fail("read back %d operations, anchor string says %d", len(got), len(want))
	}
	for i, g := range got {
		w := want[i]
		if string(g.Type) != w.Type || g.UniqueSuffix != w.Suffix {
			return fail("position %d reads back as %s/%s, expected %s (%s/%s); order must be create, recover, update, deactivate", i, g.Type, g.UniqueSuffix, w.ID, w.Type, w.Suffix)
		}
		var a, b interface{}
		if json.Unmarshal(g.OperationRequest, &a) != nil || json.Unmarshal(w.Req, &b) != nil || !treesEqual(a, b) {
			replay["read_back_request"] = string(g.OperationRequest)
			return fail("operation %s does not read back JSON-equal to the submitted request", w.ID)
		}
		if (w.Type == "create" || w.Type == "recover") && !jsonEq(g.AnchorOrigin, w.Origin) {
			return fail("operation %s reads back with anchor origin %v, expected %v", w.ID, g.AnchorOrigin, w.Origin)
		}
	}
	// the same anchor string read by a node that holds none of the files itself: everything comes from the second of two
	// alternate sources named by the transaction (the first one has nothing)
	sameAsGot := func(other []*operation.AnchoredOperation) bool {
		if len(other) != len(got) {
			return false
		}
		for i := range got {
			if string(other[i].OperationRequest) != string(got[i].OperationRequest) || other[i].Type != got[i].Type || other[i].UniqueSuffix != got[i].UniqueSuffix {
				return false
			}
		}
		return true
	}
	{
		alt := hx.NewMemCAS()
		for addr, content := range cas.M {
			alt.M["src1|"+addr] = content
		}
		va := hx.NewVersion(p, hx.VersionOpts{CAS: alt, ParserOpts: []operationparser.Option{operationparser.WithAnchorTimeValidator(clock)},
			ProviderOpts: []txnprovider.Opt{txnprovider.WithSourceCASURIFormatter(func(uri, source string) (string, error) { return source + "|" + uri, nil })}})
		gotAlt, err := va.Provider.GetTxnOperations(&txn.SidetreeTxn{AnchorString: info.AnchorString, Namespace: hx.Namespace, TransactionTime: 100, TransactionNumber: 1,
			ProtocolVersion: p.GenesisTime, AlternateSources: []string{"src0", "src1"}})
		if err != nil {
			return fail("GetTxnOperations through the transaction's alternate sources failed although the source holds every file: %v", err)
		}
		if !sameAsGot(gotAlt) {
			return fail("batch read through an alternate source differs from the batch read from the local CAS (%d vs %d operations)", len(gotAlt), len(got))
		}
		c.Count("alternate_source_reads")
	}
	// CAS write faults: the k-th write fails (once / from then on); PrepareTxnFiles must either report the error or
	// return an anchor string that reads back as exactly this batch
	nWrites := cas.Writes()
	for k := 1; k <= nWrites; k++ {
		for _, permanent := range []bool{false, true} {
			fc := hx.NewMemCAS()
			kk, perm := k, permanent
			fc.WriteErr = func(call int, _ []byte) error {
				if call == kk || (perm && call > kk) {
					return fmt.Errorf("injected CAS write failure")
				}
				return nil
			}
			vf := hx.NewVersion(p, hx.VersionOpts{CAS: fc, ParserOpts: []operationparser.Option{operationparser.WithAnchorTimeValidator(clock)}})
			fi, err := vf.Handler.PrepareTxnFiles(q)
			c.Eval()
			if err != nil {
				c.Count("write_fault_reported")
				continue
			}
			gotF, err := vf.Provider.GetTxnOperations(&txn.SidetreeTxn{AnchorString: fi.AnchorString, Namespace: hx.Namespace, TransactionTime: 100, TransactionNumber: 1, ProtocolVersion: p.GenesisTime})
			if err != nil || !sameAsGot(gotF) {
				replay["failed_write"], replay["permanent"] = k, permanent
				return fail("CAS write #%d of %d failed (permanent=%v), PrepareTxnFiles returned anchor string %q without error, but it does not read back as the batch: %v", k, nWrites, permanent, fi.AnchorString, err)
			}
			c.Count("write_fault_survived")
		}
	}
	c.Count(fmt.Sprintf("batches_with_%d_types", countTypes(inc)))
	if len(def) > 0 {
		c.Count("batches_with_deferred")
	}
	if len(exp) > 0 {
		c.Count("batches_with_expired")
	}
	c.CountN("cas_files_written", len(cas.M))
	c.CountN("operations_read_back", len(got))
	c.Distinct(strings.Join(desc, ","))
	return true
}

func ids(b []*batchOp) []string {
	var o []string
	for _, x := range b {
		o = append(o, x.ID)
	}
	return o
}

func countTypes(b []*batchOp) int {
	m := map[string]bool{}
	for _, x := range b {
		m[x.Type] = true
	}
	return len(m)
}

func checkC13(c *hx.Ctx) {
	c.Rule("batches of client-built operations through the REAL OperationHandler, gzip and OperationProvider over an in-memory CAS: all 4+16+64+256 type sequences of length <= 4 on distinct DIDs (exhaustive), the same sequences with repeated suffixes at every position, deactivate-only / update-only / single-operation / maximum-size batches, operations of different DIDs that reveal the same key, a protocol whose suffix algorithm (its first) differs from the algorithm the controllers hash with, batches with operations expired on a virtual clock (also all-expired), random mixes up to MaxOperationCount; every operation carries a unique marker; oracle: one operation per distinct suffix (the first queued) reads back with same type, suffix, JSON-equal request and embedded anchor origin, ordered create, recover, update, deactivate; anchor count = operations read back; included + deferred + expired = queued exactly once; every batch is read back again with the node's clock far past / far before every anchoring window, and through the transaction's alternate sources by a node holding no file, and re-created with the k-th CAS write failing (once / permanently) for every k: error or an anchor string that reads back as the batch; batches cut by the REAL batch writer from the real in-memory queue with one anchor / CAS write failing (roll-back and second cut): over the run every queued operation reads back exactly once and the first queued operation of a DID before the others; non-trivial = batch with >= 2 operations; distinct = distinct batches")
	rng := c.Rng("pool")
	type env struct {
		p    protocol.Protocol
		pool [][]*batchOp
	}
	var envs []env
	for _, code := range []uint64{ref.SHA256, ref.SHA512} {
		envs = append(envs, env{c13Proto(code), batchPool(rng.Split(fmt.Sprint(code)), code, 12, false)})
	}
	// a protocol enabling two algorithms, its first one (which names DID suffixes) not being the one the controllers use
	mixed := c13Proto(ref.SHA512)
	mixed.MultihashAlgorithms = []uint{ref.SHA512, ref.SHA256}
	mixedEnv := env{mixed, batchPool(rng.Split("mixed"), ref.SHA256, 12, false, ref.SHA512)}
	bigEnv := env{c13Proto(ref.SHA256), batchPool(rng.Split("big"), ref.SHA256, 12, true)}
	pick := func(e env, d int, typ string, k int) *batchOp {
		var m []*batchOp
		for _, o := range e.pool[d] {
			if o.Type == typ {
				m = append(m, o)
			}
		}
		return m[k%len(m)]
	}
	types := []string{"create", "update", "recover", "deactivate"}
	// exhaustive type sequences
	var seqs [][]string
	var rec func(cur []string)
	rec = func(cur []string) {
		if len(cur) > 0 {
			seqs = append(seqs, append([]string{}, cur...))
		}
		if len(cur) == 4 {
			return
		}
		for _, t := range types {
			rec(append(cur, t))
		}
	}
	rec(nil)
	type job struct {
		e     env
		batch []*batchOp
		now   int64
		tag   string
	}
	var jobs []job
	for si, s := range seqs {
		e := envs[si%2]
		// distinct DIDs (non-expiring variants: index 0)
		var b []*batchOp
		for i, t := range s {
			b = append(b, pick(e, i, t, 0))
		}
		jobs = append(jobs, job{e, b, 100, "types-distinct-dids"})
		// repeated suffix: position j re-uses DID of position i
		for i := 0; i < len(s); i++ {
			for j := i + 1; j < len(s); j++ {
				var b2 []*batchOp
				for k, t := range s {
					d := k
					if k == j {
						d = i
					}
					b2 = append(b2, pick(e, d, t, k)) // k-th variant so that two updates of one DID are different requests
				}
				jobs = append(jobs, job{e, b2, 100, "repeated-suffix"})
			}
		}
		// same sequence at a virtual time where the expiring variants have expired
		var b3 []*batchOp
		for i, t := range s {
			b3 = append(b3, pick(e, i, t, 2-(i%2))) // update variant 2 / deactivate variant 1 expire
		}
		jobs = append(jobs, job{e, b3, 450, "expiring-at-450"}, job{e, b3, 600, "expiring-at-600"})
	}
	for si, sq := range seqs {
		if si%5 != 0 {
			continue
		}
		var b []*batchOp
		for i, t := range sq {
			b = append(b, pick(mixedEnv, i, t, 0))
		}
		jobs = append(jobs, job{mixedEnv, b, 100, "suffix-algorithm-differs-from-controller-algorithm"})
	}
	// special shapes
	for _, e := range envs {
		var allU, allD, allExp []*batchOp
		for d := range e.pool {
			allU = append(allU, pick(e, d, "update", 0))
			allD = append(allD, pick(e, d, "deactivate", 0))
			allExp = append(allExp, pick(e, d, "update", 2))
		}
		jobs = append(jobs, job{e, allU, 100, "update-only-max"}, job{e, allD, 100, "deactivate-only-max"}, job{e, allExp, 1000, "all-expired"},
			job{e, allU[:1], 100, "single"}, job{e, allD[:1], 100, "single"})
		var sameDid []*batchOp
		for k := 0; k < 3; k++ {
			sameDid = append(sameDid, pick(e, 0, "update", k))
		}
		sameDid = append(sameDid, pick(e, 0, "deactivate", 0), pick(e, 0, "recover", 0), pick(e, 0, "create", 0))
		jobs = append(jobs, job{e, sameDid, 100, "six-operations-one-suffix"})
	}
	{
		var maxB []*batchOp
		for d := range bigEnv.pool {
			maxB = append(maxB, pick(bigEnv, d, types[d%3], 0))
		}
		jobs = append(jobs, job{bigEnv, maxB, 100, "maximum-size"})
	}
	// realistic limits: every per-type file limit set to exactly the compressed size of the file the handler writes for this
	// batch; the files decompress to more than that limit but less than limit x decompression factor -> must read back
	{
		var maxB []*batchOp
		for d := range bigEnv.pool {
			maxB = append(maxB, pick(bigEnv, d, types[d%4], 0))
		}
		tight := bigEnv.p
		cas := hx.NewMemCAS()
		v := hx.NewVersion(tight, hx.VersionOpts{CAS: cas})
		q := make([]*operation.QueuedOperation, len(maxB))
		for i, b := range maxB {
			q[i] = b.queued()
		}
		if info, err := v.Handler.PrepareTxnFiles(q); err == nil {
			size := map[string][2]int{}
			for _, a := range info.Artifacts {
				comp := cas.M[a.ID]
				size[a.Desc] = [2]int{len(comp), len(gunzip(comp))}
			}
			mx := func(a, b int) int {
				if a > b {
					return a
				}
				return b
			}
			tight.MaxChunkFileSize = uint(size["chunk file"][0])
			tight.MaxCoreIndexFileSize = uint(size["core index file"][0])
			tight.MaxProvisionalIndexFileSize = uint(size["provisional index file"][0])
			tight.MaxProofFileSize = uint(mx(size["core proof file"][0], size["provisional proof file"][0]))
			tight.MaxMemoryDecompressionFactor = 3
			okRatio := true
			for _, sz := range size {
				if sz[1] > sz[0]*3 {
					okRatio = false
				}
			}
			if okRatio && size["chunk file"][1] > size["chunk file"][0] {
				jobs = append(jobs, job{env{tight, bigEnv.pool}, maxB, 100, "tight-file-limits"})
				c.Set("tight_limits_chunk_compressed_vs_decompressed", size["chunk file"])
			}
		}
	}
	// two DIDs whose controllers use the same recovery key (legal, unusual): their recovers carry the same reveal value
	for ei, e := range envs {
		code := []uint64{ref.SHA256, ref.SHA512}[ei]
		var recs, ups []*batchOp
		for k := 0; k < 2; k++ {
			cd, cr, err := NewCDid(hx.NewRng(4242, "shared-recovery-key"), code, []string{"P-256"}, 300, false,
				[]interface{}{patchAddServices(svcEntry(fmt.Sprintf("own%d", k), "t", fmt.Sprintf("https://own%d.example", k)))}, nil, "o", "")
			if err != nil {
				panic(err)
			}
			cd.Suffix = suffixOf(cr.Req, code)
			curU, curR := cd.CurU, cd.CurR
			b, err := cd.Recover([]interface{}{patchAddServices(svcEntry(fmt.Sprintf("rec%d", k), "t", "https://rec.example"))}, nil, "o2", 0, 0)
			if err != nil {
				panic(err)
			}
			recs = append(recs, &batchOp{ID: fmt.Sprintf("shared%d-recover", k), Type: "recover", Suffix: cd.Suffix, Req: b.Req, Origin: "o2"})
			cd.CurU, cd.CurR = curU, curR
			u, err := cd.Update([]interface{}{patchAddServices(svcEntry(fmt.Sprintf("upd%d", k), "t", "https://upd.example"))}, 0, 0)
			if err != nil {
				panic(err)
			}
			ups = append(ups, &batchOp{ID: fmt.Sprintf("shared%d-update", k), Type: "update", Suffix: cd.Suffix, Req: u.Req, QOrigin: "o"})
		}
		if recs[0].Suffix != recs[1].Suffix {
			jobs = append(jobs, job{e, []*batchOp{recs[0], recs[1]}, 100, "operations-sharing-a-key"},
				job{e, []*batchOp{pick(e, 0, "create", 0), recs[1], pick(e, 1, "update", 0), recs[0], pick(e, 2, "deactivate", 0)}, 100, "operations-sharing-a-key"},
				job{e, []*batchOp{ups[0], ups[1]}, 100, "operations-sharing-a-key"},
				job{e, []*batchOp{ups[1], recs[0]}, 100, "operations-sharing-a-key"})
		}
	}
	// the same DID addressed through the namespace and through an alias of it within one batch: still one suffix
	for _, e := range envs {
		viaAlias := func(b *batchOp) *batchOp { cp := *b; cp.NS = "did:alias"; return &cp }
		jobs = append(jobs,
			job{e, []*batchOp{pick(e, 0, "update", 0), viaAlias(pick(e, 0, "update", 1)), pick(e, 1, "create", 0)}, 100, "same-suffix-under-two-namespaces"},
			job{e, []*batchOp{viaAlias(pick(e, 2, "deactivate", 0)), pick(e, 2, "recover", 0), viaAlias(pick(e, 3, "update", 0)), pick(e, 3, "update", 1)}, 100, "same-suffix-under-two-namespaces"})
	}
	// random mixes
	nRand := c.N(1500, 60000)
	rr := c.Rng("random")
	for i := 0; i < nRand; i++ {
		e := envs[i%2]
		n := 1 + rr.Intn(int(e.p.MaxOperationCount))
		var b []*batchOp
		for k := 0; k < n; k++ {
			d := rr.Intn(len(e.pool))
			if rr.Chance(1, 3) {
				d = rr.Intn(3) // few DIDs -> repeated suffixes
			}
			b = append(b, hx.Pick(rr, e.pool[d]))
		}
		jobs = append(jobs, job{e, b, hx.Pick(rr, []int64{100, 400, 401, 500, 501, 900}), "random"})
	}
	// requests serialised independently of the library (harness/ref: canonical form, no escape the JSON grammar does not
	// demand) whose strings hold characters that JSON encoders like to escape: separators U+2028 / U+2029, U+FFFD, DEL, & < >
	{
		ir := c.Rng("independent-requests")
		for k := 0; k < 6; k++ {
			u := NewUniverse(ir.Split(fmt.Sprint("iu", k)), ref.SHA256, envs[0].p, []string{hx.Pick(ir, ref.KeyTypes), "P-256"})
			odd := "line one" + string(rune(0x2028)) + "two" + string(rune(0x2029)) + "three" + string(rune(0xFFFD)) + string(rune(0x7f)) + "&<>"
			u.Create.Delta = ref.Delta(u.U[0].Commitment(ref.SHA256), []interface{}{patchAddServices(svcEntry("s1", "hub", "https://example.com/hub")), patchJSON(map[string]interface{}{"op": "add", "path": "/note", "value": odd})})
			u.Create.AnchorOrigin = "origin " + odd
			u.Suffix = u.Create.Suffix()
			cre := u.MkCreate("C", ref.DeltaOK)
			upd := u.MkSigned("uOdd", "update", u.U[0], "", u.U[1].Commitment(ref.SHA256), []interface{}{patchJSON(map[string]interface{}{"op": "add", "path": "/note2", "value": odd})}, SignedOpts{})
			rec := u.MkSigned("rOdd", "recover", u.R[0], u.R[1].Commitment(ref.SHA256), u.U[1].Commitment(ref.SHA256), []interface{}{patchJSON(map[string]interface{}{"op": "add", "path": "/note3", "value": odd})}, SignedOpts{Origin: "recovered " + odd})
			mk := func(o *ref.Op, origin interface{}) *batchOp {
				return &batchOp{ID: fmt.Sprintf("ind%d-%s", k, o.Label), Type: o.Type, Suffix: u.Suffix, Req: o.Request, Origin: origin, QOrigin: origin}
			}
			other := envs[0].pool[k%len(envs[0].pool)][0]
			switch k % 3 {
			case 0:
				jobs = append(jobs, job{envs[0], []*batchOp{mk(cre, u.Create.AnchorOrigin), other}, 100, "independently-serialised-requests"})
			case 1:
				jobs = append(jobs, job{envs[0], []*batchOp{other, mk(upd, nil)}, 100, "independently-serialised-requests"})
			default:
				jobs = append(jobs, job{envs[0], []*batchOp{mk(rec, "recovered " + odd), other}, 100, "independently-serialised-requests"})
			}
		}
	}
	hx.Parallel(len(jobs), 16, func(i int) {
		if c.Violations() > 10 {
			return
		}
		j := jobs[i]
		if batchRoundTrip(c, j.e.p, j.batch, j.now, j.tag) {
			c.Count("ok:" + j.tag)
		}
	})
	c.Sample(3, map[string]interface{}{"batch": ids(jobs[len(seqs)/2].batch), "tag": jobs[len(seqs)/2].tag})
	c.Sample(3, map[string]interface{}{"batch": ids(jobs[len(jobs)-1].batch), "tag": "random"})
	c.Set("exhaustive_type_sequences", len(seqs))
	for _, t := range []string{"types-distinct-dids", "repeated-suffix", "expiring-at-450", "expiring-at-600", "update-only-max", "deactivate-only-max", "single", "maximum-size", "tight-file-limits", "random", "six-operations-one-suffix", "operations-sharing-a-key", "suffix-algorithm-differs-from-controller-algorithm", "same-suffix-under-two-namespaces", "independently-serialised-requests"} {
		c.Floor("ok:"+t, 1)
	}
	c13ThroughWriter(c)
	c13TwoWritersOneQueue(c)
	c.Floor("runs_with_two_writers_on_one_queue", 10)
	c.Floor("writer_runs_with_a_rolled_back_batch", 50)
	c.Floor("all_expired_batches", 1)
	c.Floor("alternate_source_reads", 500)
	c.Floor("write_fault_reported", 1000)
	c.Floor("batches_with_deferred", 100)
	c.Floor("batches_with_expired", 100)
	c.Floor("batches_with_4_types", 10)
}
