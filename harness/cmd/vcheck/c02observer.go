package main

import (
	"fmt"
	"time"

	"github.com/trustbloc/sidetree-core-go/pkg/api/operation"
	"github.com/trustbloc/sidetree-core-go/pkg/api/txn"
	"github.com/trustbloc/sidetree-core-go/pkg/observer"
	"github.com/trustbloc/sidetree-core-go/pkg/processor"

	"verifharness/hx"
	"verifharness/ref"
)

// c02ThroughObserver: competitors for one commitment are anchored in transactions of their own (real batch files) and reach two
// nodes through the REAL observer - grouped differently into ledger notifications, with unreadable transactions of unrelated
// content in between. Both nodes hold the same anchored operations afterwards, so both resolve to the earliest valid competitor,
// like the reference model.
func c02ThroughObserver(c *hx.Ctx) {
	n := c.N(40, 600)
	root := c.Rng("observer")
	seeds := make([]uint64, n)
	for i := range seeds {
		seeds[i] = root.U64()
	}
	hx.Parallel(n, 16, func(i int) {
		if c.Violations() > 8 {
			return
		}
		r := hx.NewRng(seeds[i], "c02o")
		p := hx.BaseProtocol()
		u := NewUniverse(r.Split("u"), ref.SHA256, p, []string{hx.Pick(r, ref.KeyTypes), "P-256"})
		u.BuildAlphabet(1, 2)
		labels := [][]string{{"C", "u01", "u02"}, {"C", "r01", "rB"}, {"C", "u01", "u02", "u12"}, {"C", "d0", "r01"}, {"C", "uS", "u02", "u01"}}[i%5]
		cas := hx.NewMemCAS()
		build := hx.NewVersion(p, hx.VersionOpts{CAS: cas})
		var txns []txn.SidetreeTxn
		var H []*ref.Op
		for k, l := range labels {
			o := u.Ops[l]
			info, err := build.Handler.PrepareTxnFiles([]*operation.QueuedOperation{{Type: operation.Type(o.Type), OperationRequest: o.Request, UniqueSuffix: u.Suffix, Namespace: hx.Namespace}})
			if err != nil {
				c.Violation(fmt.Sprintf("C02 the operation handler refused the well-formed operation %s: %v", l, err), nil)
				return
			}
			t := uint64(100 + 10*k)
			num := uint64((7 - k) % 5) // numbers do not grow with time
			if k > 0 && r.Chance(1, 2) {
				txns = append(txns, txn.SidetreeTxn{Namespace: hx.Namespace, AnchorString: hx.Pick(r, []string{"garbage", "3.EiMissingCoreIndexFilexxxxxxxxxxxxxxxxxxxxxxxxx"}), TransactionTime: t - 1, TransactionNumber: 9, CanonicalReference: fmt.Sprintf("junk%d", k)})
			}
			txns = append(txns, txn.SidetreeTxn{Namespace: hx.Namespace, AnchorString: info.AnchorString, TransactionTime: t, TransactionNumber: num, CanonicalReference: fmt.Sprintf("ref%d", k)})
			H = append(H, Place(o, t, num, fmt.Sprintf("ref%d", k), 0))
		}
		c.Eval()
		st, merr := ref.Resolve(H, ref.ResolveOpts{})
		want := stKey(st, merr)
		for node := 0; node < 2; node++ {
			store := hx.NewOpStore()
			v := hx.NewVersion(p, hx.VersionOpts{CAS: cas, Store: store, ParserOpts: hx.StrictResolution()})
			pc := hx.NewClient(v)
			ledger := &chanLedger{ch: make(chan []txn.SidetreeTxn)}
			obs := observer.New(&observer.Providers{Ledger: ledger, ProtocolClientProvider: &hx.ClientProvider{C: pc}})
			obs.Start()
			var cuts []int
			for start := 0; start < len(txns); {
				end := len(txns)
				if node == 1 {
					end = start + 1 + r.Intn(3)
					if end > len(txns) {
						end = len(txns)
					}
				}
				cuts = append(cuts, end)
				done := make(chan struct{})
				go func(batch []txn.SidetreeTxn) {
					ledger.ch <- batch
					ledger.ch <- nil
					close(done)
				}(append([]txn.SidetreeTxn{}, txns[start:end]...))
				select {
				case <-done:
				case <-time.After(3 * time.Minute):
					obs.Stop()
					c.Inconclusive("observer did not finish a notification within 3 minutes")
					return
				}
				start = end
			}
			obs.Stop()
			rm, err := processor.New("verif", store, pc).Resolve(u.Suffix)
			if got := rmKey(rm, err); got != want {
				c.Violation(fmt.Sprintf("C02 a node that received the anchored competitors through the observer (notifications ending at %v of %d transactions, unreadable transactions in between) does not resolve to the earliest valid one: %s\n   model:   %s\n   library: %s",
					cuts, len(txns), histString(H), want, got), map[string]interface{}{"history": replayOps(H), "notification_cuts": cuts})
				return
			}
		}
		c.Count("competitions_through_the_observer")
		c.Distinct(fmt.Sprintf("c02obs|%v|%d", labels, len(txns)))
	})
}
