package main

import (
	"encoding/json"
	"fmt"
	"strings"
	"time"

	"github.com/trustbloc/sidetree-core-go/pkg/api/operation"
	"github.com/trustbloc/sidetree-core-go/pkg/api/txn"
	"github.com/trustbloc/sidetree-core-go/pkg/observer"
	"github.com/trustbloc/sidetree-core-go/pkg/processor"

	"verifharness/hx"
	"verifharness/ref"
)

// c01ThroughPipeline: the owner's operations and unauthorised ones travel the way they do in production. Intake does not check
// signatures, so a stranger's update / deactivate for the owner's DID (revealing and signed by the stranger's key) sits in the
// same queue, is cut into the same batch behind the owner's operation (and deferred by the operation handler), is anchored in
// transactions of its own, or arrives as an unprocessable transaction in the same ledger notification as the owner's one. The
// node (REAL operation handler, CAS, observer, transaction processor, store, operation processor) must resolve the DID exactly
// as a twin node that only ever saw the owner's operations.
func c01ThroughPipeline(c *hx.Ctx) {
	n := c.N(60, 1000)
	root := c.Rng("pipeline")
	seeds := make([]uint64, n)
	for i := range seeds {
		seeds[i] = root.U64()
	}
	hx.Parallel(n, 16, func(i int) {
		if c.Violations() > 8 {
			return
		}
		r := hx.NewRng(seeds[i], "c01p")
		p := hx.BaseProtocol()
		p.MaxDeltaSize, p.MaxOperationSize = 9000, 20000
		type node struct {
			cas   *hx.MemCAS
			store *hx.OpStore
			v     *hx.Version
			pc    *hx.Client
		}
		mkNode := func() *node {
			nd := &node{cas: hx.NewMemCAS(), store: hx.NewOpStore()}
			nd.v = hx.NewVersion(p, hx.VersionOpts{CAS: nd.cas, Store: nd.store})
			nd.pc = hx.NewClient(nd.v)
			return nd
		}
		A, B := mkNode(), mkNode()
		d, cr, err := NewCDid(r.Split("did"), ref.SHA256, []string{hx.Pick(r, ref.KeyTypes), "P-256"}, int64(p.MaxOperationTimeDelta), false,
			[]interface{}{patchAddServices(svcEntry("s0", "web", "https://example.com/s0"))}, nil, nil, "")
		if err != nil {
			c.Violation("C01 client.NewCreateRequest refused valid inputs: "+err.Error(), nil)
			return
		}
		d.Suffix = suffixOf(cr.Req, ref.SHA256)
		owner := []*BuiltOp{cr}
		for k := 0; k < 2+r.Intn(3); k++ {
			var b *BuiltOp
			if r.Chance(1, 4) {
				b, err = d.Recover([]interface{}{patchAddServices(svcEntry(fmt.Sprint("r", k), "web", "https://example.com/r"))}, nil, nil, 0, 0)
			} else {
				b, err = d.Update([]interface{}{patchAddServices(svcEntry(fmt.Sprint("u", k), "web", "https://example.com/u"))}, 0, 0)
			}
			if err != nil {
				c.Violation("C01 client builder refused valid inputs: "+err.Error(), nil)
				return
			}
			owner = append(owner, b)
		}
		// the stranger: own keys, the owner's suffix
		su := &Universe{Code: ref.SHA256, Suffix: d.Suffix, Proto: p, MaxDelta: int64(p.MaxOperationTimeDelta)}
		sk := func(tag string) *ref.Key {
			return ref.NewKey(hx.Pick(r, []string{"P-256", "Ed25519"}), tag, r.Bytes(32))
		}
		forged := func(k int) *operation.QueuedOperation {
			evil := []interface{}{patchAddServices(svcEntry("evil", "web", "https://evil.example"))}
			var o *ref.Op
			switch r.Intn(3) {
			case 0:
				o = su.MkSigned(fmt.Sprint("f-deact", k), "deactivate", sk("x"), "", "", nil, SignedOpts{})
			case 1:
				o = su.MkSigned(fmt.Sprint("f-rec", k), "recover", sk("x"), sk("y").Commitment(ref.SHA256), sk("z").Commitment(ref.SHA256), evil, SignedOpts{})
			default:
				o = su.MkSigned(fmt.Sprint("f-upd", k), "update", sk("x"), "", sk("y").Commitment(ref.SHA256), evil, SignedOpts{})
			}
			return &operation.QueuedOperation{Type: operation.Type(o.Type), OperationRequest: o.Request, UniqueSuffix: d.Suffix, Namespace: hx.Namespace}
		}
		q := func(b *BuiltOp) *operation.QueuedOperation {
			return &operation.QueuedOperation{Type: operation.Type(b.Desc.Type), OperationRequest: b.Req, UniqueSuffix: d.Suffix, Namespace: hx.Namespace}
		}
		var txnsA []txn.SidetreeTxn
		nForged, nDeferred, nJunk := 0, 0, 0
		c.Eval()
		for k, b := range owner {
			t := uint64(1000 + 100*k)
			// twin node: the owner's operation alone
			infoB, err := B.v.Handler.PrepareTxnFiles([]*operation.QueuedOperation{q(b)})
			if err != nil {
				c.Violation("C01 the operation handler refused a client-built operation: "+err.Error(), nil)
				return
			}
			if _, err := B.v.TxnProc.Process(txn.SidetreeTxn{Namespace: hx.Namespace, AnchorString: infoB.AnchorString, TransactionTime: t, TransactionNumber: uint64(k % 3),
				ProtocolVersion: p.GenesisTime, CanonicalReference: fmt.Sprintf("ref%d", k)}); err != nil {
				c.Violation("C01 twin node cannot process the owner's transaction: "+err.Error(), nil)
				return
			}
			// node under test: an unprocessable transaction of the stranger just before the owner's one
			if k > 0 && r.Chance(1, 2) {
				fi, ferr := A.v.Handler.PrepareTxnFiles([]*operation.QueuedOperation{forged(100 + k)})
				anchor := "not an anchor string"
				if ferr == nil && r.Bool() {
					anchor = "2." + strings.SplitN(fi.AnchorString, ".", 2)[1] // declares more operations than its files hold
				}
				txnsA = append(txnsA, txn.SidetreeTxn{Namespace: hx.Namespace, AnchorString: anchor, TransactionTime: t - 2, TransactionNumber: 7, ProtocolVersion: p.GenesisTime, CanonicalReference: fmt.Sprintf("junk%d", k)})
				nJunk++
			}
			// a copy of the owner's operation with a damaged signature (same type, same reveal value) anchored in a transaction of
			// its own just before the owner's one: it is stored, and ignored at resolution
			if k > 0 && r.Chance(1, 2) {
				if dmg := damageSignature(b.Req); dmg != nil {
					di, derr := A.v.Handler.PrepareTxnFiles([]*operation.QueuedOperation{{Type: operation.Type(b.Desc.Type), OperationRequest: dmg, UniqueSuffix: d.Suffix, Namespace: hx.Namespace}})
					if derr == nil {
						txnsA = append(txnsA, txn.SidetreeTxn{Namespace: hx.Namespace, AnchorString: di.AnchorString, TransactionTime: t - 1, TransactionNumber: 6, ProtocolVersion: p.GenesisTime, CanonicalReference: fmt.Sprintf("damaged%d", k)})
						nForged++
					}
				}
			}
			// the owner's operation first, the stranger's operations for the same DID behind it in the same cut
			batch := []*operation.QueuedOperation{q(b)}
			for f := 0; k > 0 && f < r.Intn(3); f++ {
				batch = append(batch, forged(10*k+f))
				nForged++
			}
			infoA, err := A.v.Handler.PrepareTxnFiles(batch)
			if err != nil {
				c.Violation("C01 the operation handler refused a batch holding the owner's operation and well-formed operations of a stranger for the same DID: "+err.Error(), nil)
				return
			}
			txnsA = append(txnsA, txn.SidetreeTxn{Namespace: hx.Namespace, AnchorString: infoA.AnchorString, TransactionTime: t, TransactionNumber: uint64(k % 3),
				ProtocolVersion: p.GenesisTime, CanonicalReference: fmt.Sprintf("ref%d", k)})
			// what the handler deferred is re-queued by the writer: anchored in transactions of its own
			rest := infoA.AdditionalOperations
			for step := 1; len(rest) > 0 && step < 6; step++ {
				nDeferred += len(rest)
				ri, rerr := A.v.Handler.PrepareTxnFiles(rest)
				if rerr != nil {
					break
				}
				txnsA = append(txnsA, txn.SidetreeTxn{Namespace: hx.Namespace, AnchorString: ri.AnchorString, TransactionTime: t + uint64(step), TransactionNumber: 8, ProtocolVersion: p.GenesisTime, CanonicalReference: fmt.Sprintf("forged%d-%d", k, step)})
				rest = ri.AdditionalOperations
			}
		}
		// deliver to the node under test through the real observer, in notifications of PRNG-chosen size
		ledger := &chanLedger{ch: make(chan []txn.SidetreeTxn)}
		obs := observer.New(&observer.Providers{Ledger: ledger, ProtocolClientProvider: &hx.ClientProvider{C: A.pc}})
		obs.Start()
		defer obs.Stop()
		for start := 0; start < len(txnsA); {
			end := start + 1 + r.Intn(4)
			if i%3 == 0 || end > len(txnsA) {
				end = len(txnsA)
			}
			done := make(chan struct{})
			go func(batch []txn.SidetreeTxn) {
				ledger.ch <- batch
				ledger.ch <- nil
				close(done)
			}(append([]txn.SidetreeTxn{}, txnsA[start:end]...))
			select {
			case <-done:
			case <-time.After(3 * time.Minute):
				c.Inconclusive("observer did not finish a notification of %d transactions within 3 minutes", end-start)
				return
			}
			start = end
		}
		rmA, errA := processor.New("verif", A.store, A.pc).Resolve(d.Suffix)
		rmB, errB := processor.New("verif", B.store, B.pc).Resolve(d.Suffix)
		if a, b := rmKey(rmA, errA), rmKey(rmB, errB); a != b || errB != nil {
			c.Violation(fmt.Sprintf("C01 a node that also saw operations of a stranger for the DID (%d cut into the owner's batches, %d deferred and anchored on their own, %d unprocessable transactions in the notifications) resolves it differently from a node that saw the owner's %d operations only\n   with strangers: %s\n   owner only:     %s",
				nForged, nDeferred, nJunk, len(owner), a, b), map[string]interface{}{"suffix": d.Suffix, "transactions": len(txnsA)})
			return
		}
		if nForged > 0 {
			c.Count("pipeline_runs_with_stranger_operations_in_the_owners_batch")
		}
		if nJunk > 0 {
			c.Count("pipeline_runs_with_unprocessable_neighbour_transactions")
		}
		c.Count("pipeline_runs")
		c.Distinct(fmt.Sprintf("c01pipe|%d|%d|%d|%d|%d", len(owner), nForged, nDeferred, nJunk, i))
	})
}

// damageSignature returns the request with one character of the signature segment of its signed data changed (nil if the request
// has no signed data).
func damageSignature(req []byte) []byte {
	var m map[string]interface{}
	if json.Unmarshal(req, &m) != nil {
		return nil
	}
	sd, _ := m["signedData"].(string)
	parts := strings.Split(sd, ".")
	if len(parts) != 3 || len(parts[2]) < 4 {
		return nil
	}
	sig := []byte(parts[2])
	if sig[2] == 'A' {
		sig[2] = 'B'
	} else {
		sig[2] = 'A'
	}
	m["signedData"] = parts[0] + "." + parts[1] + "." + string(sig)
	return ref.MustJCS(m)
}
