package main

// Operation alphabets and histories for the resolution properties (C01-C06, C12), built with ref (no client library).

import (
	"encoding/json"
	"fmt"
	"sort"
	"strings"
	"sync/atomic"

	"github.com/trustbloc/sidetree-core-go/pkg/api/operation"
	"github.com/trustbloc/sidetree-core-go/pkg/api/protocol"
	"github.com/trustbloc/sidetree-core-go/pkg/document"
	"github.com/trustbloc/sidetree-core-go/pkg/processor"

	"verifharness/hx"
	"verifharness/ref"
)

// Universe is the key universe and pre-signed operation alphabet of one DID.
type Universe struct {
	Code     uint64
	R, U, X  []*ref.Key
	Suffix   string
	Create   *ref.CreateSpec
	MaxDelta int64
	BigDup   bool // the duplicate create "Cdup" carries a delta larger than MaxDeltaSize
	Ops      map[string]*ref.Op // alphabet by label
	Labels   []string
	Proto    protocol.Protocol
}

func pubKeyEntry(id string, k *ref.Key, purposes ...string) map[string]interface{} {
	jwk := k.JWK()
	delete(jwk, "nonce")
	if k.Type == "Ed25519" {
		delete(jwk, "y")
	}
	e := map[string]interface{}{"id": id, "type": "JsonWebKey2020", "publicKeyJwk": jwk}
	if len(purposes) > 0 {
		p := make([]interface{}, len(purposes))
		for i := range purposes {
			p[i] = purposes[i]
		}
		e["purposes"] = p
	}
	return e
}

func svcEntry(id, typ, endpoint string) map[string]interface{} {
	return map[string]interface{}{"id": id, "type": typ, "serviceEndpoint": endpoint}
}

func patchAddKeys(keys ...map[string]interface{}) map[string]interface{} {
	arr := make([]interface{}, len(keys))
	for i := range keys {
		arr[i] = keys[i]
	}
	return map[string]interface{}{"action": "add-public-keys", "publicKeys": arr}
}

func patchAddServices(svcs ...map[string]interface{}) map[string]interface{} {
	arr := make([]interface{}, len(svcs))
	for i := range svcs {
		arr[i] = svcs[i]
	}
	return map[string]interface{}{"action": "add-services", "services": arr}
}

func patchRemoveKeys(ids ...string) map[string]interface{} {
	arr := make([]interface{}, len(ids))
	for i := range ids {
		arr[i] = ids[i]
	}
	return map[string]interface{}{"action": "remove-public-keys", "ids": arr}
}

func patchJSON(ops ...map[string]interface{}) map[string]interface{} {
	arr := make([]interface{}, len(ops))
	for i := range ops {
		arr[i] = ops[i]
	}
	return map[string]interface{}{"action": "ietf-json-patch", "patches": arr}
}

func patchReplace(keys []interface{}, svcs []interface{}) map[string]interface{} {
	d := map[string]interface{}{}
	if keys != nil {
		d["publicKeys"] = keys
	}
	if svcs != nil {
		d["services"] = svcs
	}
	return map[string]interface{}{"action": "replace", "document": d}
}

var failingPatch = patchJSON(map[string]interface{}{"op": "remove", "path": "/doesNotExist"})

// panicPatches pass delta validation; the JSON patch library panics on them (missing value / negative index).
var panicPatches = []map[string]interface{}{
	patchJSON(map[string]interface{}{"op": "test", "path": "/missing"}),
	patchJSON(map[string]interface{}{"op": "add", "path": "/arr", "value": []interface{}{"a"}}, map[string]interface{}{"op": "replace", "path": "/arr/-1", "value": "b"}),
	patchJSON(map[string]interface{}{"op": "add", "path": "/arr", "value": []interface{}{"a"}}, map[string]interface{}{"op": "copy", "from": "/arr/-1", "path": "/y"}),
}

var invalidPatch = patchAddServices(svcEntry("sbad", strings.Repeat("T", 31), "https://example.com/x"))

// NewUniverse derives keys (types chosen by rng) and the create operation.
func NewUniverse(rng *hx.Rng, code uint64, p protocol.Protocol, keyTypes []string) *Universe {
	u := &Universe{Code: code, MaxDelta: int64(p.MaxOperationTimeDelta), Ops: map[string]*ref.Op{}, Proto: p}
	mk := func(name string) *ref.Key {
		return ref.NewKey(hx.Pick(rng, keyTypes), name, rng.Bytes(32))
	}
	for i := 0; i < 3; i++ {
		u.R = append(u.R, mk(fmt.Sprintf("R%d", i)))
		u.U = append(u.U, mk(fmt.Sprintf("U%d", i)))
	}
	for i := 0; i < 2; i++ {
		u.X = append(u.X, mk(fmt.Sprintf("X%d", i)))
	}
	d0 := []interface{}{
		patchAddKeys(pubKeyEntry("k1", u.X[0], "authentication"), pubKeyEntry("k0", u.X[1])),
		patchAddServices(svcEntry("s1", "hub", "https://example.com/hub")),
	}
	u.Create = &ref.CreateSpec{Code: code, RecoveryCommitment: u.R[0].Commitment(code),
		Delta: ref.Delta(u.U[0].Commitment(code), d0), AnchorOrigin: "origin-" + fmt.Sprint(rng.Intn(1000))}
	ao := u.Create.AnchorOrigin.(string)
	u.BigDup = ao[len(ao)-1]%2 == 1 // no extra PRNG draw: earlier streams stay as they were
	u.Suffix = u.Create.Suffix()
	return u
}

func reqBytes(obj map[string]interface{}, rng *hx.Rng) []byte {
	// any serialization of the same JSON value; alternate between JCS and Go's encoder
	if rng != nil && rng.Bool() {
		b, _ := json.Marshal(obj)
		return b
	}
	return ref.MustJCS(obj)
}

// MkCreate builds a create descriptor. status: ok | mismatch | invalid | fails.
func (u *Universe) MkCreate(label, status string) *ref.Op {
	spec := *u.Create
	patches := spec.Delta["patches"].([]interface{})
	switch status {
	case ref.DeltaMismatch:
		// same suffix data, different delta
		endpoint := "https://evil.example"
		if u.BigDup {
			// the other delta is also larger than the protocol's delta limit (seeded C02-19): an anchored create is read in batch
			// mode, where the delta is not validated; the applier then finds it unusable and the create still defines the DID
			endpoint += "/" + strings.Repeat("a", int(u.Proto.MaxDeltaSize)+64)
		}
		other := ref.Delta(spec.Delta["updateCommitment"].(string), []interface{}{patchAddServices(svcEntry("evil", "x", endpoint))})
		spec.DeltaHashOverride = ref.HashModel(u.Code, spec.Delta)
		spec.Delta = other
		patches = other["patches"].([]interface{})
	}
	req := spec.Request()
	return &ref.Op{Label: label, Type: "create", Request: ref.MustJCS(req), Parses: true,
		CreateRecovery: spec.RecoveryCommitment, NextUpdate: spec.Delta["updateCommitment"].(string),
		DeltaStatus: status, Patches: patches, AnchorOrigin: spec.AnchorOrigin, MaxDelta: u.MaxDelta}
}

// SignedOpts are the knobs for signed operations.
type SignedOpts struct {
	SignedKey, SigningKey *ref.Key
	Tamper                bool
	Alter                 func(map[string]interface{})
	DeltaStatus           string
	From, Until           int64
	SignedSuffix          string
	Origin                interface{}
	OmitDelta             bool
	RequestDelta          map[string]interface{}
	FailPatch             map[string]interface{} // the (valid) patch that fails to apply when DeltaStatus is DeltaFails
	DeltaCode, RevealCode uint64                 // multihash algorithms of the delta hash / reveal value (default: the universe's)
}

func deltaFor(status string, next string, patches []interface{}, failWith map[string]interface{}) (map[string]interface{}, []interface{}) {
	switch status {
	case ref.DeltaInvalid:
		patches = []interface{}{invalidPatch}
	case ref.DeltaFails:
		patches = []interface{}{failingPatch}
		if failWith != nil {
			patches = []interface{}{failWith}
			if list, ok := failWith["__list__"].([]interface{}); ok {
				patches = list // several patches of which a later one fails
			}
		}
	}
	return ref.Delta(next, patches), patches
}

// MkSigned builds an update / recover / deactivate descriptor.
func (u *Universe) MkSigned(label, op string, reveal *ref.Key, nextR, nextU string, patches []interface{}, o SignedOpts) *ref.Op {
	status := o.DeltaStatus
	if status == "" {
		status = ref.DeltaOK
	}
	s := &ref.SignedSpec{Op: op, Code: u.Code, Suffix: u.Suffix, RevealKey: reveal, SignedKey: o.SignedKey, SigningKey: o.SigningKey,
		RecoveryCommitment: nextR, AnchorFrom: o.From, AnchorUntil: o.Until, SignedSuffix: o.SignedSuffix,
		TamperSignature: o.Tamper, AlterPayload: o.Alter, AnchorOrigin: o.Origin, OmitDelta: o.OmitDelta, DeltaInRequest: o.RequestDelta,
		DeltaCode: o.DeltaCode, RevealCode: o.RevealCode}
	var usedPatches []interface{}
	if op != "deactivate" {
		s.Delta, usedPatches = deltaFor(status, nextU, patches, o.FailPatch)
		if status == ref.DeltaMismatch {
			s.DeltaHashOverride = ref.HashModel(u.Code, ref.Delta(nextU, []interface{}{patchAddServices(svcEntry("other", "t", "https://o.example"))}))
		}
	}
	signed := o.SignedKey
	if signed == nil {
		signed = reveal
	}
	signing := o.SigningKey
	if signing == nil {
		signing = reveal
	}
	rc := u.Code
	if o.RevealCode != 0 {
		rc = o.RevealCode
	}
	d := &ref.Op{Label: label, Type: op, Request: ref.MustJCS(s.Request()), Consumes: reveal.Commitment(rc),
		NextRecovery: nextR, NextUpdate: nextU, DeltaStatus: status, Patches: usedPatches, From: o.From, Until: o.Until,
		AnchorOrigin: o.Origin, MaxDelta: u.MaxDelta}
	d.Parses = signed == reveal && (op != "deactivate" || o.SignedSuffix == "" || o.SignedSuffix == u.Suffix) && !o.OmitDelta
	if o.OmitDelta && op != "deactivate" {
		// request without delta still parses in batch mode but can never be applied: model it as unauthorised
		d.Parses = signed == reveal
	}
	d.Authorised = d.Parses && signing == signed && !o.Tamper && o.Alter == nil && !o.OmitDelta
	if op == "recover" && o.OmitDelta {
		// a recover takes its next commitments from the signed data: without a (usable) delta it still takes effect - empty
		// document, no update commitment - like any recover whose delta itself is bad
		d.Authorised = d.Parses && signing == signed && !o.Tamper && o.Alter == nil
		d.DeltaStatus = ref.DeltaInvalid
	}
	if op == "recover" && (nextR == reveal.Commitment(ref.SHA256) || nextR == reveal.Commitment(ref.SHA512)) {
		d.Parses, d.Authorised = false, false // key re-use is refused by the parser in every mode
	}
	return d
}

// BuildAlphabet creates the D.1 alphabet. Window ops use [winFrom, winUntil].
func (u *Universe) BuildAlphabet(winFrom, winUntil int64) {
	c := u.Code
	cm := func(k *ref.Key) string { return k.Commitment(c) }
	k2 := []interface{}{patchAddKeys(pubKeyEntry("k2", u.X[1], "assertionMethod"))}
	s2 := []interface{}{patchAddServices(svcEntry("s2", "web", "https://example.com/s2"))}
	rmk1 := []interface{}{patchRemoveKeys("k1")}
	d1 := []interface{}{patchReplace([]interface{}{pubKeyEntry("r1", u.X[0], "keyAgreement")}, []interface{}{svcEntry("rs1", "rtype", "https://r1.example")})}
	d2 := []interface{}{patchAddKeys(pubKeyEntry("r2", u.X[1])), patchJSON(map[string]interface{}{"op": "add", "path": "/extra", "value": "two"})}
	add := func(o *ref.Op) { u.Ops[o.Label] = o; u.Labels = append(u.Labels, o.Label) }
	add(u.MkCreate("C", ref.DeltaOK))
	add(u.MkCreate("Cdup", ref.DeltaMismatch))
	add(u.MkSigned("u01", "update", u.U[0], "", cm(u.U[1]), k2, SignedOpts{}))
	add(u.MkSigned("u02", "update", u.U[0], "", cm(u.U[2]), s2, SignedOpts{}))
	add(u.MkSigned("u12", "update", u.U[1], "", cm(u.U[2]), rmk1, SignedOpts{}))
	add(u.MkSigned("u20", "update", u.U[2], "", cm(u.U[0]), s2, SignedOpts{}))
	add(u.MkSigned("u10", "update", u.U[1], "", cm(u.U[0]), s2, SignedOpts{}))
	add(u.MkSigned("u00", "update", u.U[0], "", cm(u.U[0]), s2, SignedOpts{}))
	add(u.MkSigned("uF", "update", u.U[0], "", cm(u.U[1]), nil, SignedOpts{DeltaStatus: ref.DeltaFails}))
	add(u.MkSigned("uW", "update", u.U[0], "", cm(u.U[1]), k2, SignedOpts{From: winFrom, Until: winUntil}))
	add(u.MkSigned("uWd", "update", u.U[0], "", cm(u.U[1]), k2, SignedOpts{From: winFrom}))
	add(u.MkSigned("uS", "update", u.U[0], "", cm(u.U[1]), k2, SignedOpts{SigningKey: u.X[0]}))
	add(u.MkSigned("uT", "update", u.U[0], "", cm(u.U[1]), k2, SignedOpts{Tamper: true}))
	add(u.MkSigned("uM", "update", u.U[0], "", cm(u.U[1]), k2, SignedOpts{DeltaStatus: ref.DeltaMismatch}))
	add(u.MkSigned("uI", "update", u.U[0], "", cm(u.U[1]), nil, SignedOpts{DeltaStatus: ref.DeltaInvalid}))
	add(u.MkSigned("uX", "update", u.X[0], "", cm(u.X[1]), k2, SignedOpts{}))
	add(u.MkSigned("uR", "update", u.U[0], "", cm(u.U[1]), k2, SignedOpts{SignedKey: u.X[0], SigningKey: u.X[0]}))
	add(u.MkSigned("r01", "recover", u.R[0], cm(u.R[1]), cm(u.U[1]), d1, SignedOpts{Origin: "origin-r01"}))
	add(u.MkSigned("rB", "recover", u.R[0], cm(u.R[2]), cm(u.U[2]), d1, SignedOpts{DeltaStatus: ref.DeltaMismatch}))
	add(u.MkSigned("rI", "recover", u.R[0], cm(u.R[2]), cm(u.U[2]), nil, SignedOpts{DeltaStatus: ref.DeltaInvalid}))
	add(u.MkSigned("rF", "recover", u.R[0], cm(u.R[1]), cm(u.U[1]), nil, SignedOpts{DeltaStatus: ref.DeltaFails}))
	add(u.MkSigned("rW", "recover", u.R[0], cm(u.R[1]), cm(u.U[1]), d1, SignedOpts{From: winFrom, Until: winUntil}))
	add(u.MkSigned("r00", "recover", u.R[0], cm(u.R[0]), cm(u.U[1]), d1, SignedOpts{}))
	add(u.MkSigned("r12", "recover", u.R[1], cm(u.R[2]), cm(u.U[2]), d2, SignedOpts{Origin: "origin-r12"}))
	add(u.MkSigned("r10", "recover", u.R[1], cm(u.R[0]), cm(u.U[0]), d2, SignedOpts{}))
	add(u.MkSigned("r20", "recover", u.R[2], cm(u.R[0]), cm(u.U[0]), d2, SignedOpts{}))
	add(u.MkSigned("rS", "recover", u.R[0], cm(u.R[1]), cm(u.U[1]), d1, SignedOpts{SigningKey: u.X[1]}))
	add(u.MkSigned("d0", "deactivate", u.R[0], "", "", nil, SignedOpts{}))
	add(u.MkSigned("d1", "deactivate", u.R[1], "", "", nil, SignedOpts{}))
	add(u.MkSigned("dW", "deactivate", u.R[0], "", "", nil, SignedOpts{From: winFrom, Until: winUntil}))
	add(u.MkSigned("dS", "deactivate", u.R[0], "", "", nil, SignedOpts{SigningKey: u.X[0]}))
	add(u.MkSigned("dR", "deactivate", u.R[0], "", "", nil, SignedOpts{SignedKey: u.X[0], SigningKey: u.X[0]}))
	add(u.MkSigned("rR", "recover", u.R[0], cm(u.R[1]), cm(u.U[1]), d1, SignedOpts{SignedKey: u.X[1], SigningKey: u.X[1]}))
	add(u.MkSigned("uND", "update", u.U[0], "", cm(u.U[1]), k2, SignedOpts{OmitDelta: true}))
	add(u.MkSigned("rSB", "recover", u.R[0], cm(u.R[2]), cm(u.U[2]), d1, SignedOpts{SigningKey: u.X[1], DeltaStatus: ref.DeltaMismatch}))
	add(u.MkSigned("rTI", "recover", u.R[0], cm(u.R[2]), cm(u.U[2]), nil, SignedOpts{Tamper: true, DeltaStatus: ref.DeltaInvalid}))
	add(u.MkSigned("uSF", "update", u.U[0], "", cm(u.U[1]), nil, SignedOpts{SigningKey: u.X[0], DeltaStatus: ref.DeltaFails}))
	add(u.MkSigned("dO", "deactivate", u.R[0], "", "", nil, SignedOpts{SignedSuffix: "EiOtherSuffixxxxxxxxxxxxxxxxxxxxxxxxxxxxxxxxxxx"}))
	// a recover without delta
	add(u.MkSigned("rND", "recover", u.R[0], cm(u.R[1]), cm(u.U[1]), d1, SignedOpts{OmitDelta: true}))
	// recover / deactivate that declare anchorFrom only (window ends at anchorFrom + MaxOperationTimeDelta)
	add(u.MkSigned("rWd", "recover", u.R[0], cm(u.R[1]), cm(u.U[1]), d1, SignedOpts{From: winFrom}))
	add(u.MkSigned("dWd", "deactivate", u.R[0], "", "", nil, SignedOpts{From: winFrom}))
	// updates whose FIRST patches apply and whose last one fails: nothing of the list may stay behind
	partial := map[string]interface{}{"__list__": []interface{}{patchAddServices(svcEntry("p1", "web", "https://example.com/p1")), patchAddKeys(pubKeyEntry("pk", u.X[1], "authentication")), failingPatch}}
	add(u.MkSigned("uPF", "update", u.U[0], "", cm(u.U[1]), nil, SignedOpts{DeltaStatus: ref.DeltaFails, FailPatch: partial}))
	add(u.MkSigned("u12PF", "update", u.U[1], "", cm(u.U[2]), nil, SignedOpts{DeltaStatus: ref.DeltaFails, FailPatch: partial}))
	// a replace patch on a document that holds more than keys and services: the document is reset to exactly what it names
	aka := []interface{}{map[string]interface{}{"action": "add-also-known-as", "uris": []interface{}{"https://alias.example/a"}}, patchJSON(map[string]interface{}{"op": "add", "path": "/note", "value": "n"})}
	add(u.MkSigned("uAka", "update", u.U[0], "", cm(u.U[1]), aka, SignedOpts{}))
	add(u.MkSigned("u12Rep", "update", u.U[1], "", cm(u.U[2]), d1, SignedOpts{}))
	add(u.MkSigned("uAkaRep", "update", u.U[0], "", cm(u.U[1]), append(append([]interface{}{}, aka...), d1[0]), SignedOpts{}))
	// genuine signatures by the key of the other commitment kind (update key on a recover/deactivate, recovery key on an update)
	add(u.MkSigned("rU", "recover", u.U[0], cm(u.R[1]), cm(u.U[1]), d1, SignedOpts{}))
	add(u.MkSigned("dU", "deactivate", u.U[0], "", "", nil, SignedOpts{}))
	add(u.MkSigned("uRk", "update", u.R[0], "", cm(u.U[1]), k2, SignedOpts{}))
	// patches on which the JSON patch library panics instead of returning an error
	add(u.MkSigned("uJP", "update", u.U[0], "", cm(u.U[1]), nil, SignedOpts{DeltaStatus: ref.DeltaFails, FailPatch: panicPatches[0]}))
	add(u.MkSigned("rJP", "recover", u.R[0], cm(u.R[1]), cm(u.U[1]), nil, SignedOpts{DeltaStatus: ref.DeltaFails, FailPatch: panicPatches[1]}))
	// forged competitor of u12/u10 whose next commitment is one the chain has consumed by then
	add(u.MkSigned("uTc", "update", u.U[1], "", cm(u.U[0]), s2, SignedOpts{Tamper: true}))
}

// Place returns a copy of the alphabet op anchored at the given coordinates.
func Place(o *ref.Op, t, n uint64, refID string, version uint64) *ref.Op {
	c := *o
	c.Time, c.Number, c.Ref, c.Version = t, n, refID, version
	return &c
}

// ToAnchored converts descriptors to the library's stored form.
func ToAnchored(suffix string, ops []*ref.Op) []*operation.AnchoredOperation {
	out := make([]*operation.AnchoredOperation, len(ops))
	for i, o := range ops {
		out[i] = &operation.AnchoredOperation{Type: operation.Type(o.Type), UniqueSuffix: suffix, OperationRequest: o.Request,
			TransactionTime: o.Time, TransactionNumber: o.Number, ProtocolVersion: o.Version, CanonicalReference: o.Ref}
	}
	return out
}

// curCtx is the running check's context (used to report panics of in-process library calls as violations).
var curCtx *hx.Ctx

type unpubStore struct {
	ops []*operation.AnchoredOperation
}

func (s *unpubStore) Get(string) ([]*operation.AnchoredOperation, error) {
	if len(s.ops) == 0 {
		return nil, fmt.Errorf("not found")
	}
	out := make([]*operation.AnchoredOperation, len(s.ops))
	for i, o := range s.ops {
		c := *o
		out[i] = &c
	}
	return out, nil
}

// SUTResolve resolves the history with the real OperationProcessor. order permutes the published ops returned by the store.
func SUTResolve(pc protocol.Client, suffix string, ops []*ref.Op, order []int, opts ...document.ResolutionOption) (rm *protocol.ResolutionModel, err error) {
	return SUTResolveSplit(pc, suffix, ops, order, nil, opts...)
}

// SUTResolveSplit is SUTResolve where split[i] routes operation i: 0 = operation store / unpublished store,
// 1 = only through document.WithAdditionalOperations, 2 = both (a published operation known to the store AND passed as
// additional operation must be de-duplicated by its canonical reference).
func SUTResolveSplit(pc protocol.Client, suffix string, allOps []*ref.Op, order []int, split []int, opts ...document.ResolutionOption) (rm *protocol.ResolutionModel, err error) {
	ops := allOps
	if split != nil {
		ops = nil
		var additional []*ref.Op
		for i, o := range allOps {
			if split[i] != 1 {
				ops = append(ops, o)
			}
			if split[i] != 0 {
				additional = append(additional, o)
			}
		}
		if len(additional) > 0 {
			opts = append(opts, document.WithAdditionalOperations(ToAnchored(suffix, additional)))
		}
		order = nil
	}
	defer func() {
		if r := recover(); r != nil {
			if _, ok := r.(budgetExceeded); ok {
				panic(r)
			}
			if b, ok := r.(resolveBudget); ok {
				if curCtx != nil {
					curCtx.Violation(fmt.Sprintf("%s OperationProcessor.Resolve did not terminate within its step budget (%d operation applications for %d operations) :: history [%s]", curCtx.ID, b.calls, len(allOps), histString(ops)),
						map[string]interface{}{"suffix": suffix, "history": replayOps(ops), "store_order": order, "apply_calls": b.calls})
				}
				rm, err = nil, fmt.Errorf("NO TERMINATION in Resolve")
				return
			}
			if curCtx != nil {
				curCtx.Violation(fmt.Sprintf("%s OperationProcessor.Resolve panicked: %v :: history [%s]", curCtx.ID, r, histString(ops)),
					map[string]interface{}{"suffix": suffix, "history": replayOps(ops), "store_order": order, "panic": fmt.Sprint(r)})
			}
			rm, err = nil, fmt.Errorf("PANIC in Resolve: %v", r)
		}
	}()
	var pub, unpub []*ref.Op
	for _, o := range ops {
		if o.Published() {
			pub = append(pub, o)
		} else {
			unpub = append(unpub, o)
		}
	}
	anch := ToAnchored(suffix, pub)
	if order != nil && len(order) == len(anch) {
		perm := make([]*operation.AnchoredOperation, len(anch))
		for i, j := range order {
			perm[i] = anch[j]
		}
		anch = perm
	}
	store := hx.NewOpStore()
	if len(anch) > 0 {
		store.Set(suffix, anch)
	}
	var popts []processor.Option
	if len(unpub) > 0 {
		popts = append(popts, processor.WithUnpublishedOperationStore(&unpubStore{ops: ToAnchored(suffix, unpub)}))
	}
	p := processor.New("verif", store, &budgetClient{inner: pc, budget: int64(4*len(allOps) + 16)}, popts...)
	return p.Resolve(suffix, opts...)
}

// resolveBudget is the panic value of the logical-step watchdog around one Resolve call: the unchanged processor applies
// every stored operation at most once per commitment chain (<= 2n applier calls for n operations).
type resolveBudget struct{ calls int64 }

type budgetClient struct {
	inner  protocol.Client
	calls  int64
	budget int64
}

type protoVersion = protocol.Version

type budgetVersion struct {
	protoVersion
	c *budgetClient
}

type budgetApplier struct {
	inner protocol.OperationApplier
	c     *budgetClient
}

func (c *budgetClient) wrap(v protocol.Version, err error) (protocol.Version, error) {
	if err != nil || v == nil {
		return v, err
	}
	return budgetVersion{v, c}, nil
}
func (c *budgetClient) Current() (protocol.Version, error)     { return c.wrap(c.inner.Current()) }
func (c *budgetClient) Get(t uint64) (protocol.Version, error) { return c.wrap(c.inner.Get(t)) }
func (v budgetVersion) OperationApplier() protocol.OperationApplier {
	return budgetApplier{v.protoVersion.OperationApplier(), v.c}
}
func (a budgetApplier) Apply(op *operation.AnchoredOperation, rm *protocol.ResolutionModel) (*protocol.ResolutionModel, error) {
	if n := atomic.AddInt64(&a.c.calls, 1); n > a.c.budget {
		panic(resolveBudget{n})
	}
	return a.inner.Apply(op, rm)
}

// verdict strings ------------------------------------------------------------

func rmKey(rm *protocol.ResolutionModel, err error) string {
	if err != nil {
		return "ERR"
	}
	ao := aoKey(rm.AnchorOrigin)
	return fmt.Sprintf("doc=%s uc=%s rc=%s deact=%v last=(%d,%d) vid=%s cref=%s created=%d updated=%d ao=%s",
		ref.DocKey(toPlain(rm.Doc)), rm.UpdateCommitment, rm.RecoveryCommitment, rm.Deactivated,
		rm.LastOperationTransactionTime, rm.LastOperationTransactionNumber, rm.VersionID, rm.CanonicalReference,
		rm.CreatedTime, rm.UpdatedTime, ao)
}

func stKey(st *ref.State, err error) string {
	if err != nil {
		return "ERR"
	}
	ao := aoKey(st.AnchorOrigin)
	return fmt.Sprintf("doc=%s uc=%s rc=%s deact=%v last=(%d,%d) vid=%s cref=%s created=%d updated=%d ao=%s",
		ref.DocKey(st.Doc), st.UpdateCommitment, st.RecoveryCommitment, st.Deactivated,
		st.LastTime, st.LastNumber, st.VersionID, st.CanonicalRef, st.CreatedTime, st.UpdatedTime, ao)
}

// toPlain converts a library document into a plain JSON tree via JSON round trip.
func toPlain(d document.Document) map[string]interface{} {
	if d == nil {
		return nil
	}
	b, err := json.Marshal(d)
	if err != nil {
		return map[string]interface{}{"__marshal_error": err.Error()}
	}
	var m map[string]interface{}
	_ = json.Unmarshal(b, &m)
	return m
}

func histString(ops []*ref.Op) string {
	var sb strings.Builder
	for i, o := range ops {
		if i > 0 {
			sb.WriteByte(' ')
		}
		fmt.Fprintf(&sb, "%s@(%d,%d,%s)", o.Label, o.Time, o.Number, o.Ref)
	}
	return sb.String()
}

type replayOp struct {
	Label   string `json:"label"`
	Type    string `json:"type"`
	Time    uint64 `json:"time"`
	Number  uint64 `json:"number"`
	Ref     string `json:"ref"`
	Version uint64 `json:"version"`
	Request string `json:"request"`
}

func replayOps(ops []*ref.Op) []replayOp {
	out := make([]replayOp, len(ops))
	for i, o := range ops {
		out[i] = replayOp{o.Label, o.Type, o.Time, o.Number, o.Ref, o.Version, string(o.Request)}
	}
	return out
}

func labelsOf(ops []*ref.Op) []string {
	out := make([]string, len(ops))
	for i, o := range ops {
		out[i] = o.Label
	}
	return out
}

func sortedCopy(s []string) []string {
	c := append([]string{}, s...)
	sort.Strings(c)
	return c
}

// ---------------------------------------------------------------------------------------------
// Chain: a legitimate commitment chain built step by step with fresh keys, plus forgeries and forks.

// Chain builds legitimate histories.
type Chain struct {
	U        *Universe
	rng      *hx.Rng
	types    []string
	CurU     *ref.Key
	CurR     *ref.Key
	AllU     []*ref.Key
	AllR     []*ref.Key
	Legit    []*ref.Op
	nkeys    int
	Deact    bool
	DocCount int
}

func (c *Chain) newKey(prefix string) *ref.Key {
	c.nkeys++
	return ref.NewKey(hx.Pick(c.rng, c.types), fmt.Sprintf("%s%d", prefix, c.nkeys), c.rng.Bytes(32))
}

// NewChain creates the chain with its create operation.
func NewChain(rng *hx.Rng, code uint64, p protocol.Protocol, types []string) *Chain {
	c := &Chain{rng: rng, types: types}
	u := &Universe{Code: code, MaxDelta: int64(p.MaxOperationTimeDelta), Ops: map[string]*ref.Op{}, Proto: p}
	c.U = u
	c.CurR, c.CurU = c.newKey("R"), c.newKey("U")
	c.AllR, c.AllU = []*ref.Key{c.CurR}, []*ref.Key{c.CurU}
	x := c.newKey("D")
	d0 := []interface{}{
		patchAddKeys(pubKeyEntry("k1", x, "authentication")),
		patchAddServices(svcEntry("s1", "hub", "https://example.com/hub")),
	}
	u.Create = &ref.CreateSpec{Code: code, RecoveryCommitment: c.CurR.Commitment(code),
		Delta: ref.Delta(c.CurU.Commitment(code), d0), AnchorOrigin: "origin-create"}
	u.Suffix = u.Create.Suffix()
	u.X = []*ref.Key{x}
	c.Legit = append(c.Legit, u.MkCreate("L0:create", ref.DeltaOK))
	return c
}

func (c *Chain) nextPatches() []interface{} {
	c.DocCount++
	n := c.DocCount
	switch c.rng.Intn(3) {
	case 0:
		return []interface{}{patchAddKeys(pubKeyEntry(fmt.Sprintf("k%d", n+1), c.U.X[0], "assertionMethod"))}
	case 1:
		return []interface{}{patchAddServices(svcEntry(fmt.Sprintf("s%d", n+1), "web", fmt.Sprintf("https://example.com/%d", n)))}
	default:
		return []interface{}{patchJSON(map[string]interface{}{"op": "add", "path": fmt.Sprintf("/m%d", n), "value": float64(n)})}
	}
}

// Step appends a legitimate operation: kind = update | recover | deactivate.
func (c *Chain) Step(kind string) *ref.Op {
	code := c.U.Code
	label := fmt.Sprintf("L%d:%s", len(c.Legit), kind)
	var op *ref.Op
	switch kind {
	case "update":
		nk := c.newKey("U")
		op = c.U.MkSigned(label, "update", c.CurU, "", nk.Commitment(code), c.nextPatches(), SignedOpts{})
		c.CurU = nk
		c.AllU = append(c.AllU, nk)
	case "recover":
		nr, nu := c.newKey("R"), c.newKey("U")
		c.DocCount++
		doc := []interface{}{patchAddKeys(pubKeyEntry(fmt.Sprintf("rk%d", c.DocCount), c.U.X[0], "authentication")),
			patchAddServices(svcEntry(fmt.Sprintf("rs%d", c.DocCount), "rec", "https://example.com/recovered"))}
		op = c.U.MkSigned(label, "recover", c.CurR, nr.Commitment(code), nu.Commitment(code), doc, SignedOpts{Origin: fmt.Sprintf("origin-%d", c.DocCount)})
		c.CurR, c.CurU = nr, nu
		c.AllR, c.AllU = append(c.AllR, nr), append(c.AllU, nu)
	case "deactivate":
		op = c.U.MkSigned(label, "deactivate", c.CurR, "", "", nil, SignedOpts{})
		c.Deact = true
	}
	c.Legit = append(c.Legit, op)
	return op
}

// Forgeries returns unauthorised operations aimed at the commitments currently in force.
// Every returned op fails the authorisation test of C01 by construction.
func (c *Chain) Forgeries(tag string) []*ref.Op {
	code := c.U.Code
	x, y := c.newKey("X"), c.newKey("X")
	k2 := []interface{}{patchAddServices(svcEntry("evil", "evil", "https://evil.example"))}
	swapNext := func(field string, val string) func(map[string]interface{}) {
		return func(p map[string]interface{}) { p[field] = val }
	}
	evil := ref.Delta(y.Commitment(code), []interface{}{patchAddServices(svcEntry("evil2", "evil", "https://evil2.example"))})
	evilDelta := ref.HashModel(code, evil)
	var out []*ref.Op
	add := func(o *ref.Op) { out = append(out, o) }
	lb := func(s string) string { return "F" + tag + ":" + s }
	// (a) valid operations of a stranger key
	add(c.U.MkSigned(lb("a-upd-stranger"), "update", x, "", y.Commitment(code), k2, SignedOpts{}))
	add(c.U.MkSigned(lb("a-rec-stranger"), "recover", x, y.Commitment(code), x.Commitment(code), k2, SignedOpts{}))
	add(c.U.MkSigned(lb("a-deact-stranger"), "deactivate", x, "", "", nil, SignedOpts{}))
	// (b) right key revealed, signature by another key / tampered signature
	add(c.U.MkSigned(lb("b-upd-wrongsigner"), "update", c.CurU, "", y.Commitment(code), k2, SignedOpts{SigningKey: x}))
	add(c.U.MkSigned(lb("b-upd-tampered"), "update", c.CurU, "", y.Commitment(code), k2, SignedOpts{Tamper: true}))
	add(c.U.MkSigned(lb("b-rec-wrongsigner"), "recover", c.CurR, y.Commitment(code), x.Commitment(code), k2, SignedOpts{SigningKey: x}))
	add(c.U.MkSigned(lb("b-rec-tampered"), "recover", c.CurR, y.Commitment(code), x.Commitment(code), k2, SignedOpts{Tamper: true}))
	add(c.U.MkSigned(lb("b-deact-wrongsigner"), "deactivate", c.CurR, "", "", nil, SignedOpts{SigningKey: x}))
	add(c.U.MkSigned(lb("b-deact-tampered"), "deactivate", c.CurR, "", "", nil, SignedOpts{Tamper: true}))
	// (c) signed payload altered after signing
	add(c.U.MkSigned(lb("c-upd-altered-deltahash"), "update", c.CurU, "", y.Commitment(code), k2, SignedOpts{Alter: swapNext("deltaHash", evilDelta), RequestDelta: evil}))
	add(c.U.MkSigned(lb("c-rec-altered-commitment"), "recover", c.CurR, x.Commitment(code), x.Commitment(code), k2, SignedOpts{Alter: swapNext("recoveryCommitment", y.Commitment(code))}))
	add(c.U.MkSigned(lb("c-deact-altered-window"), "deactivate", c.CurR, "", "", nil, SignedOpts{From: 5, Until: 6, Alter: func(p map[string]interface{}) { delete(p, "anchorFrom"); delete(p, "anchorUntil") }}))
	// (d) reveal value of the committed key, signed data and signature of the attacker's key
	add(c.U.MkSigned(lb("d-upd-reveal-mismatch"), "update", c.CurU, "", y.Commitment(code), k2, SignedOpts{SignedKey: x, SigningKey: x}))
	add(c.U.MkSigned(lb("d-rec-reveal-mismatch"), "recover", c.CurR, y.Commitment(code), x.Commitment(code), k2, SignedOpts{SignedKey: x, SigningKey: x}))
	add(c.U.MkSigned(lb("d-deact-reveal-mismatch"), "deactivate", c.CurR, "", "", nil, SignedOpts{SignedKey: x, SigningKey: x}))
	// deactivate whose signed suffix belongs to another DID
	add(c.U.MkSigned(lb("d-deact-other-suffix"), "deactivate", c.CurR, "", "", nil, SignedOpts{SignedSuffix: "EiBotherDidSuffixxxxxxxxxxxxxxxxxxxxxxxxxxxxxxx"}))
	// two defects at once: wrong signer / tampered signature together with an unusable delta (the signature must be checked
	// before any state derived from the operation is returned)
	add(c.U.MkSigned(lb("bc-rec-wrongsigner-delta-mismatch"), "recover", c.CurR, y.Commitment(code), x.Commitment(code), k2, SignedOpts{SigningKey: x, DeltaStatus: ref.DeltaMismatch}))
	add(c.U.MkSigned(lb("bc-rec-tampered-delta-mismatch"), "recover", c.CurR, y.Commitment(code), x.Commitment(code), k2, SignedOpts{Tamper: true, DeltaStatus: ref.DeltaMismatch}))
	add(c.U.MkSigned(lb("bc-rec-wrongsigner-delta-invalid"), "recover", c.CurR, y.Commitment(code), x.Commitment(code), nil, SignedOpts{SigningKey: x, DeltaStatus: ref.DeltaInvalid}))
	add(c.U.MkSigned(lb("bc-rec-tampered-delta-fails"), "recover", c.CurR, y.Commitment(code), x.Commitment(code), nil, SignedOpts{Tamper: true, DeltaStatus: ref.DeltaFails}))
	add(c.U.MkSigned(lb("bc-upd-wrongsigner-delta-mismatch"), "update", c.CurU, "", y.Commitment(code), k2, SignedOpts{SigningKey: x, DeltaStatus: ref.DeltaMismatch}))
	add(c.U.MkSigned(lb("bc-upd-tampered-delta-fails"), "update", c.CurU, "", y.Commitment(code), nil, SignedOpts{Tamper: true, DeltaStatus: ref.DeltaFails}))
	add(c.U.MkSigned(lb("bc-rec-wrongsigner-window"), "recover", c.CurR, y.Commitment(code), x.Commitment(code), k2, SignedOpts{SigningKey: x, From: 1, Until: 2}))
	add(c.U.MkSigned(lb("bc-upd-wrongsigner-window"), "update", c.CurU, "", y.Commitment(code), k2, SignedOpts{SigningKey: x, From: 1, Until: 2}))
	// (f) genuine signature by the key of the other commitment kind: the update key on a recover / deactivate, the recovery key on an update
	add(c.U.MkSigned(lb("f-rec-by-update-key"), "recover", c.CurU, y.Commitment(code), x.Commitment(code), k2, SignedOpts{}))
	add(c.U.MkSigned(lb("f-deact-by-update-key"), "deactivate", c.CurU, "", "", nil, SignedOpts{}))
	add(c.U.MkSigned(lb("f-upd-by-recovery-key"), "update", c.CurR, "", y.Commitment(code), k2, SignedOpts{}))
	// (g) forged competitors whose next commitment is the current one or one the chain has consumed already
	add(c.U.MkSigned(lb("g-upd-wrongsigner-next-current"), "update", c.CurU, "", c.CurU.Commitment(code), k2, SignedOpts{SigningKey: x}))
	add(c.U.MkSigned(lb("g-upd-tampered-next-consumed"), "update", c.CurU, "", c.AllU[0].Commitment(code), k2, SignedOpts{Tamper: true}))
	add(c.U.MkSigned(lb("g-upd-wrongsigner-next-previous"), "update", c.CurU, "", c.AllU[(len(c.AllU)+len(c.AllU)-2)%len(c.AllU)].Commitment(code), k2, SignedOpts{SigningKey: x}))
	add(c.U.MkSigned(lb("g-rec-tampered-next-consumed"), "recover", c.CurR, c.AllR[0].Commitment(code), c.AllU[0].Commitment(code), k2, SignedOpts{Tamper: true}))
	// (h) requests that lack their delta (they still parse in batch mode): right key revealed, signature by another key
	add(c.U.MkSigned(lb("h-upd-wrongsigner-no-delta"), "update", c.CurU, "", y.Commitment(code), k2, SignedOpts{SigningKey: x, OmitDelta: true}))
	add(c.U.MkSigned(lb("h-rec-wrongsigner-no-delta"), "recover", c.CurR, y.Commitment(code), x.Commitment(code), k2, SignedOpts{SigningKey: x, OmitDelta: true}))
	add(c.U.MkSigned(lb("h-upd-tampered-no-delta"), "update", c.CurU, "", y.Commitment(code), k2, SignedOpts{Tamper: true, OmitDelta: true}))
	// (j) signed data that lacks the key member of its operation type altogether (nothing to verify against)
	add(c.U.MkSigned(lb("j-upd-signed-data-without-key"), "update", c.CurU, "", y.Commitment(code), k2, SignedOpts{Alter: func(p map[string]interface{}) { delete(p, "updateKey") }}))
	add(c.U.MkSigned(lb("j-rec-signed-data-without-key"), "recover", c.CurR, y.Commitment(code), x.Commitment(code), k2, SignedOpts{Alter: func(p map[string]interface{}) { delete(p, "recoveryKey") }}))
	add(c.U.MkSigned(lb("j-deact-signed-data-without-key"), "deactivate", c.CurR, "", "", nil, SignedOpts{Alter: func(p map[string]interface{}) { delete(p, "recoveryKey") }}))
	add(c.U.MkSigned(lb("j-upd-signed-data-with-null-key"), "update", c.CurU, "", y.Commitment(code), k2, SignedOpts{Alter: func(p map[string]interface{}) { p["updateKey"] = nil }}))
	// update whose delta does not match the signed delta hash (tampered delta)
	add(c.U.MkSigned(lb("c-upd-delta-swapped"), "update", c.CurU, "", y.Commitment(code), k2, SignedOpts{DeltaStatus: ref.DeltaMismatch}))
	return out
}

// DupCreates returns further create operations for the same DID (same suffix data; same or different delta).
func (c *Chain) DupCreates(tag string) []*ref.Op {
	return []*ref.Op{c.U.MkCreate("F"+tag+":e-create-same", ref.DeltaOK), c.U.MkCreate("F"+tag+":e-create-other-delta", ref.DeltaMismatch)}
}

// RandomChain builds create + n random steps (optionally ending with deactivate).
func RandomChain(rng *hx.Rng, code uint64, p protocol.Protocol, types []string, n int, endDeactivate bool) *Chain {
	c := NewChain(rng, code, p, types)
	for i := 0; i < n; i++ {
		if rng.Chance(1, 4) {
			c.Step("recover")
		} else {
			c.Step("update")
		}
	}
	if endDeactivate {
		c.Step("deactivate")
	}
	return c
}

// coordAlloc hands out distinct (time, number) pairs.
type coordAlloc struct {
	used map[[2]uint64]bool
	n    int
}

func (a *coordAlloc) take(r *hx.Rng, tLo, tHi uint64) (uint64, uint64, string) {
	if a.used == nil {
		a.used = map[[2]uint64]bool{}
	}
	for {
		t := tLo
		if tHi > tLo {
			t += uint64(r.Intn(int(tHi - tLo + 1)))
		}
		num := uint64(r.Intn(6))
		if !a.used[[2]uint64{t, num}] {
			a.used[[2]uint64{t, num}] = true
			a.n++
			return t, num, fmt.Sprintf("ref%d", a.n)
		}
	}
}

// aoKey renders an anchor origin value canonically (JSON value equality: -0 == 0).
func aoKey(v interface{}) string {
	b, err := json.Marshal(v)
	if err != nil {
		return "unmarshalable"
	}
	var t interface{}
	if json.Unmarshal(b, &t) != nil {
		return string(b)
	}
	s, err := ref.JCS(t)
	if err != nil {
		return string(b)
	}
	return s
}

// forgeFromLegit copies a legitimate update / recover: same reveal value, same protected header and the owner's genuine
// SIGNATURE, but a signed payload (and delta) of the attacker's choosing. It fails the authorisation test because the
// signature does not cover the payload as transmitted - whatever was verified before.
func forgeFromLegit(label string, legit *ref.Op, code uint64, evilNext string) *ref.Op {
	if legit.Type != "update" && legit.Type != "recover" {
		return nil
	}
	var req map[string]interface{}
	if json.Unmarshal(legit.Request, &req) != nil {
		return nil
	}
	sd, _ := req["signedData"].(string)
	h, p, sig := ref.SplitJWS(sd)
	raw, err := ref.UnB64(p)
	if err != nil {
		return nil
	}
	var payload map[string]interface{}
	if json.Unmarshal(raw, &payload) != nil {
		return nil
	}
	evil := ref.Delta(evilNext, []interface{}{patchAddServices(svcEntry("taken", "over", "https://attacker.example"))})
	payload["deltaHash"] = ref.HashModel(code, evil)
	req["delta"] = evil
	req["signedData"] = h + "." + ref.B64(ref.MustJCS(payload)) + "." + sig
	f := *legit
	f.Label, f.Request, f.Authorised, f.NextUpdate, f.DeltaStatus = label, ref.MustJCS(req), false, evilNext, ref.DeltaOK
	f.Patches = evil["patches"].([]interface{})
	return &f
}
