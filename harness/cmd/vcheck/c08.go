package main

import (
	"encoding/json"
	"fmt"
	"strings"

	"github.com/trustbloc/sidetree-core-go/pkg/api/operation"
	"github.com/trustbloc/sidetree-core-go/pkg/api/txn"
	"github.com/trustbloc/sidetree-core-go/pkg/commitment"
	"github.com/trustbloc/sidetree-core-go/pkg/dochandler"
	"github.com/trustbloc/sidetree-core-go/pkg/hashing"
	"github.com/trustbloc/sidetree-core-go/pkg/processor"

	"verifharness/hx"
	"verifharness/ref"
)

func init() { register("C08", "exploration", checkC08) }

const b64url = "ABCDEFGHIJKLMNOPQRSTUVWXYZabcdefghijklmnopqrstuvwxyz0123456789-_"

func parseJSON(b []byte) interface{} {
	var v interface{}
	if err := json.Unmarshal(b, &v); err != nil {
		panic(err)
	}
	return v
}

func checkC08(c *hx.Ctx) {
	c.Rule("client-built create/update/recover requests and models over all key types and both hash algorithms: (1) 6 re-serializations each (member order, whitespace, \\u escapes, number spellings) must parse to the same suffix / pass the same hash checks / resolve identically; (2) commitment(key)==hash(decoded reveal(key)) via the library vs ref, every key also in a copy carrying the optional JWK nonce; (3) IsValidModelMultihash accepted exactly when the multihash is H_alg(JCS(model)) for the algorithm it names (right hash, other algorithm, truncated digest, wrong length prefix, unknown code, hash of non-canonical bytes, bit flips); (4) unanchored long-form DIDs: valid one resolves, every single-character substitution (3 substitutes per position) / insertion / deletion of the encoded segment, non-canonical re-encodings every single-member alteration of suffix data and delta, and every alteration of the suffix segment (also through a handler configured with label, domain and alias) must be rejected; (5) an anchored create whose well-formed delta was substituted resolves to an empty document without update commitment and the substituted key cannot update it, and an anchored operation whose reveal value is not the hash of the key in its signed data has no effect; (6) the intake parser and the reader of anchored batch files name the same DID (both algorithm orders, suffix data with and without type); (7) creates posted one after the other through the REST handler: what the writer and the unpublished store keep is still the posted request with its suffix after later requests were served; non-trivial = alteration or re-serialization that differs bytewise from the original; distinct = distinct altered inputs")
	nCases := c.N(400, 4000)
	root := c.Rng("cases")
	seeds := make([]uint64, nCases)
	for i := range seeds {
		seeds[i] = root.U64()
	}
	hx.Parallel(nCases, 16, func(i int) {
		r := hx.NewRng(seeds[i], "c08")
		code := uint64(ref.SHA256)
		p := hx.BaseProtocol()
		p.MaxDeltaSize, p.MaxOperationSize = 6000, 20000
		if i%2 == 1 {
			code = ref.SHA512
			p.MultihashAlgorithms = []uint{ref.SHA512}
		}
		types := []string{ref.KeyTypes[i%5]}
		v := hx.NewVersion(p, hx.VersionOpts{})
		pc := hx.NewClient(v)
		ids := newIDPool(r)
		var opaque map[string]interface{}
		var patches []interface{}
		if r.Bool() {
			opaque = genDoc(r)
			opaque["näme"] = "zażółć   \U0001F600 1e3"
		} else {
			patches = append(genPatches(r, 3, ids), patchJSON(map[string]interface{}{"op": "add", "path": "/num", "value": []interface{}{1.5, float64(100), 1e21, 1e-7, "é\u0000x",
				map[string]interface{}{"a": float64(1), "中": "zh", "가": "ko", "\uFB33": "he", "\U0001F600": "emoji", "Z": true}}}))
		}
		d, cr, err := NewCDid(r.Split("did"), code, types, 300, false, patches, opaque, genOrigin(r), "")
		if err != nil {
			c.Violation("C08 client.NewCreateRequest refused valid inputs: "+err.Error(), map[string]interface{}{"patches": patches, "opaque": opaque})
			return
		}
		d.Suffix = suffixOf(cr.Req, code)
		tree := parseJSON(cr.Req).(map[string]interface{})

		// ---------- (1) re-serialization invariance
		base, err := v.Parser.Parse(hx.Namespace, cr.Req)
		if err != nil {
			c.Violation("C08 parser rejected client-built create: "+err.Error(), map[string]interface{}{"request": string(cr.Req)})
			return
		}
		if base.UniqueSuffix != d.Suffix {
			c.Violation(fmt.Sprintf("C08 unique suffix %s is not the hash of the suffix data %s", base.UniqueSuffix, d.Suffix), map[string]interface{}{"request": string(cr.Req)})
			return
		}
		upd, err := d.Update(genPatches(r, 2, ids), 0, 0)
		if err != nil {
			c.Violation("C08 client.NewUpdateRequest refused valid inputs: "+err.Error(), nil)
			return
		}
		H0 := []*ref.Op{Place(cr.Desc, 10, 0, "r0", 0), Place(upd.Desc, 20, 0, "r1", 0)}
		rm0, err0 := SUTResolve(pc, d.Suffix, H0, nil)
		k0 := rmKey(rm0, err0)
		updTree := parseJSON(upd.Req)
		for k := 0; k < 6; k++ {
			c.Eval()
			re := []byte(Reserialize(r, tree, allReser))
			op, err := v.Parser.Parse(hx.Namespace, re)
			if err != nil || op.UniqueSuffix != d.Suffix {
				c.Violation(fmt.Sprintf("C08 re-serialized create request no longer parses to the same suffix (err=%v)", err),
					map[string]interface{}{"original": string(cr.Req), "reserialized": string(re), "suffix": d.Suffix})
				return
			}
			reU := []byte(Reserialize(r, updTree, reserOpts{Order: true, Space: true, Escapes: true}))
			crOp, upOp := *H0[0], *H0[1]
			crOp.Request, upOp.Request = re, reU
			rm, err := SUTResolve(pc, d.Suffix, []*ref.Op{&crOp, &upOp}, nil)
			if kk := rmKey(rm, err); kk != k0 {
				c.Violation("C08 re-serialized operations resolve differently (hash checks depend on serialization)\n   original:     "+k0+"\n   reserialized: "+kk,
					map[string]interface{}{"create": string(re), "update": string(reU)})
				return
			}
			if string(re) != string(cr.Req) {
				c.Distinct("reser|" + string(re))
			}
			c.Count("reserializations")
		}
		// model hashing: struct / map / raw bytes in several spellings
		for _, model := range []interface{}{tree["suffixData"], tree["delta"], d.CurR.JWK()} {
			want := ref.HashModel(code, model)
			for k := 0; k < 4; k++ {
				c.Eval()
				raw := []byte(Reserialize(r, model, allReser))
				got, err := hashing.CalculateModelMultihash(raw, uint(code))
				got2, err2 := hashing.CalculateModelMultihash(model, uint(code))
				if err != nil || err2 != nil || got != want || got2 != want {
					c.Violation(fmt.Sprintf("C08 model multihash depends on serialization or differs from reference: want %s got(bytes)=%s got(map)=%s err=%v/%v", want, got, got2, err, err2),
						map[string]interface{}{"model_bytes": string(raw)})
					return
				}
			}
		}

		// ---------- (2) commitment / reveal relations
		// every key also in a copy that carries the optional `nonce` member (legal in a JWK used for commitments; two keys
		// that differ only in the nonce must have different commitments and reveal values) - seeded C08-19
		nonceR, nonceU := *d.CurR, *d.CurU
		nonceR.Nonce = ref.B64([]byte(fmt.Sprintf("nonce-%d-%d", i, r.Intn(1<<20))))
		nonceU.Nonce = ref.B64([]byte(fmt.Sprintf("n%d", r.Intn(1<<20))))
		for _, k := range []*ref.Key{d.CurR, d.CurU, &nonceR, &nonceU} {
			if k.Nonce != "" {
				c.Count("commitment_relations_key_with_nonce")
			}
			for _, hc := range []uint64{ref.SHA256, ref.SHA512} {
				c.Eval()
				j, err := libJWK(k)
				if err != nil {
					c.Violation("C08 pubkey.GetPublicKeyJWK failed: "+err.Error(), nil)
					return
				}
				cm, e1 := commitment.GetCommitment(j, uint(hc))
				rv, e2 := commitment.GetRevealValue(j, uint(hc))
				cm2, e3 := commitment.GetCommitmentFromRevealValue(rv)
				if e1 != nil || e2 != nil || e3 != nil || cm != cm2 || cm != k.Commitment(hc) || rv != k.Reveal(hc) {
					c.Violation(fmt.Sprintf("C08 commitment(key) != hash(decoded reveal(key)) or differs from reference: key %s/%s code %#x: commitment=%s fromReveal=%s ref=%s reveal=%s refReveal=%s errs=%v %v %v",
						k.Name, k.Type, hc, cm, cm2, k.Commitment(hc), rv, k.Reveal(hc), e1, e2, e3), map[string]interface{}{"jwk": k.JWK()})
					return
				}
				c.Count("commitment_relations")
			}
		}

		// ---------- (3) IsValidModelMultihash is exactly the reference predicate
		model := tree["delta"]
		canon := ref.MustJCS(model)
		goBytes, _ := json.Marshal(model)
		type mhCase struct {
			name string
			mh   string
			ok   bool
		}
		mk := func(hc uint64, data []byte) string { return ref.EncMultihash(hc, data) }
		d256, _ := ref.Digest(ref.SHA256, canon)
		d512, _ := ref.Digest(ref.SHA512, canon)
		flip := func(s string) string {
			b, _ := ref.UnB64(s)
			b[len(b)-1-r.Intn(len(b)-2)] ^= 1 << uint(r.Intn(8))
			return ref.B64(b)
		}
		cases := []mhCase{
			{"sha256 of canonical form", mk(ref.SHA256, canon), true},
			{"sha512 of canonical form", mk(ref.SHA512, canon), true},
			{"sha256 of a differently spelled serialization", mk(ref.SHA256, []byte(Reserialize(r, model, reserOpts{Space: true})+" ")), false},
			{"sha256 digest truncated", ref.B64(ref.WrapDigest(ref.SHA256, d256[:20])), false},
			{"sha512 digest truncated to 32 bytes labelled sha512", ref.B64(ref.WrapDigest(ref.SHA512, d512[:32])), false},
			{"sha256 digest labelled sha512", ref.B64(ref.WrapDigest(ref.SHA512, d256)), false},
			{"wrong length prefix", ref.B64(append([]byte{ref.SHA256, 31}, d256...)), false},
			{"unknown code", ref.B64(ref.WrapDigest(0x55, d256)), false},
			{"bit flip", flip(mk(ref.SHA256, canon)), false},
			{"bit flip 512", flip(mk(ref.SHA512, canon)), false},
			{"not base64", "!!" + mk(ref.SHA256, canon), false},
			{"empty", "", false},
		}
		if string(goBytes) != string(canon) {
			cases = append(cases, mhCase{"sha256 of json.Marshal bytes (non-canonical)", mk(ref.SHA256, goBytes), false})
		}
		for _, mc := range cases {
			c.Eval()
			if mc.mh == mk(ref.SHA256, canon) || mc.mh == mk(ref.SHA512, canon) {
				mc.ok = true
			}
			err := hashing.IsValidModelMultihash(model, mc.mh)
			if (err == nil) != mc.ok {
				c.Violation(fmt.Sprintf("C08 IsValidModelMultihash(%s) accepted=%v, reference predicate says %v", mc.name, err == nil, mc.ok),
					map[string]interface{}{"model": string(canon), "multihash": mc.mh})
				return
			}
			c.Count(fmt.Sprintf("multihash_case_ok=%v", mc.ok))
			if !mc.ok {
				c.Distinct("mh|" + mc.mh)
			}
		}

		// ---------- (4) long-form DID
		store := hx.NewOpStore()
		proc := processor.New("verif", store, pc)
		dh := dochandler.New(hx.Namespace, nil, pc, &hx.RecWriter{}, proc, hx.NopMetrics{})
		initial := map[string]interface{}{"suffixData": tree["suffixData"], "delta": tree["delta"]}
		seg := ref.B64(ref.MustJCS(initial))
		didPrefix := hx.Namespace + ":" + d.Suffix + ":"
		c.Eval()
		res, err := dh.ResolveDocument(didPrefix + seg)
		if err != nil {
			c.Violation("C08 valid canonical long-form DID does not resolve: "+err.Error(), map[string]interface{}{"did": didPrefix + seg})
			return
		}
		if !strings.Contains(fmt.Sprint(res.Document["id"]), d.Suffix) {
			c.Violation("C08 long-form resolution result has an unexpected id", map[string]interface{}{"did": didPrefix + seg, "id": res.Document["id"]})
			return
		}
		c.Count("longform_valid_resolved")
		mustReject := func(kind, did string) bool {
			c.Eval()
			_, err := dh.ResolveDocument(did)
			if err == nil {
				c.Violation("C08 altered long-form DID was accepted ("+kind+")", map[string]interface{}{"original": didPrefix + seg, "altered": did, "kind": kind})
				return false
			}
			c.Count("longform_rejected:" + kind)
			c.Distinct(did)
			return true
		}
		// single-character substitutions: every position in thorough, a stride in quick
		stride := 1
		if !c.Thorough() {
			stride = 1 + len(seg)/120
		}
		for pos := i % stride; pos < len(seg); pos += stride {
			for s := 0; s < 3; s++ {
				ch := b64url[r.Intn(64)]
				if ch == seg[pos] {
					ch = b64url[(strings.IndexByte(b64url, seg[pos])+1+s)%64]
				}
				if !mustReject("substitution", didPrefix+seg[:pos]+string(ch)+seg[pos+1:]) {
					return
				}
			}
		}
		// last-character substitutions that keep the decoded bytes (non-canonical trailing bits) and ignored characters
		last := strings.IndexByte(b64url, seg[len(seg)-1])
		for _, delta := range []int{1, 2, 3} {
			if !mustReject("trailing-bits", didPrefix+seg[:len(seg)-1]+string(b64url[(last&^3|((last+delta)&3))%64])) && false {
				return
			}
		}
		for k := 0; k < 6; k++ {
			pos := r.Intn(len(seg) + 1)
			if !mustReject("insertion", didPrefix+seg[:pos]+string(hx.Pick(r, []string{"A", "\n", "\r", "=", "-", "x"}))+seg[pos:]) {
				return
			}
			pos = r.Intn(len(seg))
			if !mustReject("deletion", didPrefix+seg[:pos]+seg[pos+1:]) {
				return
			}
		}
		// non-canonical re-encodings of the same value
		for k := 0; k < 4; k++ {
			re := Reserialize(r, initial, reserOpts{Order: true, Space: true, Escapes: k%2 == 0})
			if re == string(ref.MustJCS(initial)) {
				continue
			}
			if !mustReject("non-canonical-encoding", didPrefix+ref.B64([]byte(re))) {
				return
			}
		}
		// single-member alterations (canonically re-encoded)
		alter := func(kind string, f func(m map[string]interface{})) bool {
			m := ref.CopyTree(initial).(map[string]interface{})
			f(m)
			return mustReject(kind, didPrefix+ref.B64(ref.MustJCS(m)))
		}
		sd := func(m map[string]interface{}) map[string]interface{} { return m["suffixData"].(map[string]interface{}) }
		dl := func(m map[string]interface{}) map[string]interface{} { return m["delta"].(map[string]interface{}) }
		otherKey := ref.NewKey("P-256", "o", r.Bytes(32))
		ok := alter("suffixData.recoveryCommitment changed", func(m map[string]interface{}) { sd(m)["recoveryCommitment"] = otherKey.Commitment(code) }) &&
			alter("suffixData.deltaHash changed", func(m map[string]interface{}) { sd(m)["deltaHash"] = ref.EncMultihash(code, []byte("x")) }) &&
			alter("suffixData.recoveryCommitment removed", func(m map[string]interface{}) { delete(sd(m), "recoveryCommitment") }) &&
			alter("suffixData.deltaHash removed", func(m map[string]interface{}) { delete(sd(m), "deltaHash") }) &&
			alter("suffixData.anchorOrigin changed", func(m map[string]interface{}) { sd(m)["anchorOrigin"] = "other-origin-x" }) &&
			alter("suffixData.anchorOrigin with blanks around it", func(m map[string]interface{}) {
				if o, isString := sd(m)["anchorOrigin"].(string); isString {
					sd(m)["anchorOrigin"] = hx.Pick(r, []string{o + " ", " " + o, o + "\n", "\t" + o + " "})
				} else {
					sd(m)["anchorOrigin"] = "other-origin-y "
				}
			}) &&
			alter("suffixData.type added", func(m map[string]interface{}) { sd(m)["type"] = "zz" }) &&
			alter("suffixData unknown member added", func(m map[string]interface{}) { sd(m)["foo"] = "bar" }) &&
			alter("delta.updateCommitment changed", func(m map[string]interface{}) { dl(m)["updateCommitment"] = otherKey.Commitment(code) }) &&
			alter("delta.updateCommitment removed", func(m map[string]interface{}) { delete(dl(m), "updateCommitment") }) &&
			alter("delta.patches changed", func(m map[string]interface{}) {
				dl(m)["patches"] = append(append([]interface{}{}, dl(m)["patches"].([]interface{})...), patchAddServices(svcEntry("inj", "inj", "https://inj.example")))
			}) &&
			alter("delta.patches removed", func(m map[string]interface{}) { delete(dl(m), "patches") }) &&
			alter("delta unknown member added", func(m map[string]interface{}) { dl(m)["foo"] = float64(1) }) &&
			alter("top-level unknown member added", func(m map[string]interface{}) { m["foo"] = "bar" }) &&
			alter("delta removed", func(m map[string]interface{}) { delete(m, "delta") }) &&
			alter("suffixData removed", func(m map[string]interface{}) { delete(m, "suffixData") })
		if !ok {
			return
		}
		// alterations of the suffix segment itself, through a plain handler and through one configured with a label / domain
		// (rarely used options that change how the DID string is taken apart)
		label := fmt.Sprintf("lbl%d", i%7)
		dhL := dochandler.New(hx.Namespace, []string{"did:alias"}, pc, &hx.RecWriter{}, proc, hx.NopMetrics{}, dochandler.WithLabel(label), dochandler.WithDomain("https://dom.example"))
		if _, err := dhL.ResolveDocument(hx.Namespace + ":" + label + ":" + d.Suffix + ":" + seg); err != nil {
			c.Violation("C08 valid long-form DID carrying the configured label does not resolve: "+err.Error(), map[string]interface{}{"did": hx.Namespace + ":" + label + ":" + d.Suffix + ":" + seg})
			return
		}
		c.Count("longform_with_label_resolved")
		sfx := d.Suffix
		pos := r.Intn(len(sfx))
		sub := b64url[(strings.IndexByte(b64url, sfx[pos])+1+r.Intn(62))%64]
		for _, alt := range []struct{ kind, suffix string }{
			{"suffix prefixed with the configured label", label + sfx},
			{"suffix prefixed with a character", "E" + sfx},
			{"suffix followed by a character", sfx + "A"},
			{"suffix followed by the configured label", sfx + label},
			{"suffix character substituted", sfx[:pos] + string(sub) + sfx[pos+1:]},
			{"suffix first character removed", sfx[1:]},
			{"suffix last character removed", sfx[:len(sfx)-1]},
			{"suffix in other letter case", strings.ToUpper(sfx)},
		} {
			if alt.suffix == sfx {
				continue
			}
			for hi, h := range []*dochandler.DocumentHandler{dh, dhL} {
				forms := []string{hx.Namespace + ":" + alt.suffix + ":" + seg}
				if hi == 1 {
					forms = append(forms, hx.Namespace+":"+label+":"+alt.suffix+":"+seg, "did:alias:"+alt.suffix+":"+seg)
				}
				for _, did := range forms {
					c.Eval()
					if _, err := h.ResolveDocument(did); err == nil {
						c.Violation(fmt.Sprintf("C08 long-form DID whose suffix is not the hash of the embedded suffix data was accepted (%s, handler with label=%v)", alt.kind, hi == 1),
							map[string]interface{}{"original": didPrefix + seg, "altered": did, "kind": alt.kind, "label": label})
						return
					}
					c.Count("longform_rejected:suffix-altered")
					c.Distinct(did)
				}
			}
		}
		// valid initial state under a different suffix
		if !mustReject("suffix does not match initial state", hx.Namespace+":"+ref.EncMultihash(code, []byte("another"))+":"+seg) {
			return
		}
		// observed, not judged: top-level "type" member (see DESIGN Appendix B)
		{
			m := ref.CopyTree(initial).(map[string]interface{})
			m["type"] = "create"
			if _, err := dh.ResolveDocument(didPrefix + ref.B64(ref.MustJCS(m))); err == nil {
				c.Count("observed_not_judged:top-level type member accepted")
			}
		}
		// ---------- (5) the delta hash binds the delta of an ANCHORED create as well: a create whose (well-formed) delta was
		// substituted after the suffix data was fixed yields an empty document and no update commitment, so the key named by
		// the substituted delta cannot update the DID
		if i%4 == 0 {
			pu := hx.BaseProtocol()
			pu.MultihashAlgorithms = []uint{uint(code)}
			u := NewUniverse(r.Split("bind"), code, pu, []string{types[0], "P-256"})
			spec := *u.Create
			evil := ref.Delta(u.X[0].Commitment(code), []interface{}{patchAddServices(svcEntry("evil", "x", "https://evil.example"))})
			spec.DeltaHashOverride = ref.HashModel(code, spec.Delta)
			spec.Delta = evil
			cr := &ref.Op{Label: "create-with-substituted-delta", Type: "create", Request: ref.MustJCS(spec.Request()), Parses: true,
				CreateRecovery: spec.RecoveryCommitment, NextUpdate: u.X[0].Commitment(code), DeltaStatus: ref.DeltaMismatch,
				Patches: evil["patches"].([]interface{}), AnchorOrigin: spec.AnchorOrigin, MaxDelta: u.MaxDelta}
			up := u.MkSigned("update-by-substituted-key", "update", u.X[0], "", u.X[1].Commitment(code),
				[]interface{}{patchAddKeys(pubKeyEntry("injected", u.X[1], "authentication"))}, SignedOpts{})
			H := []*ref.Op{Place(cr, 1000, 0, "ref0", 0), Place(up, 1010, 0, "ref1", 0)}
			pcu := hx.NewClient(hx.NewVersion(pu, hx.VersionOpts{ParserOpts: hx.StrictResolution()}))
			c.Eval()
			st, merr := ref.Resolve(H, ref.ResolveOpts{})
			rm, err := SUTResolve(pcu, u.Suffix, H, nil)
			if want, got := stKey(st, merr), rmKey(rm, err); want != got {
				c.Violation("C08 an anchored create whose delta does not match the delta hash in its suffix data still binds state from that delta\n   model:   "+want+"\n   library: "+got,
					map[string]interface{}{"suffix": u.Suffix, "history": replayOps(H), "model": want, "library": got})
				return
			}
			c.Count("anchored_create_with_substituted_delta")
			// the same for a recover: genuine signed data, delta exchanged for another well-formed one naming the attacker's
			// update commitment; afterwards an update by that key
			{
				okCreate := Place(u.MkCreate("create", ref.DeltaOK), 1000, 0, "ref0", 0)
				spec := &ref.SignedSpec{Op: "recover", Code: code, Suffix: u.Suffix, RevealKey: u.R[0], RecoveryCommitment: u.R[1].Commitment(code),
					Delta: ref.Delta(u.U[1].Commitment(code), []interface{}{patchAddServices(svcEntry("genuine", "t", "https://genuine.example"))}), AnchorOrigin: "o",
					DeltaInRequest: evil}
				rec := &ref.Op{Label: "recover-with-substituted-delta", Type: "recover", Request: ref.MustJCS(spec.Request()), Parses: true, Authorised: true,
					Consumes: u.R[0].Commitment(code), NextRecovery: u.R[1].Commitment(code), NextUpdate: u.X[0].Commitment(code), DeltaStatus: ref.DeltaMismatch,
					Patches: evil["patches"].([]interface{}), AnchorOrigin: "o", MaxDelta: u.MaxDelta}
				H := []*ref.Op{okCreate, Place(rec, 1010, 0, "ref1", 0), Place(up, 1020, 0, "ref2", 0)}
				c.Eval()
				st, merr := ref.Resolve(H, ref.ResolveOpts{})
				rm, err := SUTResolve(pcu, u.Suffix, H, nil)
				if want, got := stKey(st, merr), rmKey(rm, err); want != got {
					c.Violation("C08 an anchored recover whose delta does not match the signed delta hash still binds state from that delta\n   model:   "+want+"\n   library: "+got,
						map[string]interface{}{"suffix": u.Suffix, "history": replayOps(H), "model": want, "library": got})
					return
				}
				c.Count("anchored_recover_with_substituted_delta")
			}
			// the reveal value binds the key: an anchored update / recover / deactivate whose reveal value is the hash of the
			// owner's key while its signed data names (and is signed by) another key has no effect
			okCreate := Place(u.MkCreate("create", ref.DeltaOK), 1000, 0, "ref0", 0)
			k2 := []interface{}{patchAddKeys(pubKeyEntry("injected", u.X[1], "authentication"))}
			for _, forged := range []*ref.Op{
				u.MkSigned("update-reveal-of-owner-key-signed-data-of-another", "update", u.U[0], "", u.X[1].Commitment(code), k2, SignedOpts{SignedKey: u.X[0], SigningKey: u.X[0]}),
				u.MkSigned("recover-reveal-of-owner-key-signed-data-of-another", "recover", u.R[0], u.X[1].Commitment(code), u.X[0].Commitment(code), k2, SignedOpts{SignedKey: u.X[0], SigningKey: u.X[0]}),
				u.MkSigned("deactivate-reveal-of-owner-key-signed-data-of-another", "deactivate", u.R[0], "", "", nil, SignedOpts{SignedKey: u.X[0], SigningKey: u.X[0]}),
			} {
				H := []*ref.Op{okCreate, Place(forged, 1010, 0, "ref1", 0)}
				c.Eval()
				st, merr := ref.Resolve(H, ref.ResolveOpts{})
				rm, err := SUTResolve(pcu, u.Suffix, H, nil)
				if want, got := stKey(st, merr), rmKey(rm, err); want != got {
					c.Violation("C08 an anchored "+forged.Type+" whose reveal value is not the hash of the key in its signed data took effect\n   model:   "+want+"\n   library: "+got,
						map[string]interface{}{"suffix": u.Suffix, "history": replayOps(H), "model": want, "library": got})
					return
				}
				c.Count("anchored_reveal_value_not_binding_key")
			}
		}
		// ---------- (6) one suffix per suffix data, whichever component computes it: the intake parser and the reader of
		// anchored batch files must name the same DID (protocol enabling both algorithms, in both orders)
		if i%8 == 0 {
			// the same for a create whose suffix data carries the optional type member (part of the suffix)
			_, crTyped, terr := NewCDid(r.Split("did-typed"), code, types, 300, false, []interface{}{patchAddServices(svcEntry("st", "web", "https://example.com/st"))}, nil, genOrigin(r), fmt.Sprintf("t%d", i%9))
			if terr != nil {
				c.Violation("C08 client.NewCreateRequest refused valid inputs: "+terr.Error(), nil)
				return
			}
			for ai, algs := range [][]uint{{ref.SHA512, ref.SHA256}, {ref.SHA256, ref.SHA512}, {ref.SHA512, ref.SHA256}, {ref.SHA256, ref.SHA512}} {
				cr, tree := cr, tree
				if ai >= 2 {
					cr = crTyped
					tree = map[string]interface{}{}
					_ = json.Unmarshal(cr.Req, &tree)
					c.Count("suffix_agreement_with_suffix_data_type")
				}
				pm := hx.BaseProtocol()
				pm.MultihashAlgorithms = algs
				pm.MaxDeltaSize, pm.MaxOperationSize = 9000, 20000
				pm.MaxChunkFileSize, pm.MaxCoreIndexFileSize, pm.MaxProofFileSize, pm.MaxProvisionalIndexFileSize = 2000000, 2000001, 2000002, 2000003
				cas := hx.NewMemCAS()
				vm := hx.NewVersion(pm, hx.VersionOpts{CAS: cas})
				c.Eval()
				want := ref.HashModel(uint64(algs[0]), tree["suffixData"])
				op, err := vm.Parser.Parse(hx.Namespace, cr.Req)
				if err != nil {
					c.Violation(fmt.Sprintf("C08 valid create refused by a protocol enabling %v: %v", algs, err), map[string]interface{}{"request": string(cr.Req)})
					return
				}
				info, err := vm.Handler.PrepareTxnFiles([]*operation.QueuedOperation{{Type: operation.TypeCreate, OperationRequest: cr.Req, UniqueSuffix: op.UniqueSuffix, Namespace: hx.Namespace}})
				if err != nil {
					c.Violation("C08 batch files cannot be written for a valid create: "+err.Error(), nil)
					return
				}
				got, err := vm.Provider.GetTxnOperations(&txn.SidetreeTxn{AnchorString: info.AnchorString, Namespace: hx.Namespace, TransactionTime: 5, ProtocolVersion: pm.GenesisTime})
				if err != nil || len(got) != 1 || got[0].UniqueSuffix != op.UniqueSuffix || op.UniqueSuffix != want {
					gs := ""
					if len(got) == 1 {
						gs = got[0].UniqueSuffix
					}
					c.Violation(fmt.Sprintf("C08 the same suffix data names different DIDs: intake parser %s, reader of the anchored batch %s (err=%v), hash of the suffix data under the protocol's first algorithm %s (algorithms %v, controller hashes with %#x)", op.UniqueSuffix, gs, err, want, algs, code),
						map[string]interface{}{"request": string(cr.Req), "algorithms": algs})
					return
				}
				c.Count("suffix_agreement_between_parser_and_batch_reader")
			}
		}
		if i < 2 {
			c.Sample(2, map[string]interface{}{"long_form_did": didPrefix + seg, "key_type": types[0], "multihash": code})
		}
	})
	c08ThroughREST(c)
	c.Floor("rest_runs_with_several_creates", 10)
	c.Floor("commitment_relations_key_with_nonce", 100)
	c.Floor("suffix_agreement_between_parser_and_batch_reader", 20)
	c.Floor("suffix_agreement_with_suffix_data_type", 10)
	c.Floor("anchored_create_with_substituted_delta", 20)
	c.Floor("anchored_recover_with_substituted_delta", 20)
	c.Floor("longform_valid_resolved", 20)
	c.Floor("longform_with_label_resolved", 20)
	c.Floor("longform_rejected:suffix-altered", 200)
	c.Floor("longform_rejected:substitution", 1000)
	c.Floor("longform_rejected:non-canonical-encoding", 20)
	c.Floor("multihash_case_ok=true", 40)
	c.Floor("multihash_case_ok=false", 200)
}
