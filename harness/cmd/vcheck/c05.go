package main

import (
	"fmt"
	"sync"
	"time"

	"github.com/trustbloc/sidetree-core-go/pkg/dochandler"
	"github.com/trustbloc/sidetree-core-go/pkg/processor"

	"github.com/trustbloc/sidetree-core-go/pkg/api/operation"
	"github.com/trustbloc/sidetree-core-go/pkg/api/protocol"
	"github.com/trustbloc/sidetree-core-go/pkg/api/txn"
	"github.com/trustbloc/sidetree-core-go/pkg/versions/1_0/operationparser"
	"github.com/trustbloc/sidetree-core-go/pkg/versions/1_0/txnprocessor"

	"verifharness/hx"
	"verifharness/ref"
)

func init() { register("C05", "exploration", checkC05) }

type recTimeValidator struct {
	mu    sync.Mutex
	calls [][2]int64
}

func (v *recTimeValidator) Validate(from, until int64) error {
	v.mu.Lock()
	v.calls = append(v.calls, [2]int64{from, until})
	v.mu.Unlock()
	return nil
}

type protoVariant struct {
	name string
	mut  func(p *protocol.Protocol)
}

func checkC05(c *hx.Ctx) {
	c.Rule("grid: operation type {update, recover, deactivate} x (anchorFrom, anchorUntil) in {(0,0),(0,U),(F,0),(F,U),(F,F) and the inverted, never open (U,F)} x anchoring time {F-1,F,F+1,U-1,U,U+1,F+D-1,F+D,F+D+1, 1, 2^40} x MaxOperationTimeDelta D {0,1,300,7200} x one unrelated protocol parameter moved far below/above D at a time (delta size, operation size, operation count, nonce size, hash length, file sizes, decompression factor, CAS URI length); oracle: effect in window / commitment consumed out of window / deactivate ignored, computed from (from, until, D, t) only; intake: arguments received by the installed TimeValidator = (from, effective until); exhaustive over the grid; a second grid has two protocol versions with different time deltas (genesis 0 and 5100): the default window of an operation is computed with the delta of the version stamped on the anchored operation, whatever version is in force at its anchoring time; operations declaring only anchorFrom waiting in the REAL batch writer's queue across an upgrade that changes the delta: the window handed to the server-time validator at batch cut time and the decision to anchor follow the version the operation was accepted under; non-trivial = every grid point with a declared window; distinct = grid points")
	c.Set("exhaustive", true)
	F, U := int64(5000), int64(5100)
	deltas := []uint64{0, 1, 300, 7200} // 0 is a legal value: an operation declaring only anchorFrom is then valid at that very time only
	variants := []protoVariant{
		{"base", func(p *protocol.Protocol) {}},
		{"MaxDeltaSize=1500", func(p *protocol.Protocol) { p.MaxDeltaSize = 1500 }},
		{"MaxDeltaSize=100000", func(p *protocol.Protocol) { p.MaxDeltaSize = 100000 }},
		{"MaxOperationSize=3000", func(p *protocol.Protocol) { p.MaxOperationSize = 3000 }},
		{"MaxOperationSize=1000000", func(p *protocol.Protocol) { p.MaxOperationSize = 1000000 }},
		{"MaxOperationCount=1", func(p *protocol.Protocol) { p.MaxOperationCount = 1 }},
		{"MaxOperationCount=100000", func(p *protocol.Protocol) { p.MaxOperationCount = 100000 }},
		{"NonceSize=1", func(p *protocol.Protocol) { p.NonceSize = 1 }},
		{"NonceSize=9000", func(p *protocol.Protocol) { p.NonceSize = 9000 }},
		{"MaxOperationHashLength=90", func(p *protocol.Protocol) { p.MaxOperationHashLength = 90 }},
		{"MaxOperationHashLength=8000", func(p *protocol.Protocol) { p.MaxOperationHashLength = 8000 }},
		{"FileSizes=1", func(p *protocol.Protocol) {
			p.MaxChunkFileSize, p.MaxCoreIndexFileSize, p.MaxProofFileSize, p.MaxProvisionalIndexFileSize = 1, 1, 1, 1
		}},
		{"FileSizes=9999999", func(p *protocol.Protocol) {
			p.MaxChunkFileSize, p.MaxCoreIndexFileSize, p.MaxProofFileSize, p.MaxProvisionalIndexFileSize = 9999999, 9999999, 9999999, 9999999
		}},
		{"DecompressionFactor=7000", func(p *protocol.Protocol) { p.MaxMemoryDecompressionFactor = 7000 }},
		{"MaxCasURILength=1", func(p *protocol.Protocol) { p.MaxCasURILength = 1 }},
		{"GenesisTime-unchanged,MaxCasURILength=7300", func(p *protocol.Protocol) { p.MaxCasURILength = 7300 }},
	}
	keySets := [][]string{{"P-256"}, {"Ed25519"}}
	if c.Thorough() {
		keySets = [][]string{{"P-256"}, {"Ed25519"}, {"P-384"}, {"P-521"}, {"secp256k1"}}
	}
	rng := c.Rng("u")
	type job struct {
		u     *Universe
		op    *ref.Op
		kind  string
		delta uint64
		v     protoVariant
		from  int64
		until int64
	}
	var jobs []job
	for _, ks := range keySets {
		u := NewUniverse(rng.Split(ks[0]), ref.SHA256, hx.BaseProtocol(), ks)
		cm := func(k *ref.Key) string { return k.Commitment(u.Code) }
		k2 := []interface{}{patchAddServices(svcEntry("w", "win", "https://window.example"))}
		for _, fu := range [][2]int64{{0, 0}, {0, U}, {F, 0}, {F, U}, {U, F}, {F, F}} { // {U, F}: inverted window, never open
			{
				from, until := fu[0], fu[1]
				o := SignedOpts{From: from, Until: until}
				ops := map[string]*ref.Op{
					"update":     u.MkSigned(fmt.Sprintf("upd[%d,%d]", from, until), "update", u.U[0], "", cm(u.U[1]), k2, o),
					"recover":    u.MkSigned(fmt.Sprintf("rec[%d,%d]", from, until), "recover", u.R[0], cm(u.R[1]), cm(u.U[1]), k2, o),
					"deactivate": u.MkSigned(fmt.Sprintf("deact[%d,%d]", from, until), "deactivate", u.R[0], "", "", nil, o),
				}
				for kind, op := range ops {
					for _, d := range deltas {
						for _, v := range variants {
							jobs = append(jobs, job{u, op, kind, d, v, from, until})
						}
					}
				}
			}
		}
	}
	createOp := map[*Universe]*ref.Op{}
	for _, j := range jobs {
		if createOp[j.u] == nil {
			createOp[j.u] = j.u.MkCreate("C", ref.DeltaOK)
		}
	}
	hx.Parallel(len(jobs), 16, func(i int) {
		j := jobs[i]
		p := hx.BaseProtocol()
		p.MaxOperationTimeDelta = j.delta
		j.v.mut(&p)
		D := int64(j.delta)
		times := []int64{F - 1, F, F + 1, U - 1, U, U + 1, F + D - 1, F + D, F + D + 1, 1, 1 << 40}
		tv := &recTimeValidator{}
		v := hx.NewVersion(p, hx.VersionOpts{ParserOpts: []operationparser.Option{operationparser.WithAnchorTimeValidator(tv)}})
		pc := hx.NewClient(v)
		// intake: arguments handed to the time validator
		c.Eval()
		_, perr := v.Parser.Parse(hx.Namespace, j.op.Request)
		wantUntil := j.until
		if j.from != 0 && j.until == 0 {
			wantUntil = j.from + D
		}
		gridPt := fmt.Sprintf("%s from=%d until=%d D=%d variant=%s keys=%s", j.kind, j.from, j.until, D, j.v.name, j.u.R[0].Type)
		inverted := j.from != 0 && j.until != 0 && j.from > j.until
		if perr != nil && inverted {
			// the statement does not say whether intake admits a window that can never be open; what it does say - an anchored
			// operation outside its window still consumes its commitment - is checked below either way
			c.Count("inverted_window_refused_at_intake")
		} else if perr != nil {
			c.Violation("C05 intake rejected a well-formed windowed operation (time validator accepts everything): "+gridPt+": "+perr.Error(),
				map[string]interface{}{"grid": gridPt, "request": string(j.op.Request)})
			return
		}
		if perr != nil {
			tv.calls = append(tv.calls[:0], [2]int64{j.from, wantUntil}) // nothing to compare; keep the later "no further calls" rule meaningful
		}
		if len(tv.calls) != 1 || tv.calls[0] != [2]int64{j.from, wantUntil} {
			c.Violation(fmt.Sprintf("C05 time validator received %v, expected [(%d,%d)]: %s", tv.calls, j.from, wantUntil, gridPt),
				map[string]interface{}{"grid": gridPt, "request": string(j.op.Request), "validator_calls": tv.calls})
			return
		}
		c.Count("validator_calls_checked")
		for _, t := range times {
			if t <= 0 {
				continue
			}
			c.Eval()
			op := *j.op
			op.MaxDelta = D
			cr := Place(createOp[j.u], 1, 0, "ref0", p.GenesisTime)
			if uint64(t) == 1 {
				cr = Place(createOp[j.u], 0, 5, "ref0", p.GenesisTime)
			}
			crc := *cr
			crc.MaxDelta = D
			H := []*ref.Op{&crc, Place(&op, uint64(t), 1, "ref1", p.GenesisTime)}
			st, merr := ref.Resolve(H, ref.ResolveOpts{})
			rm, err := SUTResolve(pc, j.u.Suffix, H, nil)
			want, got := stKey(st, merr), rmKey(rm, err)
			in := ref.InWindow(j.from, j.until, D, uint64(t))
			if want != got {
				c.Violation(fmt.Sprintf("C05 wrong effect for anchoring time %d (model says in-window=%v): %s\n   model:   %s\n   library: %s", t, in, gridPt, want, got),
					map[string]interface{}{"grid": gridPt, "anchoring_time": t, "history": replayOps(H), "model": want, "library": got, "protocol": p})
				return
			}
			if in {
				c.Count("in_window:" + j.kind)
			} else {
				c.Count("out_of_window:" + j.kind)
			}
			if t >= 4 && t < 1<<39 && (j.from != 0 || j.until != 0) {
				// the same grid point with an ordinary, effective update anchored before the windowed operation: whatever the
				// window says about the later operation, nothing else may happen to the earlier one
				up := j.u.MkSigned("earlier-upd", "update", j.u.U[0], "", j.u.U[2].Commitment(j.u.Code), []interface{}{patchAddServices(svcEntry("kept", "t", "https://kept.example"))}, SignedOpts{})
				up.MaxDelta = D
				var later *ref.Op
				switch j.kind {
				case "update":
					later = j.u.MkSigned("later-"+j.op.Label, "update", j.u.U[2], "", j.u.U[1].Commitment(j.u.Code), []interface{}{patchAddServices(svcEntry("w2", "win", "https://window2.example"))}, SignedOpts{From: j.from, Until: j.until})
				default:
					later = j.op
				}
				lt := *later
				lt.MaxDelta = D
				cr3 := *Place(createOp[j.u], 1, 0, "ref0", p.GenesisTime)
				cr3.MaxDelta = D
				H3 := []*ref.Op{&cr3, Place(up, 2, 0, "refU", p.GenesisTime), Place(&lt, uint64(t), 1, "ref1", p.GenesisTime)}
				st3, merr3 := ref.Resolve(H3, ref.ResolveOpts{})
				rm3, err3 := SUTResolve(pc, j.u.Suffix, H3, nil)
				c.Eval()
				if w3, g3 := stKey(st3, merr3), rmKey(rm3, err3); w3 != g3 {
					c.Violation(fmt.Sprintf("C05 wrong effect when an effective update precedes the windowed %s anchored at %d (model says in-window=%v): %s\n   model:   %s\n   library: %s", j.kind, t, in, gridPt, w3, g3),
						map[string]interface{}{"grid": gridPt, "anchoring_time": t, "history": replayOps(H3), "model": w3, "library": g3})
					return
				}
				c.Count("grid_points_with_an_earlier_update")
			}
			if !in && j.from != 0 {
				// the interim copy of the same operation is still in the unpublished store, stamped with its intake time
				// (inside the window): the anchored copy decides, the interim copy must not resurrect the effect
				H2 := append(append([]*ref.Op{}, H...), Place(&op, uint64(j.from), 0, "", p.GenesisTime))
				st2, merr2 := ref.Resolve(H2, ref.ResolveOpts{})
				rm2, err2 := SUTResolve(pc, j.u.Suffix, H2, nil)
				c.Eval()
				if w2, g2 := stKey(st2, merr2), rmKey(rm2, err2); w2 != g2 {
					c.Violation(fmt.Sprintf("C05 an interim (unpublished) copy stamped inside the window gave effect to an operation anchored outside its window at %d: %s\n   model:   %s\n   library: %s", t, gridPt, w2, g2),
						map[string]interface{}{"grid": gridPt, "anchoring_time": t, "history": replayOps(H2), "model": w2, "library": g2})
					return
				}
				c.Count("out_of_window_with_interim_copy")
			}
			if j.from != 0 || j.until != 0 {
				c.Distinct(fmt.Sprintf("%s t=%d", gridPt, t))
			}
		}
		if len(tv.calls) != 1 {
			c.Violation(fmt.Sprintf("C05 the intake time validator was consulted %d more time(s) while resolving anchored operations: %s", len(tv.calls)-1, gridPt),
				map[string]interface{}{"grid": gridPt, "validator_calls": tv.calls})
			return
		}
		if i%97 == 0 {
			c.Sample(4, map[string]interface{}{"grid_point": gridPt, "times": times, "validator_args": tv.calls})
		}
	})
	c05ThroughWriter(c)
	c.Floor("writer_runs_across_an_upgrade", 30)
	c.Floor("writer_runs_with_stale_old_operation", 10)
	c05InterimCopies(c)
	c.Floor("interim_copies_resolved_in_window", 10)
	c.Floor("interim_copies_superseded_by_an_out_of_window_anchoring", 10)
	c05TwoVersions(c)
	c.Floor("two_version_points_where_versions_disagree", 20)
	c.Floor("out_of_window_with_interim_copy", 100)
	c.Floor("grid_points_with_an_earlier_update", 500)
	for _, k := range []string{"update", "recover", "deactivate"} {
		c.Floor("in_window:"+k, 100)
		c.Floor("out_of_window:"+k, 100)
	}
}

// c05TwoVersions: the default window (anchorFrom + MaxOperationTimeDelta) is the one of the protocol version the operation was
// anchored under (the version stamped on the anchored operation), also when the anchoring time itself lies in the
// validity period of another version with another time delta.
func c05TwoVersions(c *hx.Ctx) {
	F, G := int64(5000), uint64(5100)
	rng := c.Rng("two-versions")
	type job struct {
		u      *Universe
		kind   string
		da, db uint64
	}
	var jobs []job
	for _, ks := range [][]string{{"P-256"}, {"Ed25519"}} {
		u := NewUniverse(rng.Split(ks[0]), ref.SHA256, hx.BaseProtocol(), ks)
		for _, kind := range []string{"update", "recover", "deactivate"} {
			for _, d := range [][2]uint64{{50, 300}, {300, 50}, {150, 7200}, {7200, 150}, {1, 120}, {120, 1}} {
				jobs = append(jobs, job{u, kind, d[0], d[1]})
			}
		}
	}
	hx.Parallel(len(jobs), 16, func(i int) {
		j := jobs[i]
		p0 := hx.BaseProtocol()
		p0.MaxOperationTimeDelta = j.da
		p1 := p0
		p1.GenesisTime, p1.MaxOperationTimeDelta = G, j.db
		pc := hx.NewClient(hx.NewVersion(p0, hx.VersionOpts{ParserOpts: hx.StrictResolution()}), hx.NewVersion(p1, hx.VersionOpts{ParserOpts: hx.StrictResolution()}))
		u := j.u
		cm := func(k *ref.Key) string { return k.Commitment(u.Code) }
		k2 := []interface{}{patchAddServices(svcEntry("w", "win", "https://window.example"))}
		o := SignedOpts{From: F}
		var op *ref.Op
		switch j.kind {
		case "update":
			op = u.MkSigned("upd[from]", "update", u.U[0], "", cm(u.U[1]), k2, o)
		case "recover":
			op = u.MkSigned("rec[from]", "recover", u.R[0], cm(u.R[1]), cm(u.U[1]), k2, o)
		default:
			op = u.MkSigned("deact[from]", "deactivate", u.R[0], "", "", nil, o)
		}
		create := u.MkCreate("C", ref.DeltaOK)
		da, db := int64(j.da), int64(j.db)
		for _, t := range []int64{F, F + da - 1, F + da, F + da + 1, F + db - 1, F + db, F + db + 1, int64(G) - 1, int64(G), int64(G) + 1} {
			for _, stamped := range []uint64{0, G} {
				if stamped == G && uint64(t) < G {
					continue // a transaction cannot be written under a version that is not yet in force
				}
				c.Eval()
				cr := *Place(create, 1, 0, "ref0", 0)
				cr.MaxDelta = da
				placed := *Place(op, uint64(t), 1, "ref1", stamped)
				placed.MaxDelta = da
				if stamped == G {
					placed.MaxDelta = db
				}
				H := []*ref.Op{&cr, &placed}
				st, merr := ref.Resolve(H, ref.ResolveOpts{})
				rm, err := SUTResolve(pc, u.Suffix, H, nil)
				pt := fmt.Sprintf("%s from=%d D(v0)=%d D(v%d)=%d anchored at %d under version %d", j.kind, F, da, G, db, t, stamped)
				if want, got := stKey(st, merr), rmKey(rm, err); want != got {
					c.Violation("C05 wrong effect with two protocol versions: "+pt+"\n   model:   "+want+"\n   library: "+got,
						map[string]interface{}{"point": pt, "history": replayOps(H), "model": want, "library": got})
					return
				}
				if ref.InWindow(F, 0, da, uint64(t)) != ref.InWindow(F, 0, db, uint64(t)) && stamped == 0 && uint64(t) >= G {
					c.Count("two_version_points_where_versions_disagree")
				}
				c.Distinct("2v " + pt)
			}
		}
	})
}

// c05InterimCopies: with an unpublished-operation store, an operation accepted inside its window takes effect at once
// through its interim copy (stamped by the handler with the intake time). The window is chosen around the wall clock with a
// margin of more than a day on both sides, so that the clock only has to be roughly right; the oracle itself compares
// with the reference model on the recorded interim copy.
func c05InterimCopies(c *hx.Ctx) {
	rng := c.Rng("interim")
	now := time.Now().Unix()
	for k := 0; k < c.N(12, 60); k++ {
		r := rng.Split(fmt.Sprint(k))
		p := hx.BaseProtocol()
		p.MaxOperationTimeDelta = 400000
		v := hx.NewVersion(p, hx.VersionOpts{})
		pc := hx.NewClient(v)
		d, cr, err := NewCDid(r.Split("did"), ref.SHA256, []string{hx.Pick(r, []string{"P-256", "Ed25519"})}, int64(p.MaxOperationTimeDelta), false,
			[]interface{}{patchAddKeys(genKeyEntry(r, "k1"))}, nil, "o", "")
		if err != nil {
			panic(err)
		}
		d.Suffix = suffixOf(cr.Req, ref.SHA256)
		store := hx.NewOpStore()
		H := []*ref.Op{Place(cr.Desc, 10, 0, "ref0", 0)}
		store.Set(d.Suffix, ToAnchored(d.Suffix, H))
		unpub := &recUnpub{}
		proc := processor.New("verif", store, pc, processor.WithUnpublishedOperationStore(unpub))
		dh := dochandler.New(hx.Namespace, nil, pc, &hx.RecWriter{}, proc, hx.NopMetrics{}, dochandler.WithUnpublishedOperationStore(unpub, allOpTypes))
		var from, until int64
		switch k % 3 {
		case 0:
			from, until = now-100000, now+200000
		case 1:
			from = now - 100000 // until defaults to from + 400000
		default:
			until = now + 200000
		}
		var b *BuiltOp
		kind := []string{"update", "recover", "deactivate"}[(k/3)%3]
		switch kind {
		case "update":
			b, err = d.Update([]interface{}{patchAddServices(svcEntry("interim", "t", "https://interim.example"))}, from, until)
		case "recover":
			b, err = d.Recover([]interface{}{patchAddServices(svcEntry("recovered", "t", "https://recovered.example"))}, nil, "o2", from, until)
		default:
			b, err = d.Deactivate(from, until)
		}
		if err != nil {
			panic(err)
		}
		c.Eval()
		if _, err := dh.ProcessOperation(b.Req, p.GenesisTime); err != nil {
			c.Violation(fmt.Sprintf("C05 a %s inside its window [%d,%d] (wall clock %d) was refused at intake: %v", kind, from, until, now, err), map[string]interface{}{"request": string(b.Req)})
			return
		}
		unpub.mu.Lock()
		var stamp uint64
		if len(unpub.ops) == 1 {
			stamp = unpub.ops[0].TransactionTime
		}
		n := len(unpub.ops)
		unpub.mu.Unlock()
		if n != 1 {
			c.Violation(fmt.Sprintf("C05 %d interim copies in the unpublished-operation store after one accepted %s", n, kind), nil)
			return
		}
		desc := *b.Desc
		desc.MaxDelta = int64(p.MaxOperationTimeDelta)
		all := append(append([]*ref.Op{}, H...), Place(&desc, stamp, 0, "", 0))
		st, merr := ref.Resolve(all, ref.ResolveOpts{})
		rm, rerr := proc.Resolve(d.Suffix)
		want, got := stKey(st, merr), rmKey(rm, rerr)
		inWin := ref.InWindow(from, until, int64(p.MaxOperationTimeDelta), stamp)
		if want != got || !inWin {
			c.Violation(fmt.Sprintf("C05 interim copy of a %s accepted inside its window [%d,%d]: stamped with time %d (in window by the stated rule: %v)\n   model:   %s\n   library: %s", kind, from, until, stamp, inWin, want, got),
				map[string]interface{}{"request": string(b.Req), "interim_stamp": stamp, "model": want, "library": got})
			return
		}
		c.Count("interim_copies_resolved_in_window")
		c.Distinct(fmt.Sprintf("interim|%s|%d", kind, k%3))
		// the operation is then anchored OUTSIDE its window, in a batch that also carries a create of another DID; the node's
		// transaction processor cleans interim copies of updates, recovers and deactivates (not of creates). From then on the
		// anchored operation alone counts: out of window (update: commitment consumed, document unchanged; deactivate: ignored;
		// recover: as the model says) - the interim copy, stamped inside the window, is gone
		cas := hx.NewMemCAS()
		subset := []operation.Type{operation.TypeUpdate, operation.TypeRecover, operation.TypeDeactivate}
		va := hx.NewVersion(p, hx.VersionOpts{CAS: cas, Store: store, TxnProcOpts: []txnprocessor.Option{txnprocessor.WithUnpublishedOperationStore(unpub, subset)}})
		dy, cry, yerr := NewCDid(r.Split("other"), ref.SHA256, []string{"P-256"}, int64(p.MaxOperationTimeDelta), false, []interface{}{patchAddKeys(genKeyEntry(r, "ky"))}, nil, "o", "")
		if yerr != nil {
			panic(yerr)
		}
		dy.Suffix = suffixOf(cry.Req, ref.SHA256)
		info, perr := va.Handler.PrepareTxnFiles([]*operation.QueuedOperation{
			{Type: operation.TypeCreate, OperationRequest: cry.Req, UniqueSuffix: dy.Suffix, Namespace: hx.Namespace},
			{Type: operation.Type(b.Desc.Type), OperationRequest: b.Req, UniqueSuffix: d.Suffix, Namespace: hx.Namespace}})
		if perr != nil {
			c.Violation("C05 the operation handler refused a batch of two valid operations: "+perr.Error(), nil)
			return
		}
		tOut := uint64(now + 200000 + 1000)
		if until == 0 {
			tOut = uint64(from + int64(p.MaxOperationTimeDelta) + 1000)
		}
		if _, terr := va.TxnProc.Process(txn.SidetreeTxn{Namespace: hx.Namespace, AnchorString: info.AnchorString, TransactionTime: tOut, TransactionNumber: 1, ProtocolVersion: p.GenesisTime, CanonicalReference: "ref1"}); terr != nil {
			c.Violation("C05 the transaction cannot be processed: "+terr.Error(), nil)
			return
		}
		anchored := append(append([]*ref.Op{}, H...), Place(&desc, tOut, 1, "ref1", 0))
		st2, merr2 := ref.Resolve(anchored, ref.ResolveOpts{})
		rm2, rerr2 := proc.Resolve(d.Suffix)
		if want2, got2 := stKey(st2, merr2), rmKey(rm2, rerr2); want2 != got2 || unpub.Len() != 0 {
			c.Violation(fmt.Sprintf("C05 a %s with window [%d,%d] accepted in time but anchored at %d (outside): once the transaction is processed only the anchored operation counts (%d interim copies left in the unpublished-operation store)\n   model:   %s\n   library: %s", kind, from, until, tOut, unpub.Len(), want2, got2),
				map[string]interface{}{"request": string(b.Req), "anchored_at": tOut, "model": want2, "library": got2})
			return
		}
		c.Count("interim_copies_superseded_by_an_out_of_window_anchoring")
	}
}
