package hx

// Crash-isolated worker child processes (DESIGN 2.4, A.4): the parent streams cases, the worker journals each case
// BEFORE calling the library and replies after; if the worker dies the parent knows the exact case.

import (
	"bufio"
	"encoding/binary"
	"fmt"
	"io"
	"os"
	"os/exec"
	"path/filepath"
	"strings"
	"sync"
	"syscall"
	"time"
)

// Crash describes a worker death.
type Crash struct {
	Kind   string // exit | watchdog
	Detail string // tail of stderr
	Case   []byte
}

// Worker is one child process.
type Worker struct {
	kind    string
	dir     string
	id      int
	cmd     *exec.Cmd
	in      io.WriteCloser
	out     *bufio.Reader
	errPath string
	memKB   int
	timeout time.Duration
	n       int
}

// Pool is a set of workers handing out calls.
type Pool struct {
	ch      chan *Worker
	ws      []*Worker
	mu      sync.Mutex
	Crashes int
}

// NewPool starts n workers of the given kind. memKB>0 sets ulimit -v.
func NewPool(c *Ctx, kind string, n int, memKB int, timeout time.Duration) *Pool {
	dir := filepath.Join(c.Root, "work", fmt.Sprintf("%s-%s-%d", c.ID, kind, os.Getpid()))
	_ = os.MkdirAll(dir, 0o755)
	p := &Pool{ch: make(chan *Worker, n)}
	for i := 0; i < n; i++ {
		w := &Worker{kind: kind, dir: dir, id: i, memKB: memKB, timeout: timeout}
		p.ws = append(p.ws, w)
		p.ch <- w
	}
	return p
}

// Close stops all workers and removes the scratch directory.
func (p *Pool) Close() {
	dir := ""
	for _, w := range p.ws {
		w.stop()
		dir = w.dir
	}
	if dir != "" {
		_ = os.RemoveAll(dir)
	}
}

func (w *Worker) start() error {
	bin := os.Getenv("VERIF_BIN")
	if bin == "" {
		bin, _ = os.Executable()
	}
	w.errPath = filepath.Join(w.dir, fmt.Sprintf("w%d.stderr", w.id))
	journal := filepath.Join(w.dir, fmt.Sprintf("w%d.journal", w.id))
	var cmd *exec.Cmd
	if w.memKB > 0 {
		cmd = exec.Command("/bin/bash", "-c", fmt.Sprintf("ulimit -v %d; exec %q worker %s %q", w.memKB, bin, w.kind, journal))
	} else {
		cmd = exec.Command(bin, "worker", w.kind, journal)
	}
	ef, err := os.Create(w.errPath)
	if err != nil {
		return err
	}
	cmd.Stderr = ef
	cmd.Env = append(os.Environ(), "GOTRACEBACK=single")
	in, err := cmd.StdinPipe()
	if err != nil {
		return err
	}
	out, err := cmd.StdoutPipe()
	if err != nil {
		return err
	}
	if err := cmd.Start(); err != nil {
		return err
	}
	ef.Close()
	w.cmd, w.in, w.out = cmd, in, bufio.NewReaderSize(out, 1<<16)
	return nil
}

func (w *Worker) stop() {
	if w.cmd == nil {
		return
	}
	_ = w.in.Close()
	done := make(chan struct{})
	go func() { _ = w.cmd.Wait(); close(done) }()
	select {
	case <-done:
	case <-time.After(2 * time.Second):
		_ = w.cmd.Process.Kill()
		<-done
	}
	w.cmd = nil
}

func (w *Worker) stderrTail() string {
	b, err := os.ReadFile(w.errPath)
	if err != nil {
		return ""
	}
	s := string(b)
	// keep the head (fatal error / panic line) and a bit of the stack
	if len(s) > 3000 {
		s = s[:3000]
	}
	return s
}

// call sends one case; returns reply or a crash.
func (w *Worker) call(payload []byte) ([]byte, *Crash) {
	if w.cmd == nil {
		if err := w.start(); err != nil {
			return nil, &Crash{Kind: "spawn", Detail: err.Error(), Case: payload}
		}
	}
	w.n++
	var hdr [4]byte
	binary.BigEndian.PutUint32(hdr[:], uint32(len(payload)))
	type res struct {
		b   []byte
		err error
	}
	ch := make(chan res, 1)
	go func() {
		if _, err := w.in.Write(append(hdr[:], payload...)); err != nil {
			ch <- res{nil, err}
			return
		}
		var rh [4]byte
		if _, err := io.ReadFull(w.out, rh[:]); err != nil {
			ch <- res{nil, err}
			return
		}
		buf := make([]byte, binary.BigEndian.Uint32(rh[:]))
		if _, err := io.ReadFull(w.out, buf); err != nil {
			ch <- res{nil, err}
			return
		}
		ch <- res{buf, nil}
	}()
	select {
	case r := <-ch:
		if r.err == nil {
			return r.b, nil
		}
		_ = w.cmd.Wait()
		detail := w.stderrTail()
		w.cmd = nil
		return nil, &Crash{Kind: "exit", Detail: detail, Case: payload}
	case <-time.After(w.timeout):
		_ = w.cmd.Process.Signal(syscall.SIGQUIT)
		time.Sleep(200 * time.Millisecond)
		_ = w.cmd.Process.Kill()
		_ = w.cmd.Wait()
		<-ch
		detail := w.stderrTail()
		w.cmd = nil
		return nil, &Crash{Kind: "watchdog", Detail: detail, Case: payload}
	}
}

// Call runs one case on any free worker.
func (p *Pool) Call(payload []byte) ([]byte, *Crash) {
	w := <-p.ch
	b, cr := w.call(payload)
	if cr != nil {
		p.mu.Lock()
		p.Crashes++
		p.mu.Unlock()
	}
	p.ch <- w
	return b, cr
}

// CrashSig returns a short signature of the crash (first fatal/panic line).
func (c *Crash) CrashSig() string {
	for _, l := range strings.Split(c.Detail, "\n") {
		if strings.HasPrefix(l, "fatal error:") || strings.HasPrefix(l, "panic:") || strings.Contains(l, "runtime: goroutine stack exceeds") {
			return c.Kind + ": " + l
		}
	}
	first := c.Detail
	if i := strings.IndexByte(first, '\n'); i > 0 {
		first = first[:i]
	}
	return c.Kind + ": " + first
}

// ---------- child side ----------

// ServeWorker runs the child loop: journal, call handler, reply. handler must not panic for ordinary errors
// (use recover inside) - an escaping panic or fatal error kills the worker, which is the point.
func ServeWorker(journalPath string, handler func(payload []byte) []byte) {
	jf, err := os.OpenFile(journalPath, os.O_CREATE|os.O_WRONLY|os.O_TRUNC, 0o644)
	if err != nil {
		fmt.Fprintln(os.Stderr, "worker: cannot open journal:", err)
		os.Exit(3)
	}
	in := bufio.NewReaderSize(os.Stdin, 1<<16)
	out := bufio.NewWriterSize(os.Stdout, 1<<16)
	n := 0
	for {
		var hdr [4]byte
		if _, err := io.ReadFull(in, hdr[:]); err != nil {
			return
		}
		buf := make([]byte, binary.BigEndian.Uint32(hdr[:]))
		if _, err := io.ReadFull(in, buf); err != nil {
			return
		}
		n++
		// journal BEFORE the call (overwrite: only the last case matters)
		_, _ = jf.Seek(0, 0)
		_ = jf.Truncate(0)
		fmt.Fprintf(jf, "case %d %d\n", n, len(buf))
		_, _ = jf.Write(buf)
		reply := handler(buf)
		fmt.Fprintf(jf, "\ndone %d\n", n)
		var rh [4]byte
		binary.BigEndian.PutUint32(rh[:], uint32(len(reply)))
		_, _ = out.Write(rh[:])
		_, _ = out.Write(reply)
		_ = out.Flush()
	}
}
