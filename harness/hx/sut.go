package hx

import (
	"errors"
	"fmt"
	"sort"
	"sync"
	"sync/atomic"
	"time"

	"github.com/trustbloc/sidetree-core-go/pkg/api/operation"
	"github.com/trustbloc/sidetree-core-go/pkg/api/protocol"
	"github.com/trustbloc/sidetree-core-go/pkg/compression"
	"github.com/trustbloc/sidetree-core-go/pkg/versions/1_0/doccomposer"
	"github.com/trustbloc/sidetree-core-go/pkg/versions/1_0/doctransformer/didtransformer"
	"github.com/trustbloc/sidetree-core-go/pkg/versions/1_0/docvalidator/didvalidator"
	"github.com/trustbloc/sidetree-core-go/pkg/versions/1_0/operationapplier"
	"github.com/trustbloc/sidetree-core-go/pkg/versions/1_0/operationparser"
	"github.com/trustbloc/sidetree-core-go/pkg/versions/1_0/txnprocessor"
	"github.com/trustbloc/sidetree-core-go/pkg/versions/1_0/txnprovider"

	"verifharness/ref"
)

// Namespace used by all checks.
const Namespace = "did:sidetree"

// AllPatches lists the eight patch actions.
var AllPatches = []string{"add-public-keys", "remove-public-keys", "add-services", "remove-services",
	"ietf-json-patch", "replace", "add-also-known-as", "remove-also-known-as"}

// AllAlgs / AllCurves list the supported signature and key algorithms.
var (
	AllAlgs   = []string{"EdDSA", "ES256", "ES384", "ES512", "ES256K"}
	AllCurves = []string{"Ed25519", "P-256", "P-384", "P-521", "secp256k1"}
)

// BaseProtocol returns the base configuration (DESIGN D.2): no two parameters share a value.
func BaseProtocol() protocol.Protocol {
	return protocol.Protocol{
		GenesisTime:                  0,
		MultihashAlgorithms:          []uint{ref.SHA256},
		MaxOperationCount:            7,
		MaxOperationSize:             5000,
		MaxOperationHashLength:       100,
		MaxDeltaSize:                 2000,
		MaxCasURILength:              110,
		CompressionAlgorithm:         "GZIP",
		MaxCoreIndexFileSize:         20000,
		MaxProofFileSize:             21000,
		MaxProvisionalIndexFileSize:  22000,
		MaxChunkFileSize:             23000,
		Patches:                      append([]string{}, AllPatches...),
		SignatureAlgorithms:          append([]string{}, AllAlgs...),
		KeyAlgorithms:                append([]string{}, AllCurves...),
		MaxOperationTimeDelta:        300,
		NonceSize:                    16,
		MaxMemoryDecompressionFactor: 3,
	}
}

// Metrics is a no-op metrics provider.
type Metrics struct{}

func (Metrics) CASWriteSize(string, int) {}

// Version is a protocol.Version assembled from the REAL components; any component can be wrapped.
type Version struct {
	P         protocol.Protocol
	Parser    *operationparser.Parser
	ParserI   protocol.OperationParser
	Applier   protocol.OperationApplier
	Composer  protocol.DocumentComposer
	Handler   protocol.OperationHandler
	Provider  protocol.OperationProvider
	TxnProc   protocol.TxnProcessor
	Validator protocol.DocumentValidator
	Transf    protocol.DocumentTransformer
	Label     string
}

func (v *Version) Version() string                                   { return v.Label }
func (v *Version) Protocol() protocol.Protocol                       { return v.P }
func (v *Version) TransactionProcessor() protocol.TxnProcessor       { return v.TxnProc }
func (v *Version) OperationParser() protocol.OperationParser         { return v.ParserI }
func (v *Version) OperationApplier() protocol.OperationApplier       { return v.Applier }
func (v *Version) OperationHandler() protocol.OperationHandler       { return v.Handler }
func (v *Version) OperationProvider() protocol.OperationProvider     { return v.Provider }
func (v *Version) DocumentComposer() protocol.DocumentComposer       { return v.Composer }
func (v *Version) DocumentValidator() protocol.DocumentValidator     { return v.Validator }
func (v *Version) DocumentTransformer() protocol.DocumentTransformer { return v.Transf }

// VersionOpts configures NewVersion.
type VersionOpts struct {
	CAS          CAS
	Store        txnprocessor.OperationStore
	ParserOpts   []operationparser.Option
	TransfOpts   []didtransformer.Option
	TxnProcOpts  []txnprocessor.Option
	ProviderOpts []txnprovider.Opt
}

// sharedCompression is the single compression registry of the process.
var sharedCompression = compression.New(compression.WithDefaultAlgorithms())

// CAS combines read and write.
type CAS interface {
	Write(content []byte) (string, error)
	Read(address string) ([]byte, error)
}

// NewVersion assembles the real components for a protocol configuration.
func NewVersion(p protocol.Protocol, o VersionOpts) *Version {
	parser := operationparser.New(p, o.ParserOpts...)
	composer := doccomposer.New()
	v := &Version{P: p, Parser: parser, ParserI: parser, Composer: composer, Label: fmt.Sprintf("v@%d", p.GenesisTime)}
	v.Applier = operationapplier.New(p, parser, composer)
	v.Validator = didvalidator.New()
	v.Transf = didtransformer.New(o.TransfOpts...)
	if o.CAS != nil {
		cp := sharedCompression // one registry per process, as on a real node: every version, handler and goroutine shares it
		v.Handler = txnprovider.NewOperationHandler(p, o.CAS, cp, parser, Metrics{})
		prov := txnprovider.NewOperationProvider(p, parser, o.CAS, cp, o.ProviderOpts...)
		v.Provider = prov
		if o.Store != nil {
			v.TxnProc = txnprocessor.New(&txnprocessor.Providers{OpStore: o.Store, OperationProtocolProvider: prov}, o.TxnProcOpts...)
		}
	}
	return v
}

// Client implements protocol.Client over versions sorted by genesis time.
type Client struct {
	Versions []protocol.Version
	Err      error
}

// NewClient sorts versions by genesis time.
func NewClient(vs ...protocol.Version) *Client {
	sort.Slice(vs, func(i, j int) bool { return vs[i].Protocol().GenesisTime < vs[j].Protocol().GenesisTime })
	return &Client{Versions: vs}
}

// Current returns the latest version.
func (c *Client) Current() (protocol.Version, error) {
	if c.Err != nil {
		return nil, c.Err
	}
	return c.Versions[len(c.Versions)-1], nil
}

// Get returns the version in force at the given time.
func (c *Client) Get(t uint64) (protocol.Version, error) {
	if c.Err != nil {
		return nil, c.Err
	}
	for i := len(c.Versions) - 1; i >= 0; i-- {
		if t >= c.Versions[i].Protocol().GenesisTime {
			return c.Versions[i], nil
		}
	}
	return nil, fmt.Errorf("protocol parameters are not defined for anchoring time: %d", t)
}

// ClientProvider implements protocol.ClientProvider.
type ClientProvider struct{ C protocol.Client }

// ForNamespace returns the client for the harness namespace.
func (p *ClientProvider) ForNamespace(ns string) (protocol.Client, error) {
	if ns != Namespace {
		return nil, fmt.Errorf("protocol client not found for namespace [%s]", ns)
	}
	return p.C, nil
}

// ---------- operation store ----------

// OpStore is an in-memory operation store whose Get order is controllable.
type OpStore struct {
	mu      sync.Mutex
	ops     map[string][]*operation.AnchoredOperation
	Order   func(ops []*operation.AnchoredOperation) []*operation.AnchoredOperation // optional permutation
	PutErr  func(call int, ops []*operation.AnchoredOperation) error
	PutLog  [][]*operation.AnchoredOperation
	putCall int
	GetErr  func(suffix string) error // fault injection: the read fails (database unreachable)
	GetHook func()                    // called (without the lock) at the start of every Get: lets a harness widen interleavings
	// KeepPointers: Put keeps the operation objects it is handed instead of copying them (what a plain in-memory store does,
	// e.g. the library's own mock); whoever changes such an object later changes the stored history
	KeepPointers bool
	// ShareSlice: Get hands out the store's own slice (with spare capacity) instead of a copy - what the library's mock store
	// and other plain in-memory stores do; a caller that writes into the slice it was given changes the stored history
	ShareSlice bool
}

// NewOpStore creates an empty store.
func NewOpStore() *OpStore { return &OpStore{ops: map[string][]*operation.AnchoredOperation{}} }

// Put stores a batch of operations (all or nothing).
func (s *OpStore) Put(ops []*operation.AnchoredOperation) error {
	s.mu.Lock()
	defer s.mu.Unlock()
	s.putCall++
	if s.PutErr != nil {
		if err := s.PutErr(s.putCall, ops); err != nil {
			return err
		}
	}
	cp := make([]*operation.AnchoredOperation, len(ops))
	for i, o := range ops {
		if s.KeepPointers {
			cp[i] = o
			continue
		}
		c := *o
		cp[i] = &c
	}
	s.PutLog = append(s.PutLog, cp)
	for _, o := range cp {
		s.ops[o.UniqueSuffix] = append(s.ops[o.UniqueSuffix], o)
	}
	return nil
}

// Set replaces the operations of a suffix.
func (s *OpStore) Set(suffix string, ops []*operation.AnchoredOperation) {
	s.mu.Lock()
	s.ops[suffix] = ops
	s.mu.Unlock()
}

// Get returns fresh copies of the stored operations (in the configured order).
func (s *OpStore) Get(suffix string) ([]*operation.AnchoredOperation, error) {
	if s.GetHook != nil {
		s.GetHook()
	}
	if s.GetErr != nil {
		if err := s.GetErr(suffix); err != nil {
			return nil, err
		}
	}
	s.mu.Lock()
	defer s.mu.Unlock()
	ops, ok := s.ops[suffix]
	if !ok || len(ops) == 0 {
		return nil, errors.New("uniqueSuffix not found in the store")
	}
	if s.ShareSlice {
		if cap(ops) < len(ops)+4 {
			grown := make([]*operation.AnchoredOperation, len(ops), len(ops)+8)
			copy(grown, ops)
			s.ops[suffix], ops = grown, grown
		}
		return ops, nil
	}
	out := make([]*operation.AnchoredOperation, len(ops))
	for i, o := range ops {
		c := *o
		out[i] = &c
	}
	if s.Order != nil {
		out = s.Order(out)
	}
	return out, nil
}

// All returns every stored op (copy).
func (s *OpStore) All() map[string][]*operation.AnchoredOperation {
	s.mu.Lock()
	defer s.mu.Unlock()
	out := map[string][]*operation.AnchoredOperation{}
	for k, v := range s.ops {
		out[k] = append([]*operation.AnchoredOperation{}, v...)
	}
	return out
}

// ---------- in-memory CAS ----------

// MemCAS is a content addressed store with fault injection.
type MemCAS struct {
	mu       sync.Mutex
	M        map[string][]byte
	WriteErr func(call int, content []byte) error
	ReadErr  func(call int, addr string) error
	OnWrite  func(call int)
	writes   int
	reads    int
	Prefix   string
}

// NewMemCAS creates an empty CAS.
func NewMemCAS() *MemCAS { return &MemCAS{M: map[string][]byte{}} }

// Write stores content under its hash.
func (m *MemCAS) Write(content []byte) (string, error) {
	m.mu.Lock()
	m.writes++
	call := m.writes
	we, ow := m.WriteErr, m.OnWrite
	m.mu.Unlock()
	if ow != nil {
		ow(call)
	}
	if we != nil {
		if err := we(call, content); err != nil {
			return "", err
		}
	}
	addr := m.Prefix + ref.EncMultihash(ref.SHA256, content)
	m.mu.Lock()
	m.M[addr] = append([]byte{}, content...)
	m.mu.Unlock()
	return addr, nil
}

// Read returns content.
func (m *MemCAS) Read(addr string) ([]byte, error) {
	m.mu.Lock()
	m.reads++
	call := m.reads
	re := m.ReadErr
	m.mu.Unlock()
	if re != nil {
		if err := re(call, addr); err != nil {
			return nil, err
		}
	}
	m.mu.Lock()
	defer m.mu.Unlock()
	b, ok := m.M[addr]
	if !ok {
		return nil, errors.New("not found")
	}
	return append([]byte{}, b...), nil
}

// Writes returns the number of write calls.
func (m *MemCAS) Writes() int { m.mu.Lock(); defer m.mu.Unlock(); return m.writes }

// Reads returns the number of read calls.
func (m *MemCAS) Reads() int { m.mu.Lock(); defer m.mu.Unlock(); return m.reads }

// ---------- no-op metrics for the document handler / REST handlers ----------

// NopMetrics implements the metrics interfaces of dochandler and restapi.
type NopMetrics struct{}

func (NopMetrics) ProcessOperation(time.Duration)             {}
func (NopMetrics) GetProtocolVersionTime(time.Duration)       {}
func (NopMetrics) ParseOperationTime(time.Duration)           {}
func (NopMetrics) ValidateOperationTime(time.Duration)        {}
func (NopMetrics) DecorateOperationTime(time.Duration)        {}
func (NopMetrics) AddUnpublishedOperationTime(time.Duration)  {}
func (NopMetrics) AddOperationToBatchTime(time.Duration)      {}
func (NopMetrics) GetCreateOperationResultTime(time.Duration) {}
func (NopMetrics) HTTPCreateUpdateTime(time.Duration)         {}
func (NopMetrics) HTTPResolveTime(time.Duration)              {}
func (NopMetrics) CASWriteSize(string, int)                   {}

// RecWriter records batch writer Add calls (dochandler's batchWriter).
type RecWriter struct {
	mu     sync.Mutex
	Added  []*operation.QueuedOperation
	Vers   []uint64
	AddErr func(call int) error
	calls  int
}

// Add records the operation.
func (w *RecWriter) Add(op *operation.QueuedOperation, version uint64) error {
	w.mu.Lock()
	defer w.mu.Unlock()
	w.calls++
	if w.AddErr != nil {
		if err := w.AddErr(w.calls); err != nil {
			return err
		}
	}
	w.Added = append(w.Added, op)
	w.Vers = append(w.Vers, version)
	return nil
}

// Len returns the number of recorded operations.
func (w *RecWriter) Len() int { w.mu.Lock(); defer w.mu.Unlock(); return len(w.Added) }

// Calls returns the number of Add calls (including failed ones).
func (w *RecWriter) Calls() int { w.mu.Lock(); defer w.mu.Unlock(); return w.calls }

// ---------- validators that must never be consulted while resolving ----------

type rejectTime struct{ calls *int64 }

func (r rejectTime) Validate(_, _ int64) error {
	atomic.AddInt64(r.calls, 1)
	return operationparser.ErrOperationExpired
}

type rejectOrigin struct{ calls *int64 }

func (r rejectOrigin) Validate(interface{}) error {
	atomic.AddInt64(r.calls, 1)
	return errors.New("anchor origin not allowed (intake-only validator consulted)")
}

// IntakeValidatorCalls counts calls to the intake-only validators installed by StrictResolution.
var IntakeValidatorCalls int64

// StrictResolution returns parser options installing a server-time validator and an anchor-origin validator that reject
// everything. Intake-only validation must never run while anchored operations are resolved (batch mode), so resolution
// results must be unaffected by them.
func StrictResolution() []operationparser.Option {
	return []operationparser.Option{operationparser.WithAnchorTimeValidator(rejectTime{&IntakeValidatorCalls}),
		operationparser.WithAnchorOriginValidator(rejectOrigin{&IntakeValidatorCalls})}
}

// NewClientWithTrap returns a client serving v and, from trapGenesis on, a "trap" version whose parser refuses every
// operation (operation size 1, no algorithms, no patch actions, refusing validators). Anchored operations are stamped with
// the version they were batched under; code that looks the version up by ANCHORING TIME instead falls into the trap as
// soon as an operation stamped with v's genesis time is anchored at or after trapGenesis.
func NewClientWithTrap(v protocol.Version, trapGenesis uint64) *Client {
	tp := v.Protocol()
	tp.GenesisTime = trapGenesis
	tp.MaxOperationSize, tp.MaxDeltaSize, tp.MaxOperationTimeDelta, tp.MaxOperationHashLength = 1, 1, 1, 1
	tp.KeyAlgorithms, tp.SignatureAlgorithms, tp.Patches = []string{"none"}, []string{"none"}, []string{"none"}
	return NewClient(v, NewVersion(tp, VersionOpts{ParserOpts: StrictResolution()}))
}
