// Package hx holds the shared harness machinery: PRNG, evidence and verdict writers, known findings,
// wiring of the real library components and recording implementations of the caller-provided interfaces.
package hx

import (
	"encoding/json"
	"fmt"
	"os"
	"path/filepath"
	"runtime/debug"
	"sort"
	"strconv"
	"strings"
	"sync"
	"time"
)

// ---------- PRNG (splitmix64; deterministic, splittable) ----------

// Rng is a deterministic PRNG.
type Rng struct{ s uint64 }

// NewRng creates a PRNG from a seed and a stream label.
func NewRng(seed uint64, label string) *Rng {
	r := &Rng{s: seed*0x9E3779B97F4A7C15 + 0x1234567}
	for _, c := range []byte(label) {
		r.s = (r.s ^ uint64(c)) * 0x100000001B3
		r.U64()
	}
	return r
}

// U64 returns the next 64 bits.
func (r *Rng) U64() uint64 {
	r.s += 0x9E3779B97F4A7C15
	z := r.s
	z = (z ^ (z >> 30)) * 0xBF58476D1CE4E5B9
	z = (z ^ (z >> 27)) * 0x94D049BB133111EB
	return z ^ (z >> 31)
}

// Intn returns a value in [0,n).
func (r *Rng) Intn(n int) int {
	if n <= 0 {
		return 0
	}
	return int(r.U64() % uint64(n))
}

// Bool returns a random bool.
func (r *Rng) Bool() bool { return r.U64()&1 == 1 }

// Chance returns true with probability num/den.
func (r *Rng) Chance(num, den int) bool { return r.Intn(den) < num }

// Bytes returns n random bytes.
func (r *Rng) Bytes(n int) []byte {
	b := make([]byte, n)
	for i := range b {
		b[i] = byte(r.U64())
	}
	return b
}

// Split derives an independent stream.
func (r *Rng) Split(label string) *Rng { return NewRng(r.U64(), label) }

// Perm returns a random permutation of [0,n).
func (r *Rng) Perm(n int) []int {
	p := make([]int, n)
	for i := range p {
		p[i] = i
	}
	for i := n - 1; i > 0; i-- {
		j := r.Intn(i + 1)
		p[i], p[j] = p[j], p[i]
	}
	return p
}

// Pick returns a random element.
func Pick[T any](r *Rng, xs []T) T { return xs[r.Intn(len(xs))] }

// ---------- run context: tier, seed, evidence, violations ----------

// Ctx is the per-check run context.
type Ctx struct {
	ID       string
	Tier     string // quick | thorough
	Seed     uint64
	Level    string
	Root     string // /verif
	start    time.Time
	mu       sync.Mutex
	evals    int64
	distinct map[string]struct{}
	counters map[string]int64
	samples  []interface{}
	extra    map[string]interface{}
	viol     []violation
	known    map[string]bool // printed known findings
	findings []Finding
	assume   []string
	rule     string
	inconcl  []string
}

type violation struct {
	What   string
	Replay string
}

// Finding is an entry of known_findings.json.
type Finding struct {
	Status   string `json:"status"` // open | fixed
	Property string `json:"property"`
	Commit   string `json:"commit,omitempty"`
	What     string `json:"what"`
	Match    string `json:"match,omitempty"` // signature substring that identifies the finding (open only)
}

// NewCtx builds the context from environment (VERIF_SEED, VERIF_TIER).
func NewCtx(id, tier, level string) *Ctx {
	seed := uint64(1)
	if s := os.Getenv("VERIF_SEED"); s != "" {
		if v, err := strconv.ParseUint(s, 10, 64); err == nil {
			seed = v
		} else if v, err := strconv.ParseInt(s, 10, 64); err == nil {
			seed = uint64(v)
		}
	}
	if t := os.Getenv("VERIF_TIER"); t == "quick" || t == "thorough" {
		if tier == "" {
			tier = t
		}
	}
	if tier == "" {
		tier = "quick"
	}
	root := os.Getenv("VERIF_ROOT")
	if root == "" {
		root = "/verif"
	}
	c := &Ctx{ID: id, Tier: tier, Seed: seed, Level: level, Root: root, start: time.Now(),
		distinct: map[string]struct{}{}, counters: map[string]int64{}, extra: map[string]interface{}{}, known: map[string]bool{}}
	c.loadFindings()
	return c
}

func (c *Ctx) loadFindings() {
	b, err := os.ReadFile(filepath.Join(c.Root, "known_findings.json"))
	if err != nil {
		return
	}
	var f struct {
		Findings []Finding `json:"findings"`
	}
	if json.Unmarshal(b, &f) == nil {
		c.findings = f.Findings
	}
}

// Thorough reports whether the thorough tier runs.
func (c *Ctx) Thorough() bool { return c.Tier == "thorough" }

// N picks the case count per tier.
func (c *Ctx) N(quick, thorough int) int {
	if c.Thorough() {
		return thorough
	}
	return quick
}

// Rng returns a PRNG stream for the label.
func (c *Ctx) Rng(label string) *Rng { return NewRng(c.Seed, c.ID+"/"+label) }

// Eval counts one evaluation (execution of the oracle).
func (c *Ctx) Eval() { c.mu.Lock(); c.evals++; c.mu.Unlock() }

// Progress is a monotone measure of work done (evaluations plus all counters), read by the wall-clock watchdog.
func (c *Ctx) Progress() int64 {
	c.mu.Lock()
	defer c.mu.Unlock()
	n := c.evals + int64(len(c.viol))
	for _, v := range c.counters {
		n += v
	}
	return n
}

// EvalN counts n evaluations.
func (c *Ctx) EvalN(n int) { c.mu.Lock(); c.evals += int64(n); c.mu.Unlock() }

// Distinct records a non-trivial case signature.
func (c *Ctx) Distinct(sig string) {
	c.mu.Lock()
	if len(c.distinct) < 5_000_000 {
		c.distinct[sig] = struct{}{}
	}
	c.mu.Unlock()
}

// Count increments a named counter.
func (c *Ctx) Count(name string) { c.CountN(name, 1) }

// CountN adds to a named counter.
func (c *Ctx) CountN(name string, n int) { c.mu.Lock(); c.counters[name] += int64(n); c.mu.Unlock() }

// Counter reads a counter.
func (c *Ctx) Counter(name string) int64 { c.mu.Lock(); defer c.mu.Unlock(); return c.counters[name] }

// Sample stores up to max sample cases.
func (c *Ctx) Sample(max int, v interface{}) {
	c.mu.Lock()
	if len(c.samples) < max {
		c.samples = append(c.samples, v)
	}
	c.mu.Unlock()
}

// Set stores an extra coverage key.
func (c *Ctx) Set(k string, v interface{}) { c.mu.Lock(); c.extra[k] = v; c.mu.Unlock() }

// Rule sets the rule text.
func (c *Ctx) Rule(s string) { c.rule = s }

// Assume records assumptions.
func (c *Ctx) Assume(s ...string) { c.assume = append(c.assume, s...) }

// Inconclusive records an inconclusive condition.
func (c *Ctx) Inconclusive(format string, a ...interface{}) {
	c.mu.Lock()
	c.inconcl = append(c.inconcl, fmt.Sprintf(format, a...))
	c.mu.Unlock()
}

// Violation records a violation with a replay payload. If the signature matches an open known finding it is
// reported as KNOWN-FINDING instead.
func (c *Ctx) Violation(sig string, replay interface{}) {
	c.mu.Lock()
	defer c.mu.Unlock()
	for _, f := range c.findings {
		if f.Status == "open" && f.Property == c.ID && f.Match != "" && strings.Contains(sig, f.Match) {
			if !c.known[f.Match] {
				c.known[f.Match] = true
				fmt.Printf("KNOWN-FINDING: property=%s %s\n", c.ID, f.What)
			}
			c.counters["known_finding_hits"]++
			return
		}
	}
	if len(c.viol) >= 25 {
		c.counters["violations_not_listed"]++
		return
	}
	dir := filepath.Join(c.Root, "replays", c.ID)
	_ = os.MkdirAll(dir, 0o755)
	path := filepath.Join(dir, fmt.Sprintf("%s-seed%d-%d.json", c.Tier, c.Seed, len(c.viol)+1))
	b, err := json.MarshalIndent(map[string]interface{}{"property": c.ID, "what": sig, "seed": c.Seed, "tier": c.Tier, "case": replay}, "", " ")
	if err != nil {
		b = []byte(fmt.Sprintf(`{"property":%q,"what":%q,"marshal_error":%q}`, c.ID, sig, err.Error()))
	}
	_ = os.WriteFile(path, b, 0o644)
	c.viol = append(c.viol, violation{What: sig, Replay: path})
	fmt.Printf("VIOLATION property=%s replay=%s\n", c.ID, path)
	fmt.Printf("  detail: %s\n", trunc(sig, 600))
}

func trunc(s string, n int) string {
	if len(s) > n {
		return s[:n] + "..."
	}
	return s
}

// Violations returns the count of (unlisted) violations.
func (c *Ctx) Violations() int { c.mu.Lock(); defer c.mu.Unlock(); return len(c.viol) }

// Floor demands a minimum for a counter (non-vacuity); failing it makes the run inconclusive.
func (c *Ctx) Floor(name string, min int64) {
	if v := c.Counter(name); v < min {
		c.Inconclusive("non-vacuity floor not met: %s=%d < %d", name, v, min)
	}
}

// collectRaceReports turns reports written by the Go race detector (GORACE log_path) into violations.
func (c *Ctx) collectRaceReports() {
	base := os.Getenv("VERIF_RACE_LOG")
	if base == "" {
		return
	}
	files, _ := filepath.Glob(base + ".*")
	total := 0
	var first string
	for _, f := range files {
		b, err := os.ReadFile(f)
		if err != nil {
			continue
		}
		n := strings.Count(string(b), "WARNING: DATA RACE")
		total += n
		if n > 0 && first == "" {
			first = string(b)
			if len(first) > 6000 {
				first = first[:6000]
			}
		}
		_ = os.Remove(f)
	}
	c.Set("race_reports", total)
	if total > 0 {
		c.Violation(fmt.Sprintf("%s the Go race detector reported %d data race(s) during the workload: %s", c.ID, total, trunc(first, 1500)), map[string]interface{}{"race_report": first})
	}
}

// Finish writes the evidence file and returns the exit code (0 held, 1 violated, 2 inconclusive).
func (c *Ctx) Finish() int {
	c.collectRaceReports()
	c.mu.Lock()
	defer c.mu.Unlock()
	cov := map[string]interface{}{}
	for k, v := range c.extra {
		cov[k] = v
	}
	cov["evaluations"] = c.evals
	cov["distinct_nontrivial"] = len(c.distinct)
	cov["rule"] = c.rule
	if len(c.samples) == 0 {
		c.samples = []interface{}{"(no sample recorded)"}
	}
	cov["samples"] = c.samples
	keys := make([]string, 0, len(c.counters))
	for k := range c.counters {
		keys = append(keys, k)
	}
	sort.Strings(keys)
	ctr := map[string]int64{}
	for _, k := range keys {
		ctr[k] = c.counters[k]
	}
	cov["observed"] = ctr
	verdict := "held"
	code := 0
	if len(c.viol) > 0 {
		verdict, code = "violated", 1
	} else if len(c.inconcl) > 0 {
		verdict, code = "inconclusive", 2
	}
	cov["verdict"] = verdict
	if len(c.inconcl) > 0 {
		cov["inconclusive_reasons"] = c.inconcl
	}
	if len(c.known) > 0 {
		var kf []string
		for k := range c.known {
			kf = append(kf, k)
		}
		sort.Strings(kf)
		cov["known_findings_reproduced"] = kf
	}
	ev := map[string]interface{}{
		"property_id": c.ID,
		"tier":        c.Tier,
		"seed":        int64(c.Seed),
		"level":       c.Level,
		"coverage":    cov,
		"assumptions": c.assume,
		"wall_s":      time.Since(c.start).Seconds(),
		"violations":  len(c.viol),
	}
	if c.assume == nil {
		ev["assumptions"] = []string{}
	}
	b, _ := json.MarshalIndent(ev, "", " ")
	_ = os.MkdirAll(filepath.Join(c.Root, "evidence"), 0o755)
	_ = os.WriteFile(filepath.Join(c.Root, "evidence", c.ID+".json"), b, 0o644)
	fmt.Printf("%s %s seed=%d verdict=%s evaluations=%d distinct_nontrivial=%d violations=%d wall=%.1fs\n",
		c.ID, c.Tier, c.Seed, verdict, c.evals, len(c.distinct), len(c.viol), time.Since(c.start).Seconds())
	for _, r := range c.inconcl {
		fmt.Printf("INCONCLUSIVE property=%s %s\n", c.ID, r)
	}
	return code
}

// PanicHook, when set, receives panics escaping from Parallel bodies (library code under test runs in-process there).
var PanicHook func(item int, r interface{}, stack string)

// Parallel runs fn(i) for i in [0,n) on w workers.
func Parallel(n, w int, fn func(i int)) {
	if w <= 0 {
		w = 16
	}
	var wg sync.WaitGroup
	ch := make(chan int, 256)
	for k := 0; k < w; k++ {
		wg.Add(1)
		go func() {
			defer wg.Done()
			for i := range ch {
				func() {
					defer func() {
						if r := recover(); r != nil && PanicHook != nil {
							PanicHook(i, r, string(debug.Stack()))
						} else if r != nil {
							panic(r)
						}
					}()
					fn(i)
				}()
			}
		}()
	}
	for i := 0; i < n; i++ {
		ch <- i
	}
	close(ch)
	wg.Wait()
}
