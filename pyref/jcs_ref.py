#!/usr/bin/env python3
"""Second, cross-language reference for RFC 8785 (JCS) and the ECMAScript number serialization.
Python 3 standard library only. Digits come from repr(float) (David Gay style shortest round trip),
a different implementation from Go's strconv used by both the library under test and the Go reference.

Modes:
  jcs_ref.py selftest
  jcs_ref.py numbers <file>   lines: <hex bits of double> <library output>      -> prints mismatches
  jcs_ref.py docs <file>      lines: <base64 input json> <base64 library output> -> prints mismatches
Exit code 0 = all agree, 1 = mismatches (printed as 'MISMATCH ...'), 2 = usage/internal error.
"""
import sys, json, struct, base64


def es6(f: float) -> str:
    if f != f or f in (float('inf'), float('-inf')):
        raise ValueError('NaN/Inf')
    if f == 0:
        return '0'
    sign = ''
    if f < 0:
        sign, f = '-', -f
    r = repr(f)  # shortest round-trip
    if 'e' in r or 'E' in r:
        mant, exp = r.lower().split('e')
        exp = int(exp)
    else:
        mant, exp = r, 0
    if '.' in mant:
        ip, fp = mant.split('.')
    else:
        ip, fp = mant, ''
    digits = ip + fp
    # value = 0.digits * 10^(len(ip)+exp)  after stripping leading zeros
    n = len(ip) + exp
    stripped = digits.lstrip('0')
    n -= len(digits) - len(stripped)
    digits = stripped.rstrip('0')
    if digits == '':
        return '0'
    k = len(digits)
    if k <= n <= 21:
        out = digits + '0' * (n - k)
    elif 0 < n <= 21:
        out = digits[:n] + '.' + digits[n:]
    elif -6 < n <= 0:
        out = '0.' + '0' * (-n) + digits
    else:
        e = n - 1
        es = ('+' if e > 0 else '') + str(e)
        out = (digits if k == 1 else digits[0] + '.' + digits[1:]) + 'e' + es
    return sign + out


def jstr(s: str) -> str:
    out = ['"']
    for ch in s:
        o = ord(ch)
        if ch == '"':
            out.append('\\"')
        elif ch == '\\':
            out.append('\\\\')
        elif ch == '\b':
            out.append('\\b')
        elif ch == '\f':
            out.append('\\f')
        elif ch == '\n':
            out.append('\\n')
        elif ch == '\r':
            out.append('\\r')
        elif ch == '\t':
            out.append('\\t')
        elif o < 0x20:
            out.append('\\u%04x' % o)
        else:
            out.append(ch)
    out.append('"')
    return ''.join(out)


def jcs(v) -> str:
    if v is None:
        return 'null'
    if v is True:
        return 'true'
    if v is False:
        return 'false'
    if isinstance(v, (int, float)):
        return es6(float(v))
    if isinstance(v, str):
        return jstr(v)
    if isinstance(v, list):
        return '[' + ','.join(jcs(x) for x in v) + ']'
    if isinstance(v, dict):
        keys = sorted(v.keys(), key=lambda s: s.encode('utf-16-be', 'surrogatepass'))
        return '{' + ','.join(jstr(k) + ':' + jcs(v[k]) for k in keys) + '}'
    raise TypeError(type(v))


def no_dups(pairs):
    d = {}
    for k, v in pairs:
        if k in d:
            raise ValueError('duplicate key')
        d[k] = v
    return d


APPENDIX_B = [
    ('0000000000000000', '0'), ('8000000000000000', '0'), ('0000000000000001', '5e-324'),
    ('8000000000000001', '-5e-324'), ('7fefffffffffffff', '1.7976931348623157e+308'),
    ('ffefffffffffffff', '-1.7976931348623157e+308'), ('4340000000000000', '9007199254740992'),
    ('c340000000000000', '-9007199254740992'), ('4430000000000000', '295147905179352830000'),
    ('44b52d02c7e14af5', '9.999999999999997e+22'), ('44b52d02c7e14af6', '1e+23'),
    ('44b52d02c7e14af7', '1.0000000000000001e+23'), ('444b1ae4d6e2ef4e', '999999999999999700000'),
    ('444b1ae4d6e2ef4f', '999999999999999900000'), ('444b1ae4d6e2ef50', '1e+21'),
    ('3eb0c6f7a0b5ed8c', '9.999999999999997e-7'), ('3eb0c6f7a0b5ed8d', '0.000001'),
    ('41b3de4355555553', '333333333.3333332'), ('41b3de4355555554', '333333333.33333325'),
    ('41b3de4355555555', '333333333.3333333'), ('41b3de4355555556', '333333333.3333334'),
    ('41b3de4355555557', '333333333.33333343'), ('becbf647612f3696', '-0.0000033333333333333333'),
    ('43143ff3c1cb0959', '1424953923781206.2'),
]


def bits(h):
    return struct.unpack('>d', bytes.fromhex(h))[0]


def main():
    if len(sys.argv) < 2:
        return 2
    mode = sys.argv[1]
    bad = 0
    if mode == 'selftest':
        for h, want in APPENDIX_B:
            got = es6(bits(h))
            if got != want:
                print('SELFTEST-FAIL', h, want, got)
                bad += 1
        if jcs({'€': 'Euro Sign', '\r': 'Carriage Return', 'דּ': 'Hebrew', '1': 'One', '\U0001f600': 'Emoji', '\u0080': 'Control', 'ö': 'Latin'}) != \
           '{"\\r":"Carriage Return","1":"One","\u0080":"Control","ö":"Latin","€":"Euro Sign","\U0001f600":"Emoji","דּ":"Hebrew"}':
            print('SELFTEST-FAIL sort order')
            bad += 1
        print('selftest', 'ok' if not bad else 'FAILED', len(APPENDIX_B) + 1)
        return 1 if bad else 0
    path = sys.argv[2]
    n = 0
    with open(path) as f:
        for line in f:
            line = line.rstrip('\n')
            if not line:
                continue
            n += 1
            a, b = line.split(' ', 1)
            if mode == 'numbers':
                want = es6(bits(a))
                if want != b:
                    print('MISMATCH number bits=%s python=%s library=%s' % (a, want, b))
                    bad += 1
            elif mode == 'docs':
                src = base64.b64decode(a).decode('utf-8')
                lib = base64.b64decode(b).decode('utf-8')
                try:
                    want = jcs(json.loads(src, object_pairs_hook=no_dups))
                except Exception as e:  # the Go side only sends inputs the library accepted
                    print('MISMATCH doc python-rejects(%s) input=%s' % (e, a))
                    bad += 1
                    continue
                if want != lib:
                    print('MISMATCH doc input=%s python=%s library=%s' % (a, base64.b64encode(want.encode()).decode(), b))
                    bad += 1
            if bad > 20:
                break
    print('checked', n, 'mismatches', bad)
    return 1 if bad else 0


if __name__ == '__main__':
    sys.exit(main())
