#!/bin/bash
# Runs every seeded change under /verif/seeded (and /verif/mutants) against every check's quick tier on a scratch copy of
# the repository (never /repo itself). Intended for `vp run --with-repo -- bash scripts/mutant_matrix.sh`.
# Output: one line per (change, check): MATRIX <change> <check> rc=<0|1|2> ; summary table at the end.
cd "$(dirname "$0")/.."
. scripts/env.sh
SRC=${VP_RUN_REPO:-/repo}
SCRATCH=/var/tmp/verif-matrix-repo-$$
CHECKS=${CHECKS:-"C01 C02 C03 C04 C05 C06 C07 C08 C09 C10 C11 C12 C13 C14 C15 C16 C17 C18 C19 C20"}
rm -rf $SCRATCH; mkdir -p $SCRATCH
trap 'rm -rf $SCRATCH work/alt-*' EXIT
rsync -a --exclude .git "$SRC/" $SCRATCH/
(cd $SCRATCH && git init -q . && git add -A >/dev/null && git -c user.email=x@x -c user.name=x commit -qm base >/dev/null)
export VERIF_REPO=$SCRATCH
for d in seeded/*/ mutants/*/; do
  [ -f "$d/patch.diff" ] || continue
  name=$(basename $d)
  (cd $SCRATCH && git checkout -q -- . && git clean -fdq)
  if ! (cd $SCRATCH && git apply "$OLDPWD/$d/patch.diff" 2>/dev/null); then echo "MATRIX $name - does-not-apply"; continue; fi
  for id in $CHECKS; do
    out=$(./check $id quick 2>&1); rc=$?
    echo "MATRIX $name $id rc=$rc $(echo "$out" | grep -m1 'detail:' | cut -c1-160)"
  done
done
