#!/bin/bash
# Runs every seeded change under /verif/seeded (and /verif/mutants) against every check's quick tier on scratch copies of
# the repository (never /repo itself). Intended for `vp run --with-repo -- bash scripts/mutant_matrix.sh`.
# Output: one line per (change, check): MATRIX <change> <check> rc=<0|1|2>. LANES scratch copies work in parallel.
cd "$(dirname "$0")/.."
. scripts/env.sh
SRC=${VP_RUN_REPO:-/repo}
LANES=${LANES:-3}
CHECKS=${CHECKS:-"C01 C02 C03 C04 C05 C06 C07 C08 C09 C10 C11 C12 C13 C14 C15 C16 C17 C18 C19 C20"}
ONLY=${ONLY:-""}   # optional grep -E filter on change names
MODE=${MODE:-"all"} # "own": per change only the check of its own property
BASE=/var/tmp/verif-matrix-$$
trap 'rm -rf $BASE* work/alt-*' EXIT
names=()
for d in seeded/*/ mutants/*/; do
  [ -f "$d/patch.diff" ] || continue
  n=$(basename $d)
  if [ -n "$ONLY" ] && ! echo "$n" | grep -Eq "$ONLY"; then continue; fi
  names+=("$d")
done
lane() {
  L=$1
  SCRATCH=$BASE-lane$L
  VROOT=$BASE-root$L          # private evidence/replay/work root so that lanes do not clobber each other
  mkdir -p $SCRATCH $VROOT
  rsync -a --exclude .git "$SRC/" $SCRATCH/
  (cd $SCRATCH && git init -q . && git add -A >/dev/null && git -c user.email=x@x -c user.name=x commit -qm base >/dev/null)
  cp known_findings.json $VROOT/; mkdir -p $VROOT/pyref; cp pyref/jcs_ref.py $VROOT/pyref/
  i=0
  for d in "${names[@]}"; do
    i=$((i+1)); [ $((i % LANES)) -eq $((L % LANES)) ] || continue
    name=$(basename $d)
    (cd $SCRATCH && git checkout -q -- . && git clean -fdq)
    if ! (cd $SCRATCH && git apply "$OLDPWD/$d/patch.diff" 2>/dev/null); then echo "MATRIX $name - does-not-apply"; continue; fi
    ids="$CHECKS"
    if [ "$MODE" = "own" ]; then
      # only the check of the property the change was written against (hand-made patches: the property in their name, the
      # reverts of fixes: the checks that found the defect)
      case "$name" in
        C[0-9][0-9]-*) ids="${name%%-*}";;
        c[0-9][0-9]-*) ids="C${name:1:2}";;
        x-c[0-9][0-9]*) ids="C${name:3:2}";;
        x-rev_166ae28|x-rev_db81e0f|x-rev_dca1326|x-rev_from|x-rev_9736906) ids="C18";;
        x-rev_ad70464) ids="C10 C03";;
        x-pathnull) ids="C14 C10 C18";;
        *) ids="C03 C10 C14 C18";;
      esac
    fi
    for id in $ids; do
      out=$(VERIF_REPO=$SCRATCH VERIF_EVIDENCE_ROOT=$VROOT ./check $id quick 2>&1); rc=$?
      echo "MATRIX $name $id rc=$rc $(echo "$out" | grep -m1 'detail:' | cut -c1-160)"
    done
  done
}
for L in $(seq 1 $LANES); do lane $L & done
wait
