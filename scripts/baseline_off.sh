#!/bin/bash
# Runs the repository's own test suite with the 'verif' guard OFF and compares with BASELINE.json (933 stable tests).
. "$(dirname "$0")/env.sh"
REPO=${1:-$VERIF_REPO}
OUT=$(mktemp /var/tmp/verif-baseline.XXXXXX.json)
trap 'rm -f "$OUT"' EXIT
(cd "$REPO" && go test -mod=mod -json -vet=off -count=1 -timeout 25m ./... > "$OUT" 2>/dev/null)
python3 - "$OUT" <<'PY'
import json,sys
passed,failed=set(),set()
for line in open(sys.argv[1],errors='replace'):
    line=line.strip()
    if not line.startswith('{'): continue
    try: ev=json.loads(line)
    except Exception: continue
    a=ev.get('Action'); t=ev.get('Test'); p=ev.get('Package','')
    if t is None or a not in('pass','fail'): continue
    (passed if a=='pass' else failed).add(p+'::'+t)
passed-=failed
base=set(json.load(open('/root/.vp/BASELINE.json'))['stable_pass'])
missing=sorted(base-passed)
print(f"baseline_off: stable={len(base)} passed_now={len(passed & base)} missing={len(missing)} failed_now={len(failed)}")
for m in missing[:50]: print("  MISSING",m)
for m in sorted(failed)[:50]: print("  FAILED",m)
sys.exit(1 if missing else 0)
PY
