# sourced by every script: offline Go environment
export GOFLAGS=-mod=mod GOPROXY=off GOSUMDB=off GOTOOLCHAIN=local CGO_ENABLED=${CGO_ENABLED:-1}
export VERIF_ROOT=${VERIF_ROOT:-/verif}
export VERIF_REPO=${VERIF_REPO:-/repo}
