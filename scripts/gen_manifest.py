#!/usr/bin/env python3
"""Regenerates /verif/MANIFEST.json from the table below (keeps it valid and the not_applicable list current)."""
import json, subprocess, os

ROOT = os.path.dirname(os.path.dirname(os.path.abspath(__file__)))
props = [json.loads(l) for l in open(os.path.join(ROOT, 'properties.jsonl'))]

# id -> (category, technique, level text, level note, design ref)
CHECKS = {
 'C01': ('exploration', 'metamorphic runtime monitor: Resolve(L+forged)==Resolve(L) on the real OperationProcessor, plus reference state machine',
         'Tens of thousands of generated legitimate commitment chains (all five key types, both hash algorithms) with multisets of unauthorised operations of every forgery class and later duplicate creates anchored at every kind of position; the oracle observes real Resolve executions and needs no model (a model comparison is added so that a break affecting both sides is still seen). Exploration, not proof: holds on what was driven.',
         'Trusted: Go crypto/btcec, the harness request builder (harness/ref) and that the forgery classes enumerate the statement. Operation lists in the result are not compared (they legitimately contain the forged operations).', 'DESIGN.md 5/C01'),
 'C02': ('exploration', 'permutation-invariance runtime monitor over all store return orders, plus reference model',
         'Every permutation (n<=6) or 26 orders of each generated operation set with forks, duplicate creates, replays and unpublished competitors, with coordinates whose time and number orders disagree; result and document metadata must be identical for every order and equal to the model (earliest (time,number) wins; published before unpublished).',
         'Coordinates are pairwise distinct per DID as the statement presupposes; unpublished operations are ordered after all published ones.', 'DESIGN.md 5/C02'),
 'C03': ('exploration', 'reference-model monitor, exhaustive histories to a bound, online Apply-trace checker T1-T6 with step budget',
         'Exhaustive enumeration of all histories (with repetition) over a 35-operation alphabet up to length 3 (quick) / 4 plus sampled length 5 (thorough), plus random long histories, each resolved by the real processor through a recording applier; compared field by field with an independent reference state machine; termination restated as a bound on Apply calls per Resolve.',
         'The model encodes my reading of the statements; cases the statements leave undefined are not generated (DESIGN Appendix B).', 'DESIGN.md 5/C03, App. A.1, D.1'),
 'C04': ('exploration', 'metamorphic extension monitor + intake monitor at the writer/unpublished-store boundary',
         'Deactivated histories extended by later operations validly signed by every key that ever existed, creates and forgeries; the real DocumentHandler must refuse update/recover/deactivate and leave no trace; recover histories extended by valid earlier-anchored updates (also by the newly committed key) must be unchanged.',
         '"Refuses new operations" is checked for update, recover and deactivate (duplicate creates are covered by C01).', 'DESIGN.md 5/C04'),
 'C05': ('exploration', 'exhaustive boundary grid with parameter-independence monitor; recording TimeValidator at intake',
         'Exhaustive grid over operation type x (from, until) x anchoring time at every boundary x MaxOperationTimeDelta x one unrelated protocol parameter moved at a time; effect at resolution compared with the window rule, and the arguments the installed TimeValidator receives at intake compared with (from, effective until).',
         'Window values are non-negative and below 2^63 (statement is silent otherwise).', 'DESIGN.md 5/C05'),
 'C06': ('exploration', 'metamorphic monitor: filtered resolution == resolution of truncated history, incl. REST handler slice',
         'For generated histories every cut time (at, between, before, after operations) and every version id is resolved twice on the real processor - with the option and over the truncated store - and the complete resolution models including operation lists must agree; unknown ids / too-early times must fail; a slice goes through the REST resolve handler.',
         'The truncated history is cut in the harness own (time, number) order.', 'DESIGN.md 5/C06'),
 'C07': ('exploration', 'differential runtime monitor against two independent JCS references (Go value-tree serializer, Python repr-based), in crash-isolated workers',
         'Exhaustive key pairs/triples over 30 tricky names, all boundary scalars, nested and random trees, each in 7 spellings, plus doubles by random bit pattern; every output of the real canonicalizer is compared with the Go reference, re-checked by the Python reference, must be a fixed point and parse back to the value; ten classes of malformed input must be rejected.',
         'References are trusted after their RFC 8785 Appendix B self-test; invalid UTF-8 and lenient number spellings are outside the statement.', 'DESIGN.md 5/C07, D.3'),
 'C08': ('exploration', 're-serialization metamorphic monitor + exact acceptance predicate for multihashes + exhaustive single-edit mutation of long-form DIDs through the real DocumentHandler',
         'Client-built requests over all key types and both hash algorithms: suffix, hash checks and resolution must be invariant under re-serialization; commitment/reveal relations checked against harness/ref; IsValidModelMultihash must accept exactly H_alg(JCS(model)); every single-character / single-member alteration and non-canonical re-encoding of a long-form DID must be rejected.',
         'Alterations are the classes the quantifier names; a top-level "type" member in the initial state is observed, not judged.', 'DESIGN.md 5/C08'),
 'C09': ('exploration', 'constructive tamper enumeration + structured-random fuzz of the JWS verifier through the verif-tagged hook, in crash-isolated workers',
         'Genuine JWS built independently and by the library for all five key types; every byte of header, payload and signature altered, every structural signature damage, every foreign key, malformed JWKs and headers, and structured-random compact strings: verification must accept exactly the genuine ones and never panic.',
         'Go crypto/btcec trusted; ECDSA twin counted, not judged; header edits that do not change the header value are not alterations.', 'DESIGN.md 5/C09'),
 'C10': ('exploration', 'independent acceptance predicate over raw JSON (accept => rules), boundary x configuration sweeps with converse, garbage fuzz of all parser entry points in workers',
         'Every member of valid requests (and of re-signed payloads/headers) mutated; whenever the real parser/handler accepts, an independent predicate must hold; each limit checked exactly at and one past its boundary under 9 configurations that vary one other parameter; arbitrary and damaged bytes into six entry points must never panic.',
         'Well-formed multihash = decodable, consistent length, allowed code; converse asserted only for requests built valid except for one boundary.', 'DESIGN.md 5/C10, D.2'),
 'C11': ('exploration', 'round-trip runtime monitor: client builders -> real parser -> real processor vs reference model',
         'Chains of client-built requests over five key types, both hash algorithms, generated documents/patches/anchor origins/windows/nonces: each must parse back to exactly the builder inputs and, anchored in window, resolve to the state the model predicts after every prefix.',
         'Builder inputs (commitments, reveal values) are computed by harness/ref.', 'DESIGN.md 5/C11'),
 'C12': ('exploration', 'exhaustive key x successor pairing at intake; trace checker T3 + model on cyclic histories',
         'All pairings of revealed key and next commitment under both hash algorithms and four protocol algorithm lists (exhaustive), creates/recovers with equal commitments; commitment cycles of length 1-5 in every anchoring order with replays, under the online trace checker and step budget.',
         'Exhaustive only over the 4-key universe and cycle length <= 5.', 'DESIGN.md 5/C12'),

 'C13': ('exploration', 'write/read-back round-trip monitor over the real OperationHandler, gzip and OperationProvider with uniquely marked operations',
         'All type sequences up to length 4 (exhaustive) on distinct DIDs and with repeated suffixes at every position pair, single-type / single-operation / maximum-size / expiring batches on a virtual clock and random mixes: files written by PrepareTxnFiles must read back as exactly one operation per distinct suffix with JSON-equal request, embedded anchor origin and the stated order, and included+deferred+expired must account for every queued operation exactly once.',
         'File size limits are set generously here (limits are C14); the all-expired batch (anchor "0.<uri>") is exercised and counted, not a violation.', 'DESIGN.md 5/C13'),
 'C14': ('exploration', 'mutation fuzz of real batch file sets with result-invariant oracle and must-reject/must-accept boundary cases, in crash-isolated workers under ulimit -v',
         'File sets produced by the real handler are decoded and mutated structurally and bytewise; stored-block gzip gives exact compressed sizes (limit / limit+1) and padded content exact decompressed sizes (limit*factor / +1), also from alternate sources; 30 consistency violations, 21 malformed anchor strings and CAS read-failure plans have fixed expected outcomes; every success must satisfy count, distinct-suffix, validated-delta and parseable-signed-data invariants.',
         'Validated deltas are checked with the library validators and an independent predicate; cross-consistency of reveal values is a resolution-time rule and is not demanded here.', 'DESIGN.md 5/C14'),
 'C17': ('exploration', 'purity / determinism / atomicity relations and independent ordered-set model on the real DocumentComposer, in crash-isolated workers',
         'Documents reached by random patch sequences and lists of 1-6 patches (failing k-th patch for every k, replace on populated documents, adds of existing ids at non-last positions): input untouched, two calls agree, error => no document, list == one-at-a-time, result == model; PatchesFromDocument round trip on generated documents including unusual member names.',
         'Ordered-set semantics are compared on validator-accepted lists; null, absent and [] are the same empty section.', 'DESIGN.md 5/C17'),
 'C18': ('exploration', 'independent rule oracle (accepted => rules, built violations => rejected) + crash-isolated application with per-call watchdog + section-unchanged effect monitor',
         'Every structural rule violated singly and pairwise in add-*/replace patches, action enablement matrix, all six RFC 6902 operations x 41 pointer shapes for path and from x value variants (exhaustive for single operations), aliasing chains and random lists, random mutations of valid patches; accepted deltas are applied to three documents: never panic / crash / hang, and JSON patches leave the key and service sections unchanged.',
         'Key-type/purpose table and the limits 50/30 frozen from statement and pinned tree; URI validity = net/url.ParseRequestURI; watchdog 30 s per call.', 'DESIGN.md 5/C18'),
 'C15': ('fault_enumeration', 'store-state oracle over recorded Put calls with one injected fault enumerated over every position; real Observer goroutine under the race detector; intake no-trace monitor',
         'Sequences of valid, malformed, unreadable and duplicate-carrying transactions delivered to the real Observer; one CAS read failure or store failure per run, enumerated over every file of every transaction and every Put; the recorded store writes must be exactly one stamped, duplicate-free Put per processable transaction. DocumentHandler.ProcessOperation sequences with an unpublished-store or writer failure at every call index must leave exactly the accepted operations in queue and unpublished store.',
         'Duplicate-carrying transactions come from a stub provider (the real provider refuses them); quick tier samples 8 fault positions per sequence, thorough enumerates all.', 'DESIGN.md 5/C15, A.3'),
 'C16': ('fault_enumeration', 'deterministic scheduler over the verif step hook + write-fault enumeration + offline event-log checker E1-E6; concurrent stress under the Go race detector with porcupine linearizability check of the queue boundary',
         'Mode A: the harness, not tickers, chooses ticks, the yield point (nine per batch) at which each concurrent Add lands and which CAS / anchor write or protocol-client lookup fails; an exhaustive 3-operation family and tens of thousands to millions of PRNG schedules, each log checked for exactly-once anchoring, FIFO/nack-to-head, batch size, version purity, undersized-batch rule (under the MaxOperationCount of the protocol version current at each cut, with a protocol upgrade during a quarter of the runs), re-queue of deferred operations and bounded drain; a slice feeds the writer through DocumentHandler.ProcessOperation with version times that are not genesis times; another slice uses the real OperationHandler (also with not-yet-valid operations on a virtual clock: rolled back until valid, then anchored once). Mode B: real Start() with millisecond tickers and 2-8 adders under -race; porcupine checks the recorded queue history against a sequential queue model.',
         'Crash points are failed CAS/anchor writes (a process crash after a successful anchor is at-least-once by construction and outside the statement); Mode B quiescence uses a generous wall-clock watchdog whose firing is inconclusive.', 'DESIGN.md 5/C16, A.2, D.4'),
 'C19': ('exploration', 'independent projection monitor with retained-result re-check (aliasing across transformations) and a slice through DocumentHandler.ResolveDocument; shared transformer instances driven from goroutines under the Go race detector',
         'Generated internal documents over every key type x purpose subset, material encodings, services, aliases; random resolution models and transformer options; each transformer instance serves many documents sequentially and from goroutines and every result is re-verified after all later calls.',
         'Context membership, not order; key-type/context table frozen from the pinned tree.', 'DESIGN.md 5/C19'),
 'C20': ('exploration', 'full-pipeline runtime monitor: real components end to end vs reference state machine + independent projection at every quiescent point; race detector',
         'Client operations on several DIDs through DocumentHandler/REST -> Writer -> OperationHandler -> CAS -> ledger -> Observer -> TxnProcessor -> store -> Resolve -> transformer, with harness-chosen flush and observation points, two protocol versions with ledger time crossing the boundary, with and without unpublished store; every DID compared with the model after every observation; create response / long form / short form content equality; bounded drain; a concurrent slice judged at quiescence.',
         'Runs with an unpublished store use operations without windows; ledger and stores are harness implementations of the caller-provided interfaces.', 'DESIGN.md 5/C20'),
}

RACE = {'C15', 'C16', 'C19', 'C20'}

hooks = subprocess.run(['git', '-C', '/repo', 'log', '--format=%H %s'], capture_output=True, text=True).stdout.splitlines()
hook_commits = [l.split()[0] for l in hooks if ' verif hooks:' in l]

checks = []
for pid, (cat, tech, text, note, dref) in sorted(CHECKS.items()):
    checks.append({
        'property_id': pid,
        'quick_cmd': f'./check {pid} quick',
        'thorough_cmd': f'./check {pid} thorough',
        'evidence_file': f'/verif/evidence/{pid}.json',
        'replay_cmd_template': f'./check {pid} quick --replay {{path}}',
        'engine': 'vcheck-race' if pid in RACE else 'vcheck',
        'level_claimed': {'category': cat, 'text': text, 'design_ref': dref},
        'level_note': note,
        'technique': tech,
    })

na = [{'property_id': p['id'], 'reason': 'check not built yet (work in progress; runtime-monitoring check planned, see DESIGN.md section 5)'}
      for p in props if p['id'] not in CHECKS]

m = {
 'version': 1,
 'setup_cmd': 'bash scripts/setup.sh',
 'hooks': {
   'guard': 'verif',
   'enable': 'go build -tags verif (harness module /verif/harness, replace github.com/trustbloc/sidetree-core-go => /repo); hook files: pkg/verifhooks/jws_verif.go, pkg/batch/writer_verif.go',
   'baseline_off_cmd': 'bash /verif/scripts/baseline_off.sh',
   'source_commits': hook_commits,
   'add_only': True,
 },
 'engines': [
   {'name': 'vcheck', 'path': '/verif/harness/cmd/vcheck', 'serves_properties': sorted(k for k in CHECKS if k not in RACE),
    'kind_free_text': 'Go harness binary built against /repo (tag verif): generators, independent reference implementations (harness/ref), runtime monitors and oracles; crash-isolated worker child processes for crash-prone calls'},
   {'name': 'vcheck-race', 'path': '/verif/harness/cmd/vcheck', 'serves_properties': sorted(k for k in CHECKS if k in RACE),
    'kind_free_text': 'same binary built with the Go race detector (-race) for the concurrent components (batch writer, observer, full pipeline)'},
 ],
 'checks': checks,
 'notes': 'Technique family: runtime monitoring and sanitizers. ./check <id> <tier> rebuilds the harness from /repo\'s working tree and runs one property. Exit 0 held, 1 violation (VIOLATION line + replay file), 2 inconclusive/broken. known_findings.json lists genuine defects (all repaired by fix: commits so far).',
 'not_applicable': na,
}
json.dump(m, open(os.path.join(ROOT, 'MANIFEST.json'), 'w'), indent=1)
print('MANIFEST.json written:', len(checks), 'checks,', len(na), 'not_applicable')
