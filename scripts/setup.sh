#!/bin/bash
# MANIFEST.setup_cmd: build the harness binaries from files on disk only (offline).
set -e
cd "$(dirname "$0")/.."
. scripts/env.sh
mkdir -p build work evidence replays
cp -f "$VERIF_REPO/go.sum" harness/go.sum.repo 2>/dev/null || true
(cd harness && go build -tags verif -o ../build/vcheck ./cmd/vcheck)
echo "setup ok"
