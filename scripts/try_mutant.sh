#!/bin/bash
# usage: scripts/try_mutant.sh <patch.diff> <check id>...   (applies to /repo, runs quick checks, reverts)
P=$1; shift
cd /verif
if ! git -C /repo diff --quiet; then echo "repo dirty"; exit 3; fi
git -C /repo apply "$P" || { echo "patch does not apply"; exit 3; }
EVBAK=$(mktemp -d /var/tmp/verif-evbak.XXXXXX); cp -a /verif/evidence/. $EVBAK/ 2>/dev/null
trap 'git -C /repo checkout -- . ; git -C /repo clean -fdq pkg; cp -a $EVBAK/. /verif/evidence/; rm -rf $EVBAK; rm -rf /verif/replays' EXIT
for id in "$@"; do
  out=$(./check $id ${TIER:-quick} 2>&1); rc=$?
  nv=$(echo "$out" | grep -c '^VIOLATION')
  echo "MUTANT $(basename $(dirname $P))/$(basename $P) check=$id rc=$rc violations=$nv :: $(echo "$out" | grep -m1 'detail:' | cut -c1-220)"
done
