#!/bin/bash
# usage: scripts/verify_seeded.sh <src dir with patch.diff, zz_seed_demo_test.go, demo_dir.txt> <property id> <label>
# Confirms in a scratch worktree: patch applies, repo suite green with it, demo red with it, demo green without it.
# Then runs the given property's quick check (and any extra ids in $EXTRA) against /repo with the patch applied.
. "$(dirname "$0")/env.sh"
SRC=$1; PID=$2; LABEL=$3
WT=/tmp/wt-verify-$$
git -C /repo worktree add -q --detach $WT HEAD || exit 3
cleanup() { git -C /repo worktree remove --force $WT 2>/dev/null; git -C /repo worktree prune; }
trap cleanup EXIT
RES="applies=no"
if git -C $WT apply "$SRC/patch.diff" 2>/dev/null; then
  RES="applies=yes"
  if (cd $WT && go build ./... ) >/dev/null 2>&1; then RES="$RES builds=yes"; else RES="$RES builds=NO"; fi
  if bash /verif/scripts/baseline_off.sh $WT >/dev/null 2>&1; then RES="$RES suite=green"; else RES="$RES suite=RED"; fi
  DD=$(cat "$SRC/demo_dir.txt" | tr -d ' \n')
  cp "$SRC/zz_seed_demo_test.go" "$WT/$DD/zz_seed_demo_test.go"
  if (cd $WT && go test -vet=off -count=1 ./$DD/ ) >/dev/null 2>&1; then RES="$RES demo_with_patch=PASS(bad)"; else RES="$RES demo_with_patch=fail(ok)"; fi
  git -C $WT apply -R "$SRC/patch.diff"
  if (cd $WT && go test -vet=off -count=1 ./$DD/ ) >/dev/null 2>&1; then RES="$RES demo_without_patch=pass(ok)"; else RES="$RES demo_without_patch=FAIL(bad)"; fi
fi
echo "SEEDED $LABEL property=$PID $RES"
