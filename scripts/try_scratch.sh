#!/bin/bash
# usage: scripts/try_scratch.sh <abs patch.diff> <check id>...   (TIER=quick|thorough, VERIF_SEED honoured)
# Like try_mutant.sh but never touches /repo or /verif/evidence: the change is applied to a scratch copy of the repository
# and the checks are built against that copy (VERIF_REPO) with a private evidence root. Safe to run while other checks run.
cd "$(dirname "$0")/.."
. scripts/env.sh
P=$1; shift
SCRATCH=/var/tmp/verif-try-$$; VROOT=/var/tmp/verif-try-root-$$
trap 'rm -rf $SCRATCH $VROOT work/alt-_var_tmp_verif-try-$$' EXIT
mkdir -p $SCRATCH $VROOT/pyref
rsync -a --exclude .git /repo/ $SCRATCH/
(cd $SCRATCH && git init -q . && git add -A >/dev/null && git -c user.email=x@x -c user.name=x commit -qm base >/dev/null)
cp known_findings.json $VROOT/; cp pyref/jcs_ref.py $VROOT/pyref/
if [ "$P" != "none" ]; then (cd $SCRATCH && git apply "$P") || { echo "patch does not apply"; exit 3; }; fi
for id in "$@"; do
  out=$(VERIF_REPO=$SCRATCH VERIF_EVIDENCE_ROOT=$VROOT ./check $id ${TIER:-quick} 2>&1); rc=$?
  nv=$(echo "$out" | grep -c '^VIOLATION')
  echo "MUTANT $(basename $(dirname $P))/$(basename $P) check=$id rc=$rc violations=$nv :: $(echo "$out" | grep -m1 'detail:' | cut -c1-220)"
done
