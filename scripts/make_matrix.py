#!/usr/bin/env python3
"""Turns the output of scripts/mutant_matrix.sh (lines `MATRIX <change> <check> rc=<n> ...`) into seeded/MATRIX.md and
fills `caught_by` in every seeded/<id>/meta.json.

usage: scripts/make_matrix.py <matrix log>[:<commit>] [<newer log>[:<commit>] ...]
"""
import glob
import json
import os
import re
import sys

# arguments: <log>[:<commit>] ... ; results of later logs override those of earlier ones (the last log is the newest harness)
logs = [a.split(':', 1) if ':' in a else [a, 'unknown'] for a in sys.argv[1:]]
commit = ', '.join('%s (%s)' % (os.path.basename(l), cmt) for l, cmt in logs)
root = os.path.join(os.path.dirname(os.path.abspath(__file__)), '..')
checks = ['C%02d' % i for i in range(1, 21)]
res = {}
notapply = set()
for log, _ in logs:
    for line in open(log, errors='replace'):
        m = re.match(r'MATRIX (\S+) (\S+) rc=(\d+)', line)
        if m:
            res.setdefault(m.group(1), {})[m.group(2)] = int(m.group(3))
            continue
        m = re.match(r'MATRIX (\S+) - does-not-apply', line)
        if m:
            notapply.add(m.group(1))


def natural(name):
    m = re.match(r'(C\d+)-(\d+)$', name)
    return (0, m.group(1), int(m.group(2))) if m else (1, name, 0)


seeded = sorted((n for n in res if re.match(r'C\d+-\d+$', n)), key=natural)
mutants = sorted(n for n in res if n not in seeded)
out = []
out.append('# Seeded changes and sensitivity patches: which check catches what')
out.append('')
out.append('Produced by `scripts/mutant_matrix.sh` (every change applied to a scratch copy of the repository, every check\'s quick')
out.append('tier run against it); logs and the /verif commits they were produced at, oldest first, later results override earlier ones:')
out.append('%s. Rendered by `scripts/make_matrix.py`. `X` = the check reported a violation' % commit)
out.append('(exit 1), `.` = held (exit 0), `?` = inconclusive / build failure (exit 2), blank = not run. The column of the property the change was')
out.append('written against is marked with `[ ]`. Results of background runs are not evidence; they document sensitivity only.')
out.append('')


def table(names, own):
    rows = ['| change | ' + ' | '.join(c[1:] for c in checks) + ' | caught by |', '|---|' + '---|' * (len(checks) + 1)]
    for n in names:
        cells, caught = [], []
        for c in checks:
            rc = res[n].get(c)
            s = {0: '.', 1: 'X', 2: '?'}.get(rc, ' ')
            if rc == 1:
                caught.append(c)
            if own(n) == c:
                s = '[' + s + ']'
            cells.append(s)
        rows.append('| %s | %s | %s |' % (n, ' | '.join(cells), ' '.join(caught) if caught else '**none**'))
    return rows


out.append('## Changes written by sub-agents (`seeded/<id>/`)')
out.append('')
out += table(seeded, lambda n: n.split('-')[0])
own_miss = [n for n in seeded if res[n].get(n.split('-')[0]) in (0, 2)]
own_not_run = [n for n in seeded if n.split('-')[0] not in res[n]]
none = [n for n in seeded if 1 not in res[n].values()]
out.append('')
out.append('%d seeded changes; caught by the check of their own property: %d; caught by no check at all: %d%s.' % (
    len(seeded), len(seeded) - len(own_miss), len(none), (' (' + ', '.join(none) + ')') if none else ''))
if own_not_run:
    out.append('Own-property check not run for: ' + ', '.join(own_not_run) + '.')
if own_miss:
    out.append('Not caught by their own property\'s check (caught elsewhere): ' + ', '.join(
        '%s (%s)' % (n, ' '.join(c for c in checks if res[n].get(c) == 1) or 'none') for n in own_miss) + '.')
out.append('')
out.append('## Hand-made sensitivity patches (`mutants/<name>/`)')
out.append('')


def mutant_own(n):
    m = re.match(r'c(\d\d)-', n)
    return 'C' + m.group(1) if m else None


out += table(mutants, mutant_own)
if notapply:
    out.append('')
    out.append('Patches that no longer apply to the repaired tree (superseded by a later fix): ' + ', '.join(sorted(notapply)) + '.')
out.append('')
open(os.path.join(root, 'seeded', 'MATRIX.md'), 'w').write('\n'.join(out))
n = 0
for d in glob.glob(os.path.join(root, 'seeded', 'C*-*')):
    name = os.path.basename(d)
    mp = os.path.join(d, 'meta.json')
    if name in res and os.path.exists(mp):
        meta = json.load(open(mp))
        meta['caught_by'] = [c for c in checks if res[name].get(c) == 1]
        meta['matrix_commit'] = commit
        json.dump(meta, open(mp, 'w'), indent=1)
        n += 1
print('MATRIX.md written: %d seeded, %d mutants; %d meta.json updated; own-property misses: %s; uncaught: %s' % (
    len(seeded), len(mutants), n, own_miss, none))
